//! C18 harness: `undeclared_variables` never omits a variable the template reads.
//!
//! For every generated single-file template (blocks, recursive loops, loop controls, include /
//! import / extends of fixed helper templates included) the binary
//!   * parses it with the real parser and dumps the real AST as a prefix token stream
//!     (input of the Lean driver `drive_c18`, which runs the model `findUndeclared` on it),
//!   * asks the real analysis (`Template::undeclared_variables(false / true)`),
//!   * renders it (undefined behaviour, named/from_str, syntax derived from the source text) with
//!     four *recording* context objects (every key the engine asks the context for is logged):
//!     all names truthy and non-empty / mixed kinds / sparse and falsy / all names empty and falsy,
//!     so that both sides of every branch and empty as well as non-empty loops are rendered,
//!     plus `render_captured` + `render_block` of every block + `call_macro` of every export,
//! and prints one line  `<hex of source>\t<json>`  with
//!   {"parse":"ok"|"err", "ast":"…", "und":[…], "nested":[…], "reads":[[…],…], "outcome":[…],
//!    "kinds":{…}, "recursive":bool, "selfref":[macro names referenced in their own body]}
//!
//! A case whose source starts with `#expr# ` is a bare expression and goes through
//! `Environment::compile_expression` / `Expression::undeclared_variables` / `Expression::eval`.
//! A case whose source starts with `#set# ` is a file set (see `c18_set.inc`): every look-up is
//! attributed to the file whose code performed it.  Systematic cases (`c18_sys.inc`) carry a
//! `"shape"` label.
//!
//! usage: c18 gen <quick|thorough> [start count]
//!                                     the case sequence (or its slice start .. start+count): fixed corpus,
//!                                     seeded random templates (VERIF_SEED), the systematic scope product
//!                                     (c18_sys.inc), special names, file sets (c18_set.inc); the cases run in
//!                                     worker processes (`c18 worker <tier> <first> <step> <end>`, dealt
//!                                     round-robin, read back in sequence order), a case that aborts the
//!                                     process is reported as {"parse":"abort"}
//!        c18 count <tier>             length of the sequence, size of the systematic product
//!        c18 srcs <quick|thorough>    only the hex sources of the sequence
//!        c18 one <hex source>         replay a single case
//!        c18 text <source>            same, source given literally
use minijinja::machinery::{ast, parse, parse_expr, WhitespaceConfig};
use minijinja::value::{Enumerator, Kwargs, Object, ObjectRepr, Rest, Value};
use minijinja::syntax::SyntaxConfig;
use minijinja::{Environment, Error, State, UndefinedBehavior};
use mjh::*;
use std::collections::{BTreeMap, BTreeSet};
use std::fmt;
use std::io::Write;
use std::sync::{Arc, Mutex};

// ------------------------------------------------------------------------------------------------
// values: a "universal" object that survives most operations
// ------------------------------------------------------------------------------------------------

/// Sequence-like object: attribute / item / call / method call all give a child, iteration gives
/// `len` children, truthiness = non-empty.  Depth-limited so rendering terminates.
/// While only attributes were followed from a context key, the object knows its path
/// (`a.b.c`) and logs every further attribute asked for: the attribute-level oracle of the
/// nested report.
#[derive(Debug)]
struct U {
    depth: u8,
    len: usize,
    path: Option<(String, PathLog)>,
}

type PathLog = Arc<Mutex<Vec<String>>>;

impl U {
    fn child_with(&self, path: Option<(String, PathLog)>) -> Value {
        if self.depth == 0 {
            Value::from(7)
        } else {
            Value::from_object(U { depth: self.depth - 1, len: self.len, path })
        }
    }
    fn child(&self) -> Value {
        self.child_with(None)
    }
}

impl Object for U {
    fn repr(self: &Arc<Self>) -> ObjectRepr {
        ObjectRepr::Seq
    }
    fn get_value(self: &Arc<Self>, key: &Value) -> Option<Value> {
        if let Some(i) = key.as_usize() {
            if i < self.len {
                Some(self.child())
            } else {
                None
            }
        } else if let Some(k) = key.as_str() {
            let path = self.path.as_ref().map(|(p, log)| {
                let np = format!("{}.{}", p, k);
                log.lock().unwrap().push(np.clone());
                (np, log.clone())
            });
            Some(self.child_with(path))
        } else {
            None
        }
    }
    fn enumerate(self: &Arc<Self>) -> Enumerator {
        Enumerator::Seq(self.len)
    }
    fn call(self: &Arc<Self>, _state: &mut State<'_, '_>, _args: &[Value]) -> Result<Value, Error> {
        Ok(self.child())
    }
    fn call_method(
        self: &Arc<Self>,
        _state: &mut State<'_, '_>,
        _method: &str,
        _args: &[Value],
    ) -> Result<Value, Error> {
        Ok(self.child())
    }
    fn render(self: &Arc<Self>, f: &mut fmt::Formatter<'_>) -> fmt::Result {
        write!(f, "U{}", self.len)
    }
}

/// Host object that keeps values across scopes (`{% do bag.put(m) %}` … `{{ bag.get()() }}`).
#[derive(Debug, Default)]
struct Bag {
    items: Mutex<Vec<Value>>,
}

impl Object for Bag {
    fn call_method(self: &Arc<Self>, _state: &mut State<'_, '_>, method: &str, args: &[Value]) -> Result<Value, Error> {
        match method {
            "put" => {
                self.items.lock().unwrap().extend(args.iter().cloned());
                Ok(Value::from(""))
            }
            "get" => {
                let items = self.items.lock().unwrap();
                let idx = args.first().and_then(|v| v.as_usize()).unwrap_or(items.len().saturating_sub(1));
                Ok(items.get(idx).cloned().unwrap_or(Value::UNDEFINED))
            }
            "size" => Ok(Value::from(self.items.lock().unwrap().len())),
            _ => Err(Error::new(minijinja::ErrorKind::UnknownMethod, "bag has put/get/size")),
        }
    }
}

/// Host callable that calls its first argument back (with the remaining arguments): a template
/// callable entered from Rust code in the middle of an expression.
#[derive(Debug)]
struct CallIt;

impl Object for CallIt {
    fn call(self: &Arc<Self>, state: &mut State<'_, '_>, args: &[Value]) -> Result<Value, Error> {
        match args.first() {
            Some(f) => f.call(state, &args[1..]),
            None => Ok(Value::UNDEFINED),
        }
    }
}

thread_local! {
    /// the names the host callable `peek` asked `State::lookup` for while the current case ran
    static HOST_LOOKUPS: std::cell::RefCell<BTreeSet<String>> = const { std::cell::RefCell::new(BTreeSet::new()) };
}

/// Host callable that reads the context behind the template's back: `peek("a", "b")` asks
/// `State::lookup` for every name it is given (as contrib's datetime filters ask for `TIMEZONE`).
/// What it asks for is an explicit parameter of the property (exempt from the oracle, logged).
#[derive(Debug)]
struct Peek;

impl Object for Peek {
    fn call(self: &Arc<Self>, state: &mut State<'_, '_>, args: &[Value]) -> Result<Value, Error> {
        let mut n = 0;
        for a in args {
            if let Some(name) = a.as_str() {
                HOST_LOOKUPS.with(|h| h.borrow_mut().insert(name.to_string()));
                if state.lookup(name).is_some() {
                    n += 1;
                }
            }
        }
        Ok(Value::from(n))
    }
}

/// The recording render context.
#[derive(Debug)]
struct Rec {
    inner: BTreeMap<String, Value>,
    log: Mutex<Vec<String>>,
    paths: PathLog,
    /// file sets: every key is logged as `<file index><US><key>` (the file whose instruction the
    /// VM dispatched last, see `c18_set.inc`)
    tagged: bool,
}

impl Object for Rec {
    fn repr(self: &Arc<Self>) -> ObjectRepr {
        ObjectRepr::Map
    }
    fn get_value(self: &Arc<Self>, key: &Value) -> Option<Value> {
        match key.as_str() {
            Some(s) => {
                if self.tagged {
                    let file = CUR_FILE.with(|c| c.get());
                    self.log.lock().unwrap().push(format!("{}{}{}", file, US, s));
                } else {
                    self.log.lock().unwrap().push(s.to_string());
                }
                self.inner.get(s).cloned()
            }
            None => {
                self.log.lock().unwrap().push(format!("<non-string key {:?}>", key.kind()));
                None
            }
        }
    }
    fn enumerate(self: &Arc<Self>) -> Enumerator {
        // only `debug()`-style introspection enumerates the context; the generator avoids it.
        self.log.lock().unwrap().push("<enumerate>".to_string());
        Enumerator::Values(self.inner.keys().map(|k| Value::from(k.as_str())).collect())
    }
}

const POOL: [&str; 12] = ["x", "y", "z", "a", "b", "item", "foo", "q", "ns", "c", "m", "n"];
const SPECIAL: [&str; 3] = ["loop", "self", "caller"];

fn mk_value(kind: u64, name: &str, paths: &PathLog) -> Option<Value> {
    let u = |depth: u8, len: usize| Value::from_object(U { depth, len, path: Some((name.to_string(), paths.clone())) });
    Some(match kind {
        0 => return None,
        1 => u(2, 2),
        2 => u(2, 0),
        3 => Value::from(3),
        4 => Value::from("s"),
        5 => Value::from(true),
        6 => Value::from(false),
        7 => Value::from(vec![Value::from_object(U { depth: 1, len: 2, path: None }), Value::from(1)]),
        8 => u(2, 1),
        10 => Value::from_safe_string("<b>".to_string()),
        11 => Value::from_bytes(vec![1, 2]),
        12 => Value::make_iterable(|| 0..2),
        13 => Value::make_one_shot_iterator(0..2),
        14 => Value::from(1.5),
        15 => Value::from(i128::MAX),
        16 => Value::from(BTreeMap::from([("a", 1), ("b", 2)])),
        _ => Value::from(()),
    })
}

const STRING_ONLY_KEYS: [&str; 2] = ["kfmt", "kattr"];
/// strings handed to builtins that take a name-like argument: context keys, unbound names,
/// names of registered filters/tests, pool variables, attribute-ish strings
const NAME_STRINGS: [&str; 14] = [
    "kfmt", "kattr", "ufmt", "uattr", "x", "foo", "upper", "f", "defined", "t", "a", "0", "a.b", "loop",
];

/// names the helper templates read; the contexts also provide the dynamic template names
const TEMPLATE_NAME_VARS: [(&str, &str); 3] = [("tpl", "inc.txt"), ("libname", "lib.txt"), ("basename", "base.txt")];

/// context number `which` for a template (deterministic in `seed`):
/// 0 = every name truthy and non-empty, 1 = mixed kinds, 2 = sparse + falsy, 3 = every name
/// defined but empty / falsy (every loop runs its else branch, every condition is false)
fn mk_context(which: usize, seed: u64) -> Arc<Rec> {
    mk_context_with(which, seed, false)
}

fn mk_context_tagged(which: usize, seed: u64) -> Arc<Rec> {
    mk_context_with(which, seed, true)
}

fn mk_context_with(which: usize, seed: u64, tagged: bool) -> Arc<Rec> {
    let mut inner = BTreeMap::new();
    let paths: PathLog = Arc::new(Mutex::new(Vec::new()));
    let mut rng = Rng::new(seed ^ (which as u64).wrapping_mul(0x5851F42D4C957F2D));
    // file sets: the helpers' own free names exist too, so that strict renders get past them
    let extra: &[&str] = if tagged { &SET_EXTRA_NAMES } else { &[] };
    for name in POOL.iter().chain(SPECIAL.iter()).chain(extra.iter()) {
        let v = match which {
            0 => mk_value(1, name, &paths),
            // `c` false and `q` true: the one combination that takes an `elif q` branch behind `if c`
            1 if *name == "c" => mk_value(6, name, &paths),
            1 if *name == "q" => mk_value(1, name, &paths),
            1 => mk_value(*rng.pick(&[1, 1, 1, 1, 8, 8, 2, 2, 0, 0, 0, 3, 4, 5, 6, 7, 9, 10, 11, 12, 13, 14, 15, 16]), name, &paths),
            3 => mk_value(2, name, &paths),
            _ => mk_value(if rng.chance(1, 2) { 0 } else { *rng.pick(&[2, 6, 1, 9, 8]) }, name, &paths),
        };
        if let Some(v) = v {
            inner.insert(name.to_string(), v);
        }
    }
    for (var, tname) in TEMPLATE_NAME_VARS.iter() {
        if which != 2 || rng.chance(1, 2) {
            inner.insert(var.to_string(), Value::from(*tname));
        }
    }
    // keys that no template uses as a variable: they only occur as STRING arguments of builtins
    // (`xs|map("kfmt")`); a builtin that resolves such a string against the context is caught
    for key in STRING_ONLY_KEYS.iter() {
        inner.insert(key.to_string(), Value::from_object(U { depth: 2, len: 2, path: None }));
    }
    // a host object that stores values across scopes (escape stream); fresh per context
    inner.insert("bag".to_string(), Value::from_object(Bag::default()));
    Arc::new(Rec { inner, log: Mutex::new(Vec::new()), paths, tagged })
}

const N_CONTEXTS: usize = 4;
const SET_EXTRA_NAMES: [&str; 8] = ["inc_var", "inc_m", "lib_var", "lib_top", "base_var", "base_b0", "base_m", "keep"];

/// how a case is run; derived from the source text, so a case replays from its hex
#[derive(Clone, Copy)]
struct Cfg {
    undefined: UndefinedBehavior,
    /// `add_template_owned` + `get_template` instead of `template_from_str`
    named: bool,
    /// `Environment::set_syntax`: 0 = default, 1 = `<% %>`, `<< >>`, `<# #>` delimiters,
    /// 2 = default delimiters + line statements (`%% for x in y`) and line comments (`##`)
    custom_syntax: u8,
}

impl Cfg {
    fn of(seed: u64, is_expr: bool) -> Cfg {
        Cfg {
            undefined: match seed % 8 {
                5 => UndefinedBehavior::Strict,
                6 => UndefinedBehavior::Chainable,
                7 => UndefinedBehavior::SemiStrict,
                _ => UndefinedBehavior::Lenient,
            },
            named: (seed >> 3) % 3 == 0,
            custom_syntax: if is_expr {
                0
            } else {
                match (seed >> 5) % 5 {
                    0 => 1,
                    1 => 2,
                    _ => 0,
                }
            },
        }
    }
    fn label(&self) -> String {
        format!(
            "{:?}/{}/{}",
            self.undefined,
            if self.named { "named" } else { "from_str" },
            match self.custom_syntax {
                1 => "custom-syntax",
                2 => "line-statements",
                _ => "default-syntax",
            }
        )
    }
    fn syntax(&self) -> SyntaxConfig {
        match self.custom_syntax {
            1 => SyntaxConfig::builder()
                .block_delimiters("<%", "%>")
                .variable_delimiters("<<", ">>")
                .comment_delimiters("<#", "#>")
                .build()
                .unwrap(),
            2 => SyntaxConfig::builder().line_statement_prefix("%%").line_comment_prefix("##").build().unwrap(),
            _ => SyntaxConfig::default(),
        }
    }
    /// the source in the delimiters of this configuration
    fn source(&self, src: &str) -> String {
        match self.custom_syntax {
            1 => src.replace("{{", "<<").replace("}}", ">>").replace("{%", "<%").replace("%}", "%>"),
            // every block tag becomes a line statement of its own
            2 => src.replace("{%", "\n%% ").replace("%}", "\n"),
            _ => src.to_string(),
        }
    }
}

/// the other templates of the environment (targets of include / import / extends)
const HELPERS: [(&str, &str); 4] = [
    ("setx.txt", "{% set x = 1 %}{{ setx_var }}"),
    ("inc.txt", "{{ inc_var }}{% set leaked = 1 %}"),
    (
        "lib.txt",
        "{% macro helper(a) %}{{ a }}{{ lib_var }}{% endmacro %}{% set exported = 1 %}{{ lib_top }}",
    ),
    (
        "base.txt",
        "{{ base_var }}{% block b0 %}{{ base_b0 }}{% endblock %}[{% block b1 %}{{ base_b1 }}{% endblock %}]{% block body %}{% endblock %}",
    ),
];

fn mk_env(cfg: Cfg) -> Environment<'static> {
    let mut env = Environment::new();
    env.set_undefined_behavior(cfg.undefined);
    env.set_syntax(cfg.syntax());
    for (name, src) in HELPERS.iter() {
        env.add_template_owned(name.to_string(), cfg.source(src)).unwrap();
    }
    // debug mode makes a failing render look up every name mentioned near the failing
    // instruction for the error report; that is not name resolution of the template.
    env.set_debug(false);
    env.set_fuel(Some(20_000));
    env.set_recursion_limit(40);
    fn eat(kwargs: &Kwargs) {
        for k in kwargs.args().collect::<Vec<_>>() {
            let _ = kwargs.get::<Value>(k);
        }
    }
    env.add_filter("f", |v: Value, _rest: Rest<Value>, kw: Kwargs| {
        eat(&kw);
        v
    });
    env.add_filter("g", |v: Value, _rest: Rest<Value>, kw: Kwargs| {
        eat(&kw);
        v
    });
    // `|i` makes anything an integer (slice bounds), `|l` makes anything iterable (loop sources)
    env.add_filter("i", |_v: Value| 1);
    env.add_filter("l", |v: Value| {
        if v.try_iter().is_ok() && v.as_str().is_none() {
            v
        } else {
            Value::from(vec![v.clone(), v])
        }
    });
    env.add_test("t", |_v: Value, _rest: Rest<Value>, kw: Kwargs| {
        eat(&kw);
        true
    });
    env.add_test("u", |_v: Value, _rest: Rest<Value>| false);
    env.add_global("callit", Value::from_object(CallIt));
    env.add_global("peek", Value::from_object(Peek));
    env.add_function("gf", |_rest: Rest<Value>, kw: Kwargs| {
        eat(&kw);
        Value::from_object(U { depth: 2, len: 2, path: None })
    });
    env
}

// ------------------------------------------------------------------------------------------------
// AST dump (prefix tokens) + statistics, from the REAL parser's AST
// ------------------------------------------------------------------------------------------------

#[derive(Default)]
struct Dump {
    out: String,
    kinds: BTreeMap<&'static str, usize>,
    recursive: bool,
    unsupported: bool,
    selfref: BTreeSet<String>,
}

fn clean(name: &str) -> String {
    let s: String = name.chars().filter(|c| !c.is_whitespace()).collect();
    if s.is_empty() {
        "_".into()
    } else {
        s
    }
}

impl Dump {
    fn tok(&mut self, t: &str) {
        if !self.out.is_empty() {
            self.out.push(' ');
        }
        self.out.push_str(t);
    }
    fn kind(&mut self, k: &'static str) {
        *self.kinds.entry(k).or_insert(0) += 1;
    }
    fn stmts(&mut self, ss: &[ast::Stmt<'_>]) {
        self.tok(&ss.len().to_string());
        for s in ss {
            self.stmt(s);
        }
    }
    fn opt(&mut self, e: &Option<ast::Expr<'_>>) {
        match e {
            None => self.tok("none"),
            Some(e) => {
                self.tok("some");
                self.expr(e);
            }
        }
    }
    fn args(&mut self, args: &[ast::CallArg<'_>]) {
        self.tok(&args.len().to_string());
        for a in args {
            match a {
                ast::CallArg::Pos(e) => {
                    self.tok("pos");
                    self.expr(e);
                }
                ast::CallArg::Kwarg(k, e) => {
                    self.kind("arg:kwarg");
                    self.tok("kw");
                    self.tok(&clean(k));
                    self.expr(e);
                }
                ast::CallArg::PosSplat(e) => {
                    self.kind("arg:splat");
                    self.tok("splat");
                    self.expr(e);
                }
                ast::CallArg::KwargSplat(e) => {
                    self.kind("arg:kwsplat");
                    self.tok("kwsplat");
                    self.expr(e);
                }
            }
        }
    }
    fn call(&mut self, c: &ast::Call<'_>) {
        self.tok("call");
        self.expr(&c.expr);
        self.args(&c.args);
    }
    fn macro_(&mut self, m: &ast::Macro<'_>) {
        self.tok(&clean(m.name));
        self.tok(&m.args.len().to_string());
        for a in &m.args {
            self.expr(a);
        }
        self.tok(&m.defaults.len().to_string());
        for d in &m.defaults {
            self.expr(d);
        }
        self.stmts(&m.body);
        // does the macro mention its own name anywhere inside (over-approximation of a free
        // reference; only used to label the known `Enclose` finding)
        let mut inner = Dump::default();
        for d in &m.defaults {
            inner.expr(d);
        }
        inner.stmts(&m.body);
        let needle = format!("var {}", m.name);
        if inner.out.split(" var ").any(|rest| rest.split(' ').next() == Some(m.name))
            || inner.out.starts_with(&needle)
        {
            self.selfref.insert(m.name.to_string());
        }
    }
    fn stmt(&mut self, s: &ast::Stmt<'_>) {
        match s {
            ast::Stmt::Template(t) => {
                self.stmts(&t.children);
            }
            ast::Stmt::EmitExpr(e) => {
                self.kind("EmitExpr");
                self.tok("emit");
                self.expr(&e.expr);
            }
            ast::Stmt::EmitRaw(_) => {
                self.kind("EmitRaw");
                self.tok("raw");
            }
            ast::Stmt::ForLoop(f) => {
                self.kind("ForLoop");
                if f.filter_expr.is_some() {
                    self.kind("ForLoop:filter");
                }
                if !f.else_body.is_empty() {
                    self.kind("ForLoop:else");
                }
                if f.recursive {
                    self.kind("ForLoop:recursive");
                    self.recursive = true;
                }
                self.tok("for");
                self.tok(if f.recursive { "1" } else { "0" });
                self.expr(&f.target);
                self.expr(&f.iter);
                self.opt(&f.filter_expr);
                self.stmts(&f.body);
                self.stmts(&f.else_body);
            }
            ast::Stmt::IfCond(c) => {
                self.kind("IfCond");
                self.tok("if");
                self.expr(&c.expr);
                self.stmts(&c.true_body);
                self.stmts(&c.false_body);
            }
            ast::Stmt::WithBlock(w) => {
                self.kind("WithBlock");
                self.tok("with");
                self.tok(&w.assignments.len().to_string());
                for (t, e) in &w.assignments {
                    self.expr(t);
                    self.expr(e);
                }
                self.stmts(&w.body);
            }
            ast::Stmt::Set(s) => {
                self.kind("Set");
                self.tok("set");
                self.expr(&s.target);
                self.expr(&s.expr);
            }
            ast::Stmt::SetBlock(s) => {
                self.kind("SetBlock");
                if s.filter.is_some() {
                    self.kind("SetBlock:filter");
                }
                self.tok("setblock");
                self.expr(&s.target);
                self.opt(&s.filter);
                self.stmts(&s.body);
            }
            ast::Stmt::AutoEscape(a) => {
                self.kind("AutoEscape");
                self.tok("autoescape");
                self.expr(&a.enabled);
                self.stmts(&a.body);
            }
            ast::Stmt::FilterBlock(f) => {
                self.kind("FilterBlock");
                self.tok("filterblock");
                self.expr(&f.filter);
                self.stmts(&f.body);
            }
            ast::Stmt::Macro(m) => {
                self.kind("Macro");
                self.tok("macro");
                self.macro_(m);
            }
            ast::Stmt::CallBlock(c) => {
                self.kind("CallBlock");
                self.tok("callblock");
                self.call(&c.call);
                self.macro_(&c.macro_decl);
            }
            ast::Stmt::Do(d) => {
                self.kind("Do");
                self.tok("do");
                self.call(&d.call);
            }
            ast::Stmt::Continue(_) => {
                self.kind("Continue");
                self.tok("continue");
            }
            ast::Stmt::Break(_) => {
                self.kind("Break");
                self.tok("break");
            }
            ast::Stmt::Block(b) => {
                self.kind("Block");
                self.tok("block");
                self.tok(&clean(b.name));
                self.stmts(&b.body);
            }
            ast::Stmt::Include(i) => {
                self.kind("Include");
                self.tok("include");
                self.expr(&i.name);
            }
            ast::Stmt::Extends(e) => {
                self.kind("Extends");
                self.tok("extends");
                self.expr(&e.name);
            }
            ast::Stmt::Import(i) => {
                self.kind("Import");
                self.tok("import");
                self.expr(&i.expr);
                self.expr(&i.name);
            }
            ast::Stmt::FromImport(f) => {
                self.kind("FromImport");
                self.tok("fromimport");
                self.expr(&f.expr);
                self.tok(&f.names.len().to_string());
                for (name, alias) in &f.names {
                    self.expr(alias.as_ref().unwrap_or(name));
                }
            }
        }
    }
    fn expr(&mut self, e: &ast::Expr<'_>) {
        match e {
            ast::Expr::Var(v) => {
                self.kind("e:Var");
                self.tok("var");
                self.tok(&clean(v.id));
            }
            ast::Expr::Const(_) => {
                self.kind("e:Const");
                self.tok("const");
            }
            ast::Expr::Slice(s) => {
                self.kind("e:Slice");
                self.tok("slice");
                self.expr(&s.expr);
                self.opt(&s.start);
                self.opt(&s.stop);
                self.opt(&s.step);
            }
            ast::Expr::UnaryOp(u) => {
                self.kind("e:UnaryOp");
                self.tok("unary");
                self.expr(&u.expr);
            }
            ast::Expr::BinOp(b) => {
                self.kind("e:BinOp");
                self.tok("binop");
                self.tok(match b.op {
                    ast::BinOpKind::ScAnd | ast::BinOpKind::ScOr => "sc",
                    _ => "op",
                });
                self.expr(&b.left);
                self.expr(&b.right);
            }
            ast::Expr::Compare(c) => {
                self.kind("e:Compare");
                self.tok("compare");
                self.expr(&c.expr);
                self.tok(&c.ops.len().to_string());
                for op in &c.ops {
                    self.expr(&op.expr);
                }
            }
            ast::Expr::IfExpr(i) => {
                self.kind("e:IfExpr");
                self.tok("ifexpr");
                self.expr(&i.test_expr);
                self.expr(&i.true_expr);
                self.opt(&i.false_expr);
            }
            ast::Expr::Filter(f) => {
                self.kind("e:Filter");
                self.tok("filter");
                self.tok(&clean(f.name));
                self.opt(&f.expr);
                self.args(&f.args);
            }
            ast::Expr::Test(t) => {
                self.kind("e:Test");
                self.tok("test");
                self.tok(&clean(t.name));
                self.expr(&t.expr);
                self.args(&t.args);
            }
            ast::Expr::GetAttr(g) => {
                self.kind("e:GetAttr");
                self.tok("getattr");
                self.expr(&g.expr);
                self.tok(&clean(g.name));
            }
            ast::Expr::GetItem(g) => {
                self.kind("e:GetItem");
                self.tok("getitem");
                self.expr(&g.expr);
                self.expr(&g.subscript_expr);
            }
            ast::Expr::Call(c) => {
                self.kind("e:Call");
                self.call(c);
            }
            ast::Expr::List(l) => {
                self.kind("e:List");
                self.tok("list");
                self.tok(&l.items.len().to_string());
                for x in &l.items {
                    self.expr(x);
                }
            }
            ast::Expr::Tuple(l) => {
                self.kind("e:Tuple");
                self.tok("tuple");
                self.tok(&l.items.len().to_string());
                for x in &l.items {
                    self.expr(x);
                }
            }
            ast::Expr::Map(m) => {
                self.kind("e:Map");
                self.tok("map");
                self.tok(&m.keys.len().to_string());
                for (k, v) in m.keys.iter().zip(m.values.iter()) {
                    self.expr(k);
                    self.expr(v);
                }
            }
        }
    }
}

// ------------------------------------------------------------------------------------------------
// template generator (text), reusing a small name pool so that shadowing arises
// ------------------------------------------------------------------------------------------------

struct Gen {
    rng: Rng,
    budget: i32,
    nblocks: u32,
}

const READ_NAMES: [&str; 17] = [
    "x", "y", "z", "a", "b", "item", "foo", "q", "ns", "c", "m", "n", "loop", "self", "caller", "gf",
    "super",
];
const TARGETS: [&str; 9] = ["x", "y", "z", "a", "b", "item", "q", "c", "foo"];
const ATTRS: [&str; 6] = ["a", "b", "bar", "index", "first", "x"];
const MACROS: [&str; 5] = ["m", "n", "x", "q", "foo"];

impl Gen {
    fn name(&mut self) -> &'static str {
        // bias towards the first few names
        if self.rng.chance(2, 3) {
            READ_NAMES[self.rng.below(8) as usize]
        } else {
            *self.rng.pick(&READ_NAMES[..])
        }
    }
    fn target_name(&mut self) -> &'static str {
        if self.rng.chance(2, 3) {
            TARGETS[self.rng.below(5) as usize]
        } else {
            *self.rng.pick(&TARGETS[..])
        }
    }
    fn constant(&mut self) -> String {
        match self.rng.below(7) {
            0 => "1".into(),
            1 => "0".into(),
            2 => "'s'".into(),
            3 => "true".into(),
            4 => "false".into(),
            5 => "none".into(),
            _ => "2".into(),
        }
    }
    fn args(&mut self, d: u32) -> String {
        let n = self.rng.below(4);
        let mut parts = Vec::new();
        let mut kw = false;
        for i in 0..n {
            let e = self.expr(d + 1);
            let key = if self.rng.chance(1, 2) { format!("k{}", i) } else { self.target_name().to_string() };
            match self.rng.below(16) {
                0..=2 => {
                    kw = true;
                    parts.push(format!("{}={}", key, e));
                }
                3 if !kw => parts.push(format!("*{}", e)),
                4 if !kw => parts.push(format!("*[{}]", e)),
                5 => {
                    kw = true;
                    if self.rng.chance(1, 4) {
                        parts.push(format!("**{}", e));
                    } else {
                        parts.push(format!("**{{'{}': {}}}", key, e));
                    }
                }
                _ if !kw => parts.push(e),
                _ => parts.push(format!("{}={}", key, e)),
            }
        }
        parts.join(", ")
    }
    fn expr(&mut self, d: u32) -> String {
        self.budget -= 1;
        let leaf = d >= 3 || self.budget <= 0 || self.rng.chance(2, 5);
        if leaf {
            return if self.rng.chance(4, 5) { self.name().to_string() } else { self.constant() };
        }
        match self.rng.below(22) {
            0 | 1 => format!("{}.{}", self.postfix_base(d), self.rng.pick(&ATTRS)),
            2 => format!("{}[{}]", self.postfix_base(d), self.expr(d + 1)),
            3 | 4 => {
                let b = self.postfix_base(d);
                let mut s = format!("{}[", b);
                if self.rng.chance(1, 2) {
                    s.push_str(&self.bound(d));
                }
                s.push(':');
                if self.rng.chance(1, 2) {
                    s.push_str(&self.bound(d));
                }
                if self.rng.chance(1, 3) {
                    s.push(':');
                    if self.rng.chance(2, 3) {
                        s.push_str(&self.bound(d));
                    }
                }
                s.push(']');
                s
            }
            5 | 6 => {
                let b = self.postfix_base(d);
                let f = *self.rng.pick(&["f", "g", "default", "upper", "length", "list"]);
                if f == "f" || f == "g" || (f == "default" && self.rng.chance(1, 2)) {
                    if self.rng.chance(1, 2) {
                        format!("{}|{}({})", b, f, if f == "default" { self.expr(d + 1) } else { self.args(d) })
                    } else {
                        format!("{}|{}", b, f)
                    }
                } else {
                    format!("{}|{}", b, f)
                }
            }
            7 => {
                let b = self.postfix_base(d);
                match self.rng.below(5) {
                    0 => format!("({} is defined)", b),
                    1 => format!("({} is not none)", b),
                    2 => format!("({} is t({}))", b, self.args(d)),
                    3 => format!("({} is u)", b),
                    _ => format!("({} is t)", b),
                }
            }
            8 | 9 | 10 => {
                let callee = match self.rng.below(8) {
                    6 => {
                        let extra = if self.rng.chance(1, 6) { 1 } else { 0 };
                        let n = std::cmp::max(1, self.nblocks) as u64 + extra;
                        format!("self.b{}", self.rng.below(n))
                    }
                    7 => (*self.rng.pick(&["super", "loop", "self.b0"])).to_string(),
                    0 => "gf".to_string(),
                    1 => format!("{}.{}", self.postfix_base(d), self.rng.pick(&ATTRS)),
                    2 => (*self.rng.pick(&MACROS)).to_string(),
                    3 => "loop".to_string(),
                    4 => "caller".to_string(),
                    _ => self.name().to_string(),
                };
                format!("{}({})", callee, self.args(d))
            }
            11 | 12 | 13 => {
                let op = *self.rng.pick(&["~", "==", "!=", "<", "and", "or", "and", "or", "~", "~", "==", "+", "in"]);
                format!("({} {} {})", self.expr(d + 1), op, self.expr(d + 1))
            }
            14 => format!("({} < {} <= {})", self.expr(d + 1), self.expr(d + 1), self.expr(d + 1)),
            15 => {
                if self.rng.chance(2, 3) {
                    format!("(not {})", self.expr(d + 1))
                } else {
                    format!("(-{})", self.expr(d + 1))
                }
            }
            16 | 17 => {
                if self.rng.chance(2, 3) {
                    format!("({} if {} else {})", self.expr(d + 1), self.expr(d + 1), self.expr(d + 1))
                } else {
                    format!("({} if {})", self.expr(d + 1), self.expr(d + 1))
                }
            }
            18 => {
                let n = self.rng.below(3);
                let items: Vec<String> = (0..n).map(|_| self.expr(d + 1)).collect();
                format!("[{}]", items.join(", "))
            }
            19 => {
                let items: Vec<String> = (0..2).map(|_| self.expr(d + 1)).collect();
                format!("({}, {})", items[0], items[1])
            }
            20 => {
                let n = 1 + self.rng.below(2);
                let items: Vec<String> = (0..n)
                    .map(|i| {
                        if self.rng.chance(1, 3) {
                            format!("{}: {}", self.expr(d + 1), self.expr(d + 1))
                        } else {
                            format!("'k{}': {}", i, self.expr(d + 1))
                        }
                    })
                    .collect();
                format!("{{{}}}", items.join(", "))
            }
            _ => {
                if self.rng.chance(3, 4) {
                    self.builtin_expr(d)
                } else {
                    "namespace()".to_string()
                }
            }
        }
    }
    fn bound(&mut self, d: u32) -> String {
        if self.rng.chance(3, 4) {
            format!("{}|i", self.postfix_base(d + 1))
        } else {
            self.expr(d + 1)
        }
    }
    fn iterable(&mut self, d: u32) -> String {
        if self.rng.chance(3, 5) {
            format!("{}|l", self.postfix_base(d))
        } else {
            self.expr(d)
        }
    }
    /// right-hand side for `set ns.attr = …`: must not mention `ns` (a namespace that contains
    /// itself cannot be rendered: unbounded recursion in the engine)
    fn expr_no_ns(&mut self, d: u32) -> String {
        for _ in 0..20 {
            let e = self.expr(d);
            if !e.split(|c: char| !(c.is_alphanumeric() || c == '_')).any(|w| w == "ns") {
                return e;
            }
        }
        "1".to_string()
    }
    fn name_string(&mut self) -> String {
        format!("\"{}\"", self.rng.pick(&NAME_STRINGS))
    }
    /// a builtin filter / test / function / method that takes a name-like string argument
    fn builtin_expr(&mut self, d: u32) -> String {
        let seq = if self.rng.chance(2, 3) { format!("{}|l", self.name()) } else { format!("[{}, {}]", self.name(), self.name()) };
        let x = self.postfix_base(d + 1);
        let n1 = self.name_string();
        let n2 = self.name_string();
        let n3 = self.name_string();
        match self.rng.below(40) {
            0 => format!("{}|map({})|list", seq, n1),
            1 => format!("{}|map({}, {})|list", seq, n1, n2),
            2 => format!("{}|map(attribute={})|list", seq, n1),
            3 => format!("{}|map(attribute={}, default={})|list", seq, n1, n2),
            4 => format!("{}|select({})|list", seq, n1),
            5 => format!("{}|reject({}, {})|list", seq, n1, n2),
            6 => format!("{}|selectattr({})|list", seq, n1),
            7 => format!("{}|selectattr({}, {})|list", seq, n1, n2),
            8 => format!("{}|rejectattr({}, {}, {})|list", seq, n1, n2, n3),
            9 => format!("{}|sort(attribute={})|list", seq, n1),
            10 => format!("{}|groupby({})|list", seq, n1),
            11 => format!("{}|groupby(attribute={}, default={})|list", seq, n1, n2),
            12 => format!("{}|unique(attribute={})|list", seq, n1),
            13 => format!("{}|sum(attribute={})", seq, n1),
            14 => format!("{}|min(attribute={})", seq, n1),
            15 => format!("{}|max(attribute={})", seq, n1),
            16 => format!("{}|attr({})", x, n1),
            17 => format!("{}|default({})", x, n1),
            18 => format!("{}|join({})", seq, n1),
            19 => format!("{}|join({}, attribute={})", seq, n1, n2),
            20 => format!("{}|dictsort(by={})", x, n1),
            21 => format!("{}|format({})", n1, x),
            22 => format!("{}|replace({}, {})", x, n1, n2),
            23 => format!("{}|split({})", x, n1),
            24 => format!("({} is filter)", n1),
            25 => format!("({} is test)", n1),
            26 => format!("({} is startingwith({}))", x, n1),
            27 => format!("({} is in({}))", x, n1),
            28 => format!("({} is {})", x, self.rng.pick(&["kfmt", "ufmt", "defined", "t"])),
            29 => format!("namespace({}=1)", self.rng.pick(&["kfmt", "ufmt", "x"])),
            30 => format!("dict({}=1, **{{{}: 2}})", self.rng.pick(&["kfmt", "ufmt", "x"]), n1),
            31 => format!("loop.cycle({}, {})", n1, n2),
            32 => format!("loop.changed({})", n1),
            33 => format!("{}|{}", x, self.rng.pick(&["kfmt", "ufmt"])),
            34 => format!("{}|items|list", x),
            35 => format!("{}|batch(2, {})|list", seq, n1),
            36 => format!("{}|slice(2, {})|list", seq, n1),
            37 => format!("{}[{}]", x, n1),
            38 => format!("{}|indent(2, true)|trim({})", x, n1),
            _ => format!("{}|tojson|urlencode ~ ({}|title)", x, n1),
        }
    }
    fn postfix_base(&mut self, d: u32) -> String {
        if self.rng.chance(3, 5) {
            self.name().to_string()
        } else {
            let e = self.expr(d + 1);
            if e.starts_with('(') || e.starts_with('[') || e.chars().all(|c| c.is_alphanumeric() || c == '_') {
                e
            } else {
                format!("({})", e)
            }
        }
    }
    fn target(&mut self) -> String {
        match self.rng.below(8) {
            0 => format!("{}, {}", self.target_name(), self.target_name()),
            1 => format!("({}, {})", self.target_name(), self.target_name()),
            _ => self.target_name().to_string(),
        }
    }
    fn filter_chain(&mut self, d: u32) -> String {
        let mut parts = Vec::new();
        for _ in 0..(1 + self.rng.below(2)) {
            let f = *self.rng.pick(&["f", "g", "upper", "f"]);
            if f != "upper" && self.rng.chance(2, 3) {
                parts.push(format!("{}({})", f, self.args(d)));
            } else {
                parts.push(f.to_string());
            }
        }
        parts.join("|")
    }
    fn macro_params(&mut self, d: u32) -> String {
        let n = self.rng.below(4);
        let mut parts = Vec::new();
        let mut defaults = false;
        for _ in 0..n {
            let name = self.target_name();
            if defaults || self.rng.chance(1, 2) {
                defaults = true;
                if self.rng.chance(1, 5) {
                    parts.push(format!("{}={}", name, self.target_name()));
                } else {
                    parts.push(format!("{}={}", name, self.expr(d + 2)));
                }
            } else {
                parts.push(name.to_string());
            }
        }
        parts.join(", ")
    }
    fn body(&mut self, d: u32, in_loop: bool, in_macro: bool) -> String {
        let n = if d == 0 { 1 + self.rng.below(5) } else { self.rng.below(4) };
        let mut s = String::new();
        if d == 0 && self.rng.chance(1, 12) {
            // a child template: blocks b0, b1 override the parent's
            s.push_str(match self.rng.below(3) {
                0 => "{% extends basename %}",
                _ => "{% extends \"base.txt\" %}",
            });
        }
        for _ in 0..n {
            if self.budget <= 0 {
                break;
            }
            s.push_str(&self.stmt(d, in_loop, in_macro));
        }
        s
    }
    /// a callable declared in ONE iteration of a loop (or in a with block), parked in a namespace
    /// attribute / a list / handed to another macro, and called later in the loop and after it:
    /// random names, parameters and bodies around the fixed skeleton (see `c18_esc.inc` for the
    /// systematic version)
    fn escape_idiom(&mut self, d: u32, in_macro: bool) -> String {
        let name = *self.rng.pick(&MACROS);
        let attr = *self.rng.pick(&ATTRS);
        let params = self.macro_params(d);
        let local = self.target_name();
        let local_set = if self.rng.chance(2, 3) { format!("{{% set {} = {} %}}", local, self.expr(2)) } else { String::new() };
        let body = self.body(d + 1, false, true);
        let decl = if self.rng.chance(1, 4) {
            // the caller of a call block, parked by the macro it is handed to
            format!(
                "{{% macro kp() %}}{{% set ns.{} = caller %}}{{% endmacro %}}{{% call({}) kp() %}}{}{{% endcall %}}",
                attr, params, body
            )
        } else {
            let park = match self.rng.below(3) {
                0 => format!("{{% set ns.{} = [{}][0] %}}", attr, name),
                1 => format!("{{% set ns.{} = {{'k': {}}}['k'] %}}", attr, name),
                _ => format!("{{% set ns.{} = {} %}}", attr, name),
            };
            format!("{{% macro {}({}) %}}{}{{% endmacro %}}{}", name, params, body, park)
        };
        let call = match self.rng.below(4) {
            0 => format!("{{{{ ns.{}({}) }}}}", attr, self.args(1)),
            1 => format!("{{% with f = ns.{} %}}{{{{ f() }}}}{{% endwith %}}", attr),
            2 => format!("{{{{ callit(ns.{}) }}}}", attr),
            _ => format!("{{{{ ns.{}() }}}}", attr),
        };
        let guard = *self.rng.pick(&["loop.first", "loop.first", "loop.index == 2", "loop.last"]);
        let target = self.target_name();
        let later = self.body(d + 1, true, in_macro);
        match self.rng.below(4) {
            0 => format!(
                "{{% set ns = namespace() %}}{{% with {} = {} %}}{}{}{{% endwith %}}{}{}",
                target,
                self.expr(2),
                local_set,
                decl,
                later,
                call
            ),
            _ => format!(
                "{{% set ns = namespace() %}}{{% for {} in [1, 2, 3] %}}{{% if {} %}}{}{}{{% endif %}}{}{{% if ns.{} is defined %}}{}{{% endif %}}{{% endfor %}}{}",
                target, guard, local_set, decl, later, attr, call, call
            ),
        }
    }
    fn stmt(&mut self, d: u32, in_loop: bool, in_macro: bool) -> String {
        self.budget -= 2;
        if d >= 3 {
            return match self.rng.below(3) {
                0 => format!("{{% set {} = {} %}}", self.target_name(), self.expr(1)),
                _ => format!("{{{{ {} }}}}", self.expr(1)),
            };
        }
        match self.rng.below(30) {
            0..=5 => format!("{{{{ {} }}}}", self.expr(0)),
            6 if self.rng.chance(1, 2) => "t".to_string(),
            6 => {
                // other templates: constant and dynamic names
                match self.rng.below(9) {
                    0 => "{% include \"inc.txt\" %}".to_string(),
                    1 => "{% include tpl %}".to_string(),
                    2 => format!("{{% include {} ignore missing %}}", self.expr(2)),
                    3 => format!("{{% import \"lib.txt\" as {} %}}{{{{ {}.helper({}) }}}}", "lib", "lib", self.expr(2)),
                    4 => {
                        let t = self.target_name();
                        format!("{{% import libname as {} %}}{{{{ {}.helper({}) }}}}", t, t, self.expr(2))
                    }
                    5 => format!("{{% from \"lib.txt\" import helper %}}{{{{ helper({}) }}}}", self.expr(2)),
                    6 => {
                        let t = self.target_name();
                        format!("{{% from libname import helper as {}, exported %}}{{{{ {}({}) }}}}{{{{ exported }}}}", t, t, self.expr(2))
                    }
                    7 => format!("{{% import {} as {} %}}", self.expr(2), self.target_name()),
                    _ => format!("{{% from {} import {} %}}", self.expr(2), self.target_name()),
                }
            }
            7..=9 => {
                // for
                let target = if self.rng.chance(3, 4) { self.target_name().to_string() } else { self.target() };
                let iter = self.iterable(1);
                let filt = if self.rng.chance(1, 4) { format!(" if {}", self.expr(1)) } else { String::new() };
                let rec = if self.rng.chance(1, 5) { " recursive" } else { "" };
                let mut body = self.body(d + 1, true, in_macro);
                if !rec.is_empty() && self.rng.chance(2, 3) {
                    // re-enter the loop somewhere: plain, captured, through an alias, from a with
                    let arg = self.iterable(2);
                    let call = match self.rng.below(6) {
                        5 => format!("{{% macro mm() %}}{{{{ loop({}) ~ 1 }}}}{{% endmacro %}}{{{{ mm() }}}}", arg),
                        0 => format!("{{{{ loop({}) }}}}", arg),
                        1 => format!("{{{{ loop({}) ~ 1 }}}}", arg),
                        2 => format!("{{% set o = loop %}}{{% for w in {} %}}{{{{ o({}) }}}}{{% endfor %}}", self.iterable(2), arg),
                        3 => format!("{{% with {} = 1 %}}{{{{ loop({}) }}}}{{{{ {} }}}}{{% endwith %}}", self.target_name(), arg, self.name()),
                        _ => format!("{{% if {} %}}{{{{ loop({}) }}}}{{% endif %}}", self.expr(2), arg),
                    };
                    if self.rng.chance(1, 2) {
                        body.push_str(&call);
                    } else {
                        body = format!("{}{}", call, body);
                    }
                }
                let els = if self.rng.chance(1, 3) {
                    format!("{{% else %}}{}", self.body(d + 1, in_loop, in_macro))
                } else {
                    String::new()
                };
                format!("{{% for {} in {}{}{} %}}{}{}{{% endfor %}}", target, iter, filt, rec, body, els)
            }
            10..=12 => {
                let c = self.expr(1);
                let t = self.body(d + 1, in_loop, in_macro);
                let mut s = format!("{{% if {} %}}{}", c, t);
                if self.rng.chance(1, 4) {
                    s.push_str(&format!("{{% elif {} %}}{}", self.expr(1), self.body(d + 1, in_loop, in_macro)));
                }
                if self.rng.chance(1, 2) {
                    s.push_str(&format!("{{% else %}}{}", self.body(d + 1, in_loop, in_macro)));
                }
                s.push_str("{% endif %}");
                s
            }
            13 | 14 => {
                let n = 1 + self.rng.below(2);
                let assigns: Vec<String> = (0..n)
                    .map(|_| {
                        if self.rng.chance(1, 6) {
                            format!("({}, {}) = {}", self.target_name(), self.target_name(), self.expr(1))
                        } else {
                            format!("{} = {}", self.target_name(), self.expr(1))
                        }
                    })
                    .collect();
                // `continue`/`break` must not jump out of a with frame: no loop controls inside
                format!("{{% with {} %}}{}{{% endwith %}}", assigns.join(", "), self.body(d + 1, false, in_macro))
            }
            15..=18 => {
                if self.rng.chance(1, 12) {
                    format!("{{% set ns.{} = {} %}}", self.rng.pick(&ATTRS), self.expr_no_ns(1))
                } else if self.rng.chance(1, 6) {
                    format!("{{% set {} = {}, {} %}}", self.target(), self.expr(1), self.expr(1))
                } else {
                    format!("{{% set {} = {} %}}", self.target_name(), self.expr(0))
                }
            }
            19 | 20 => {
                let filt = if self.rng.chance(1, 2) { format!(" | {}", self.filter_chain(1)) } else { String::new() };
                format!("{{% set {}{} %}}{}{{% endset %}}", self.target_name(), filt, self.body(d + 1, in_loop, in_macro))
            }
            21 => format!("{{% filter {} %}}{}{{% endfilter %}}", self.filter_chain(1), self.body(d + 1, in_loop, in_macro)),
            22 => {
                let e = if self.rng.chance(1, 2) { self.expr(1) } else { (*self.rng.pick(&["true", "false", "'html'", "none"])).to_string() };
                format!("{{% autoescape {} %}}{}{{% endautoescape %}}", e, self.body(d + 1, in_loop, in_macro))
            }
            23 | 24 => {
                let name = *self.rng.pick(&MACROS);
                let params = self.macro_params(d);
                let decl = format!("{{% macro {}({}) %}}{}{{% endmacro %}}", name, params, self.body(d + 1, false, true));
                // usually call it right away, mostly with few arguments so that defaults run
                match self.rng.below(4) {
                    0 => decl,
                    1 => format!("{}{{{{ {}({}) }}}}", decl, name, self.args(1)),
                    _ => format!("{}{{{{ {}() }}}}", decl, name),
                }
            }
            25 => {
                let params = if self.rng.chance(1, 2) { format!("({})", self.macro_params(d)) } else { String::new() };
                let callee = if self.rng.chance(3, 4) { (*self.rng.pick(&MACROS)).to_string() } else { self.name().to_string() };
                format!("{{% call{} {}({}) %}}{}{{% endcall %}}", params, callee, self.args(1), self.body(d + 1, false, true))
            }
            26 => {
                let callee = if self.rng.chance(1, 2) { (*self.rng.pick(&MACROS)).to_string() } else { format!("{}.{}", self.name(), self.rng.pick(&ATTRS)) };
                format!("{{% do {}({}) %}}", callee, self.args(1))
            }
            27 if in_loop => (*self.rng.pick(&["{% continue %}", "{% break %}"])).to_string(),
            27 if !in_macro && self.rng.chance(2, 3) => {
                let k = self.nblocks;
                self.nblocks += 1;
                let body = self.body(d + 1, false, false);
                format!("{{% block b{} %}}{}{{% endblock %}}", k, body)
            }
            27 => format!("{{{{ {} }}}}", self.expr(0)),
            28 if self.rng.chance(1, 2) => {
                format!("{{% set ns = namespace() %}}{{% set ns.{} = {} %}}", self.rng.pick(&ATTRS), self.expr_no_ns(1))
            }
            28 => self.escape_idiom(d, in_macro),
            _ => {
                let m = *self.rng.pick(&MACROS);
                format!("{{{{ {}({}) }}}}", m, self.args(1))
            }
        }
    }
}

/// hand-written corpus: the shapes of DESIGN §4 and the scoping corner cases, always run first
const CORPUS: &[&str] = &[
    "{% set x = x %}",
    "{% set x = x %}{{ x }}",
    "{% with a = a %}{{ a }}{% endwith %}",
    "{% with a = 1, b = a %}{{ b }}{% endwith %}{{ a }}",
    "{{ foo[1:2] }}",
    "{{ foo[a:b:c] }}",
    "{% autoescape zz %}{{ x }}{% endautoescape %}",
    "{% set y | f(q) %}{{ x }}{% endset %}",
    "{% set y %}{{ y }}{% endset %}",
    "{% filter f(qq) %}{{ x }}{% endfilter %}",
    "{% for x in x %}{{ x }}{% endfor %}{{ x }}",
    "{% for x in loop %}{{ loop.index }}{% endfor %}",
    "{% for x in y if loop %}{{ x }}{% endfor %}",
    "{% for x in y if x %}{{ x }}{% else %}{{ x }}{% endfor %}",
    "{% for a, b in y %}{{ a }}{{ b }}{% endfor %}{{ a }}",
    "{% if c %}{% set x = 1 %}{% endif %}{{ x }}",
    "{% for i in y %}{% set z = 1 %}{% endfor %}{{ z }}",
    "{{ self }}",
    "{{ self.a }}",
    "{{ loop }}",
    "{% set ns.a = 1 %}",
    "{% set ns = namespace() %}{% set ns.a = x %}{{ ns.a }}",
    "{% macro m(a, b=a) %}{{ a }}{{ b }}{% endmacro %}{{ m(1) }}",
    "{% macro m(a=b, b=1) %}{{ a }}{{ b }}{% endmacro %}{{ m() }}",
    "{% macro m() %}{{ m }}{% endmacro %}{{ m() }}",
    "{% macro m() %}{{ caller }}{% endmacro %}{{ m() }}",
    "{% macro m() %}{{ caller() }}{% endmacro %}{% call m() %}{{ x }}{% endcall %}",
    "{% macro m(a) %}{{ a }}{{ y }}{% endmacro %}{% set y = 1 %}{{ m(x) }}",
    "{% macro m() %}{% set x = x %}{{ x }}{% endmacro %}{{ m() }}",
    "{% set x = 1 %}{% macro m() %}{{ x }}{% endmacro %}{{ m() }}",
    "{% macro m() %}{{ x }}{% endmacro %}{% set x = 1 %}{{ m() }}",
    "{% call(a, b=a) foo(q) %}{{ a }}{{ b }}{{ z }}{% endcall %}",
    "{% do foo.bar(k=x, **y) %}",
    "{{ gf(*x, k=y) }}",
    "{{ (a if b else c) ~ (x and y) ~ (1 < z < q) }}",
    "{{ {a: b}[c] }}",
    "{% for x in y recursive %}{{ loop(x) }}{{ z }}{% endfor %}",
    "{% for x in y %}{{ x }}{% set x = q %}{{ x }}{% endfor %}",
    "{{ x is t(y) }}{{ x|f(y, k=z) }}",
    "{{ x }}{% set x = 1 %}{{ x }}",
    "{% macro m(a=a) %}{{ a }}{% endmacro %}{{ m() }}",
    "{% macro m(a=b, b=c) %}{{ a }}{% endmacro %}{{ m() }}",
    "{% set q = 1 %}{% macro m() %}{% macro q() %}{{ q }}{% endmacro %}{{ q() }}{% endmacro %}{{ m() }}",
    "{% for x in y|l %}{% macro m() %}{{ loop.index }}{{ x }}{% endmacro %}{{ m() }}{% endfor %}",
    "{% macro m() %}{% for i in z|l %}{{ loop.index }}{% endfor %}{{ loop }}{% endmacro %}{{ m() }}",
    "{% macro m() %}{{ caller(1) }}{% endmacro %}{% call(u) m() %}{{ u }}{{ v }}{% endcall %}",
    "{% macro m() %}{% set x = x %}{% endmacro %}{% set x = 1 %}{{ m() }}",
    "{% if c %}{% macro m() %}{{ x }}{% endmacro %}{% endif %}{{ m() }}",
    "{% with x = 1 %}{% macro m() %}{{ x }}{{ y }}{% endmacro %}{{ m() }}{% endwith %}{{ m }}",
    "{{ self.b() }}{% set x = 1 %}{% block b %}{{ x }}{% endblock %}",
    "{% set x = 1 %}{% macro m() %}{{ self.b() }}{% endmacro %}{{ m() }}{% block b %}{{ x }}{{ y }}{% endblock %}",
    "{% block b %}{{ super }}{{ super() }}{% endblock %}",
    "{% for i in y|l %}{% block b %}{{ i }}{{ loop }}{% endblock %}{% endfor %}",
    "{% block a %}{% set u = 1 %}{% block b %}{{ u }}{% endblock %}{% endblock %}{{ self.b() }}",
    "{% for a in y|l recursive %}{% if c %}{% continue %}{% endif %}{% with w = 1 %}{{ loop(a|l) }}{{ q }}{{ w }}{% endwith %}{% endfor %}",
    "{% set x = 1 %}{% for a in y|l recursive %}{{ x }}{% macro m() %}{{ loop(z|l) ~ 1 }}{% endmacro %}{{ m() }}{% endfor %}",
    "{% set ns = namespace() %}{% with x = 1 %}{% for a in y|l recursive %}{% set ns.l = loop %}{{ x }}{% endfor %}{% endwith %}{% set l = ns.l %}{{ l(z|l) }}",
    "{% for a in y|l recursive %}{% set o = loop %}{% for b in z|l %}{{ o(q|l) }}{{ b }}{% endfor %}{% endfor %}",
    "{% for a in y|l %}{{ a }}{% break %}{{ z }}{% endfor %}{% for a in y|l %}{% set k %}{% continue %}{% endset %}{{ k }}{% endfor %}",
    "{% for a in y|l %}{% for b in z|l %}x{% else %}{% continue %}{% endfor %}{{ q }}{% endfor %}",
    "{{ foo.bar.baz }}{% set x = cfg.a %}{{ x.y }}{{ cfg }}{{ f(a).b.c }}{{ a.b[c.d].e }}",
    "{% include tpl %}{% include \"inc.txt\" %}{{ leaked }}",
    "{% import libname as lib %}{{ lib.helper(x) }}{% from \"lib.txt\" import helper as h, exported %}{{ h(y) }}{{ exported }}",
    "{% extends basename %}{% set u = 1 %}{% block b0 %}{{ u }}{{ super() }}{{ z }}{% endblock %}{% macro mm() %}{{ q }}{% endmacro %}",
    "{% extends \"base.txt\" %}{% block body %}{% for a in y|l recursive %}{{ loop(a|l) }}{{ self.b1() }}{% endfor %}{% endblock %}",
    "{% macro m() %}{{ m() }}{% endmacro %}{% macro outer() %}{% macro inner() %}{{ inner }}{% endmacro %}{{ inner() }}{% endmacro %}{{ outer() }}",
    "{% set a, (b, c) = y %}{{ a ~ b ~ c }}{% set ns = namespace() %}{% set ns.k, d = x %}{{ d }}",
    "{{ a.b.c }}{{ a.b.d }}{% set q = a.b %}{{ q.e }}{{ (a|f).g }}{{ a[\"h\"].i }}{% with w = a %}{{ w.j }}{% endwith %}",
    "{% macro m(p, q=p, r=outer) %}{{ p }}{{ q }}{{ r }}{{ varargs }}{{ kwargs }}{% endmacro %}{{ m(1) }}",
    "{{ y|l|map(\"kfmt\")|list }}{{ y|l|map(\"ufmt\")|list }}{{ y|l|map(\"upper\")|list }}",
    "{{ y|l|select(\"kfmt\")|list }}{{ y|l|selectattr(\"kattr\", \"kfmt\")|list }}{{ y|attr(\"kattr\") }}{{ y|default(\"kfmt\") }}",
    "{{ y|l|sort(attribute=\"kattr\")|list }}{{ y|l|groupby(\"kattr\")|list }}{{ (\"kfmt\" is filter) }}{{ (\"kfmt\" is test) }}",
    "{% for v in y|l %}{{ loop.cycle(\"kfmt\", \"ufmt\") }}{{ loop.changed(\"kattr\") }}{% endfor %}{{ namespace(kfmt=1).kfmt }}{{ dict(kattr=1) }}",
    "{% for i in [1] %}{% endfor %}{{ 1 // 0 }}",
    "#expr# [foo, bar.baz]",
    "#expr# foo[a:b] ~ loop ~ self ~ self.x() ~ loop(q)",
];

include!("c18_sys.inc");
include!("c18_esc.inc");

// ------------------------------------------------------------------------------------------------
// running one template
// ------------------------------------------------------------------------------------------------

fn json_str(s: &str) -> String {
    serde_json::to_string(s).unwrap()
}

fn json_list<I: IntoIterator<Item = String>>(it: I) -> String {
    let v: Vec<String> = it.into_iter().map(|s| json_str(&s)).collect();
    format!("[{}]", v.join(","))
}

fn fnv(s: &str) -> u64 {
    let mut h: u64 = 0xcbf29ce484222325;
    for b in s.bytes() {
        h ^= b as u64;
        h = h.wrapping_mul(0x100000001b3);
    }
    h
}

/// a case that starts with this marker is a bare expression (`Environment::compile_expression`,
/// `Expression::undeclared_variables`, `Expression::eval`) instead of a template
const EXPR_MARK: &str = "#expr# ";

include!("c18_set.inc");

/// The engine's closure operations of one render (`verif_hooks::closures`), one token per
/// operation, `token|attachments` with the attachments `closure:closure_context` of the frames
/// of the active context (bottom first, `-` = none) after the operation:
///   `P0` / `P1` push frame / loop frame, `O` pop, `S:key:mirrored-into`, `E:key:closure` (Enclose),
///   `B:name:instructions#:offset:closure` (BuildMacro), `I` iterate (attachments not recorded),
///   `T:taken` / `R:restored` take / reset closure, `M:instructions#:offset:closure:caller:k1+k2+…`
///   macro call (keys of the value's closure object at that moment), `L` return.
/// Instruction streams are numbered in order of appearance (addresses are not stable).
fn heap_trace(events: &[minijinja::verif_hooks::closures::Event]) -> String {
    use minijinja::verif_hooks::closures::Op;
    let opt = |c: &Option<usize>| c.map_or("-".to_string(), |c| c.to_string());
    let mut ids: Vec<usize> = Vec::new();
    let mut id_of = |id: usize| -> usize {
        match ids.iter().position(|x| *x == id) {
            Some(k) => k,
            None => {
                ids.push(id);
                ids.len() - 1
            }
        }
    };
    let mut out: Vec<String> = Vec::with_capacity(events.len());
    for ev in events.iter() {
        let tok = match &ev.op {
            Op::PushFrame(is_loop) => format!("P{}", *is_loop as u8),
            Op::PopFrame => "O".to_string(),
            Op::Store(key, c) => format!("S:{}:{}", key, opt(c)),
            Op::Enclose(key, c) => format!("E:{}:{}", key, opt(c)),
            Op::BuildMacro(name, id, offset, c) => format!("B:{}:{}:{}:{}", name, id_of(*id), offset, opt(c)),
            Op::Iterate => "I".to_string(),
            Op::TakeClosure(c) => format!("T:{}", opt(c)),
            Op::ResetClosure(c) => format!("R:{}", opt(c)),
            Op::EnterMacro(id, offset, c, keys, caller) => {
                format!("M:{}:{}:{}:{}:{}", id_of(*id), offset, opt(c), *caller as u8, keys.join("+"))
            }
            Op::LeaveMacro => "L".to_string(),
        };
        let frames: Vec<String> = ev.frames.iter().map(|(a, b)| format!("{}:{}", opt(a), opt(b))).collect();
        out.push(format!("{}|{}", tok, frames.join(",")));
    }
    out.join(" ")
}

/// The contexts are derived from the source text alone, so a case replays from its hex.
/// `shape`: the label of a systematic case ("" for the corpus and the random templates); the
/// systematic streams skip the debug-mode render, the corpus, the random templates and the escape
/// product additionally record the engine's closure operations (`heap_trace`).
fn run_one(full_src: &str, shape: &str) -> String {
    let light = !shape.is_empty();
    let trace_heap = shape.is_empty() || shape.starts_with("esc|");
    if full_src.starts_with(SET_MARK) {
        return run_set(full_src);
    }
    HOST_LOOKUPS.with(|h| h.borrow_mut().clear());
    let seed = fnv(full_src);
    let (is_expr, plain_src) = match full_src.strip_prefix(EXPR_MARK) {
        Some(rest) => (true, rest),
        None => (false, full_src),
    };
    let cfg = Cfg::of(seed, is_expr);
    let src_owned = cfg.source(plain_src);
    let src: &str = &src_owned;
    let mut fields: Vec<String> = Vec::new();
    fields.push(format!("\"cfg\":{}", json_str(&cfg.label())));
    // 1. real parser -> AST dump
    let parsed = guarded(|| {
        if is_expr {
            // Expression::undeclared_variables analyses `Stmt::EmitExpr { expr }`
            parse_expr(src).map(|e| {
                let mut d = Dump::default();
                d.tok("1");
                d.kind("EmitExpr");
                d.tok("emit");
                d.expr(&e);
                d
            })
        } else {
            parse(src, "t", cfg.syntax(), WhitespaceConfig::default()).map(|ast| {
                let mut d = Dump::default();
                d.stmt(&ast);
                d
            })
        }
    });
    let dump = match parsed {
        Ok(Ok(d)) => d,
        Ok(Err(e)) => {
            return format!("{{\"parse\":\"err\",\"error\":{}}}", json_str(&format!("{:?}", e.kind())));
        }
        Err(p) => return format!("{{\"parse\":\"panic\",\"error\":{}}}", json_str(&p)),
    };
    fields.push("\"parse\":\"ok\"".into());
    fields.push(format!("\"ast\":{}", json_str(&dump.out)));
    fields.push(format!("\"unsupported\":{}", dump.unsupported));
    let kinds: Vec<String> = dump.kinds.iter().map(|(k, v)| format!("{}:{}", json_str(k), v)).collect();
    fields.push(format!("\"kinds\":{{{}}}", kinds.join(",")));

    // 2. real analysis + renders with recording contexts
    let mut env = mk_env(cfg);
    let globals: BTreeSet<String> = env.globals().map(|(k, _)| k.to_string()).collect();
    fields.push(format!("\"globals\":{}", json_list(globals.iter().cloned())));
    // what the other templates of the environment may ask for (their own reports)
    let mut foreign: BTreeSet<String> = BTreeSet::new();
    for (name, _) in HELPERS.iter() {
        foreign.extend(env.get_template(name).unwrap().undeclared_variables(false));
    }
    fields.push(format!("\"foreign\":{}", json_list(foreign.iter().cloned())));
    // every name the other templates mention (for the debug-mode stream)
    let mut foreign_mentioned: BTreeSet<String> = BTreeSet::new();
    for (_, hsrc) in HELPERS.iter() {
        if let Ok(ast) = parse(&cfg.source(hsrc), "h", cfg.syntax(), WhitespaceConfig::default()) {
            let mut d = Dump::default();
            d.stmt(&ast);
            let toks: Vec<&str> = d.out.split(' ').collect();
            for w in toks.windows(2) {
                if w[0] == "var" || w[0] == "macro" {
                    foreign_mentioned.insert(w[1].to_string());
                }
            }
        }
    }
    fields.push(format!("\"foreign_mentioned\":{}", json_list(foreign_mentioned.into_iter())));
    if cfg.named && !is_expr {
        if let Err(e) = env.add_template_owned("t".to_string(), src.to_string()) {
            fields.push(format!("\"compile\":{}", json_str(&format!("err:{:?}", e.kind()))));
            return format!("{{{}}}", fields.join(","));
        }
    }
    enum Subject<'a> {
        T(minijinja::Template<'a, 'a>),
        E(minijinja::Expression<'a, 'a>),
    }
    let compiled = guarded(|| {
        if is_expr {
            env.compile_expression(src).map(Subject::E)
        } else if cfg.named {
            env.get_template("t").map(Subject::T)
        } else {
            env.template_from_str(src).map(Subject::T)
        }
    });
    let tmpl = match compiled {
        Ok(Ok(t)) => t,
        Ok(Err(e)) => {
            fields.push(format!("\"compile\":{}", json_str(&format!("err:{:?}", e.kind()))));
            return format!("{{{}}}", fields.join(","));
        }
        Err(p) => {
            fields.push(format!("\"compile\":{}", json_str(&format!("panic:{}", p))));
            return format!("{{{}}}", fields.join(","));
        }
    };
    fields.push("\"compile\":\"ok\"".into());
    let analyse = |nested: bool| match &tmpl {
        Subject::T(t) => t.undeclared_variables(nested),
        Subject::E(e) => e.undeclared_variables(nested),
    };
    let und: BTreeSet<String> = match guarded(|| analyse(false)) {
        Ok(s) => s.into_iter().collect(),
        Err(p) => {
            fields.push(format!("\"analysis\":{}", json_str(&format!("panic:{}", p))));
            return format!("{{{}}}", fields.join(","));
        }
    };
    let nested: BTreeSet<String> = match guarded(|| analyse(true)) {
        Ok(s) => s.into_iter().collect(),
        Err(p) => {
            fields.push(format!("\"analysis\":{}", json_str(&format!("panic:{}", p))));
            return format!("{{{}}}", fields.join(","));
        }
    };
    fields.push("\"analysis\":\"ok\"".into());
    fields.push(format!("\"und\":{}", json_list(und.iter().cloned())));
    fields.push(format!("\"nested\":{}", json_list(nested.iter().cloned())));

    // 3. what the code generator made of the macros: BuildMacro flags and Enclose names
    if let Subject::T(t) = &tmpl {
        use minijinja::machinery::{get_compiled_template, Instruction};
        let compiled = get_compiled_template(t);
        let mut macros: Vec<String> = Vec::new();
        let mut scan = |instrs: &minijinja::machinery::Instructions<'_>| {
            let mut enclosed: BTreeSet<String> = BTreeSet::new();
            let mut idx = 0u32;
            while let Some(instr) = instrs.get(idx) {
                match instr {
                    Instruction::Enclose(name) => {
                        enclosed.insert(name.to_string());
                    }
                    Instruction::BuildMacro(name, _, flags) => {
                        let cl: Vec<String> = std::mem::take(&mut enclosed).into_iter().collect();
                        macros.push(format!("{}:{}:{}", name, if flags & 2 != 0 { 1 } else { 0 }, cl.join(",")));
                    }
                    _ => {}
                }
                idx += 1;
            }
        };
        scan(&compiled.instructions);
        for (_, instrs) in compiled.blocks.iter() {
            scan(instrs);
        }
        macros.sort();
        fields.push(format!("\"macros\":{}", json_list(macros)));
    }

    // 4. renders
    let mut reads = Vec::new();
    let mut paths = Vec::new();
    let mut outcomes = Vec::new();
    let describe = |res: Result<Result<(), Error>, String>| match res {
        Ok(Ok(_)) => "ok".to_string(),
        Ok(Err(e)) => {
            if std::env::var("C18_DETAIL").is_ok() {
                format!("err:{:?}:{}", e.kind(), e)
            } else {
                format!("err:{:?}", e.kind())
            }
        }
        Err(p) => format!("panic:{}", p.chars().take(80).collect::<String>()),
    };
    // in how many renders did the output carry the marker of an escaped callable's body
    let mut marks = 0usize;
    let mut heap: Vec<String> = Vec::new();
    for which in 0..N_CONTEXTS {
        let rec = mk_context(which, seed);
        let ctx = Value::from_dyn_object(rec.clone());
        let traced = trace_heap && !is_expr && which < 2;
        if traced {
            minijinja::verif_hooks::closures::start();
        }
        let res = guarded(|| match &tmpl {
            Subject::T(t) => t.render(ctx).map(|out| {
                if out.contains("[~") {
                    marks += 1;
                }
            }),
            Subject::E(e) => e.eval(ctx).map(|_| ()),
        });
        if traced {
            heap.push(heap_trace(&minijinja::verif_hooks::closures::stop()));
        }
        outcomes.push(describe(res));
        let keys: BTreeSet<String> = rec.log.lock().unwrap().iter().cloned().collect();
        reads.push(json_list(keys.into_iter()));
        let ps: BTreeSet<String> = rec.paths.lock().unwrap().iter().cloned().collect();
        paths.push(json_list(ps.into_iter()));
    }
    // other entry points: render_captured, then every block through render_block and every
    // top-level macro through call_macro (one more recording context)
    if let Subject::T(t) = &tmpl {
        let rec = mk_context(1, seed ^ 0x77);
        let ctx = Value::from_dyn_object(rec.clone());
        let block_names: Vec<String> =
            minijinja::machinery::get_compiled_template(t).blocks.keys().map(|k| k.to_string()).collect();
        let res = guarded(|| {
            // render_captured keeps the State; blocks and macros are then driven from outside
            let mut captured = t.render_captured(ctx)?;
            captured.with_state_mut(|state| {
                for b in &block_names {
                    let _ = state.render_block(b);
                }
                let exports: Vec<String> = state.exports().into_iter().map(|x| x.to_string()).collect();
                for name in exports {
                    let _ = state.call_macro(&name, &[]);
                }
            });
            Ok(())
        });
        outcomes.push(format!("entry:{}", describe(res)));
        let keys: BTreeSet<String> = rec.log.lock().unwrap().iter().cloned().collect();
        reads.push(json_list(keys.into_iter()));
        let ps: BTreeSet<String> = rec.paths.lock().unwrap().iter().cloned().collect();
        paths.push(json_list(ps.into_iter()));
    }
    // debug mode (separate stream): a failing render builds its error report from the values of
    // the names mentioned before the failing instruction (`State::make_debug_info`)
    if !is_expr && !light {
        let mut denv = mk_env(cfg);
        denv.set_debug(true);
        let rec = mk_context(1, seed);
        let ctx = Value::from_dyn_object(rec.clone());
        let res = guarded(|| denv.template_from_str(src).and_then(|t| t.render(ctx)).map(|_| ()));
        let keys: BTreeSet<String> = rec.log.lock().unwrap().iter().cloned().collect();
        fields.push(format!("\"debug_reads\":{}", json_list(keys.into_iter())));
        fields.push(format!("\"debug_outcome\":{}", json_str(&describe(res))));
    }
    fields.push(format!("\"reads\":[{}]", reads.join(",")));
    fields.push(format!("\"paths\":[{}]", paths.join(",")));
    fields.push(format!("\"outcome\":{}", json_list(outcomes)));
    fields.push(format!("\"marks\":{}", marks));
    if trace_heap && !is_expr {
        fields.push(format!("\"heap\":{}", json_list(heap)));
    }
    let host: Vec<String> = HOST_LOOKUPS.with(|h| h.borrow().iter().cloned().collect());
    fields.push(format!("\"host\":{}", json_list(host)));
    format!("{{{}}}", fields.join(","))
}

fn n_generated(tier: &str) -> usize {
    if tier == "thorough" {
        100_000
    } else {
        4_000
    }
}

/// how many of the non-sparse systematic templates quick selects (thorough: the whole product)
const SYS_QUICK: usize = 12_000;

/// how many of the non-canonical templates of the escape product quick selects
const ESC_QUICK: usize = 5_000;

/// the deterministic case sequence: corpus, seeded random templates, the systematic scope
/// product (`c18_sys.inc`), the file sets (`c18_set.inc`); `f(shape label, source)`
fn for_each_source(tier: &str, f: &mut dyn FnMut(&str, &str)) {
    for src in CORPUS.iter() {
        f("", src);
    }
    let mut master = Rng::new(seed_from_env());
    for i in 0..n_generated(tier) {
        let s = master.next();
        let mut g = Gen { rng: Rng::new(s), budget: 0, nblocks: 0 };
        // sizes: mostly small (few executions), some larger
        g.budget = match i % 4 {
            0 => 12,
            1 => 25,
            2 => 45,
            _ => 80,
        };
        let src = if i % 8 == 7 {
            // builtin × string arguments, in a small template (nothing else reads the names)
            let e1 = g.builtin_expr(1);
            let e2 = g.builtin_expr(1);
            match g.rng.below(3) {
                0 => format!("{{{{ {} }}}}", e1),
                1 => format!("{{% for v in {}|l %}}{{{{ {} }}}}{{{{ {} }}}}{{% endfor %}}", g.name(), e1, e2),
                _ => format!("{{% set r = {} %}}{{{{ {} }}}}", e1, e2),
            }
        } else if i % 6 == 5 {
            format!("{}{}", EXPR_MARK, g.expr(0))
        } else {
            g.body(0, false, false)
        };
        f("", &src);
    }
    sys_selected(tier, seed_from_env(), SYS_QUICK, f);
    esc_selected(tier, seed_from_env(), ESC_QUICK, f);
    special_each(f);
    set_each(f);
}

fn n_sources(tier: &str) -> usize {
    let mut n = 0usize;
    for_each_source(tier, &mut |_, _| n += 1);
    n
}

fn nth_source(tier: &str, n: usize) -> String {
    let mut idx = 0usize;
    let mut found = String::new();
    for_each_source(tier, &mut |_, src| {
        if idx == n {
            found = src.to_string();
        }
        idx += 1;
    });
    found
}

fn with_shape(json: String, shape: &str) -> String {
    if shape.is_empty() || !json.ends_with('}') {
        json
    } else {
        format!("{},\"shape\":{}}}", &json[..json.len() - 1], json_str(shape))
    }
}

fn main() {
    // deep (but bounded: recursion limit) macro/loop nesting needs more than the default
    // main-thread stack in a debug build
    let t = std::thread::Builder::new().stack_size(1 << 30).spawn(real_main).unwrap();
    if t.join().is_err() {
        std::process::exit(101);
    }
}

/// one worker process of `gen`: cases `first, first + step, …` of the sequence
struct Shard {
    child: std::process::Child,
    /// the worker's output lines, drained by a reader thread so that a worker never waits for
    /// the parent to get round to it
    lines: std::sync::mpsc::Receiver<String>,
}

fn spawn_shard(tier: &str, first: usize, step: usize, end: usize) -> Shard {
    use std::io::BufRead;
    let mut child = std::process::Command::new(std::env::current_exe().unwrap())
        .args(["worker", tier, &first.to_string(), &step.to_string(), &end.to_string()])
        .stdout(std::process::Stdio::piped())
        .stderr(std::process::Stdio::null())
        .spawn()
        .unwrap();
    let stdout = child.stdout.take().unwrap();
    let (tx, rx) = std::sync::mpsc::sync_channel::<String>(4096);
    std::thread::spawn(move || {
        for line in std::io::BufReader::with_capacity(1 << 20, stdout).lines() {
            match line {
                Ok(l) => {
                    if tx.send(l).is_err() {
                        break;
                    }
                }
                Err(_) => break,
            }
        }
    });
    Shard { child, lines: rx }
}

fn real_main() {
    quiet_panics();
    let args: Vec<String> = std::env::args().collect();
    let stdout = std::io::stdout();
    let mut out = std::io::BufWriter::with_capacity(1 << 20, stdout.lock());
    match args.get(1).map(|s| s.as_str()) {
        Some("gen") => {
            // The engine can abort the process (e.g. rendering a namespace that contains itself
            // overflows the stack), so the cases run in worker processes; an aborted case is
            // reported as such and the run continues behind it.  The sequence is dealt round-robin
            // to `C18_SHARDS` workers (default: the number of cores, at most 12) and read back in
            // sequence order, so the output does not depend on the number of workers.
            let tier = args.get(2).map(|s| s.as_str()).unwrap_or("quick").to_string();
            // `gen <tier> [start count]`: only the cases start .. start+count of the sequence
            let start: usize = args.get(3).and_then(|s| s.parse().ok()).unwrap_or(0);
            let count: usize = args.get(4).and_then(|s| s.parse().ok()).unwrap_or(usize::MAX);
            let total = n_sources(&tier).min(start.saturating_add(count));
            let shards: usize = std::env::var("C18_SHARDS")
                .ok()
                .and_then(|s| s.parse().ok())
                .unwrap_or_else(|| std::thread::available_parallelism().map(|n| n.get()).unwrap_or(4).min(12))
                .max(1);
            let mut workers: Vec<Shard> = (0..shards).map(|k| spawn_shard(&tier, start + k, shards, total)).collect();
            for i in start..total {
                let k = (i - start) % shards;
                match workers[k].lines.recv() {
                    Ok(line) => {
                        writeln!(out, "{}", line).unwrap();
                    }
                    Err(_) => {
                        // the worker died on case i: report it and go on behind it
                        let _ = workers[k].child.wait();
                        let src = nth_source(&tier, i);
                        writeln!(out, "{}\t{{\"parse\":\"abort\"}}", hex(src.as_bytes())).unwrap();
                        workers[k] = spawn_shard(&tier, i + shards, shards, total);
                    }
                }
            }
            for w in workers.iter_mut() {
                let _ = w.child.wait();
            }
        }
        Some("worker") | Some("srcs") => {
            let only_sources = args[1] == "srcs";
            let tier = args.get(2).map(|s| s.as_str()).unwrap_or("quick");
            let first: usize = args.get(3).and_then(|s| s.parse().ok()).unwrap_or(0);
            let step: usize = args.get(4).and_then(|s| s.parse().ok()).unwrap_or(1).max(1);
            let end: usize = args.get(5).and_then(|s| s.parse().ok()).unwrap_or(usize::MAX);
            let mut idx = 0usize;
            let mut emit = |out: &mut dyn Write, shape: &str, src: &str| {
                if idx >= first && idx < end && (idx - first) % step == 0 {
                    if only_sources {
                        writeln!(out, "{}", hex(src.as_bytes())).unwrap();
                    } else {
                        writeln!(out, "{}\t{}", hex(src.as_bytes()), with_shape(run_one(src, shape), shape)).unwrap();
                        out.flush().unwrap();
                    }
                }
                idx += 1;
            };
            for_each_source(tier, &mut |shape, src| emit(&mut out, shape, src));
        }
        Some("shapes") => {
            // index, shape label and source of every case of the sequence (debugging aid)
            let tier = args.get(2).map(|s| s.as_str()).unwrap_or("quick");
            let prefix = args.get(3).cloned().unwrap_or_default();
            let mut idx = 0usize;
            for_each_source(tier, &mut |shape, src| {
                if shape.starts_with(&prefix) {
                    writeln!(out, "{}\t{}\t{}", idx, shape, src.replace(US, " := ").replace(RS, " ;; ")).unwrap();
                }
                idx += 1;
            });
        }
        Some("count") => {
            let tier = args.get(2).map(|s| s.as_str()).unwrap_or("quick");
            writeln!(
                out,
                "sequence={} systematic-product={} sparse={} escape-product={}",
                n_sources(tier),
                sys_total(),
                sys_sparse_total(),
                esc_total()
            )
            .unwrap();
        }
        Some("one") => {
            let src = String::from_utf8(unhex(&args[2])).unwrap();
            writeln!(out, "{}\t{}", hex(src.as_bytes()), run_one(&src, "")).unwrap();
        }
        Some("text") => {
            let src = args[2].clone();
            writeln!(out, "{}\t{}", hex(src.as_bytes()), run_one(&src, "")).unwrap();
        }
        _ => {
            eprintln!("usage: c18 gen <quick|thorough> | srcs <tier> | count <tier> | one <hex> | text <src>");
            std::process::exit(2);
        }
    }
}
