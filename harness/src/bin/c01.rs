//! C01 crash-oracle harness: "loading and rendering a template never crashes the host process".
//!
//! A *parent* (`c01 gen <quick|thorough>` / `c01 one <case…>`) builds the case list (all
//! randomness from `mjh::Rng::new(seed_from_env())`), shards it over worker child processes
//! (re-exec of this binary under `sh -c 'ulimit -v 2097152; exec …'` so that a template-chosen
//! allocation is an observable abort, not swapping) and prints
//!
//!     <mode>\t<case>\t<result>          mode in {main, t2m}
//!
//! A *worker* (`c01 worker <main|t2m>`) reads `idx\tcase` lines and answers `idx\tresult`, each
//! case under `catch_unwind`, either on the main thread or on a 2 MiB thread.  When a worker dies
//! (signal) or stops answering (timeout) the case it was running is re-run alone in a fresh worker
//! to confirm, the signal is recorded as the result and the rest of the shard continues in a new
//! worker.
//!
//! Case kinds (first word):
//!   k <kernel> <args…>        arithmetic kernels through the public API, canonical value result
//!                             (compared with the Lean model `drive_c01`)
//!   t <label> <ctx> <hex>     template source: add_template + render against context zoo entry
//!   e <label> <ctx> <hex>     expression source: compile_expression + eval
//!   d <construct> <n>         depth probe: nesting depth n of one recursive syntactic construct
//!   c <family> <api> <ctx> <spec>  composition of constructs (see c01_compose.inc): load through one of seven
//!                             API paths, undeclared_variables(true/false), render
//!   f <p|s> <args> <hex>      format string (printf / str.format style) through
//!                             `minijinja::formatting::format` with one of six argument sets
//! Results: `ok:…`, `err:<ErrorKind>`, `panic:<file>:<msg>`, `signal:<n>`, `timeout`.
//! Case order of `gen`: corpus (`/verif/corpus/C01/*.cases`, minimised past failures), depth probes,
//! kernels, builtins (names read from the `defaults.rs` this binary was built against), mutants.
//! Other subcommands: `list <tier>` (cases only), `stdin` (cases from stdin), `one <case>` (replay),
//! `show <case>` (decode the source), `info` (size_of::<Value>(), pointer width).
//! Every returned `Error` is formatted with `{}`, `{:#}`, `{:?}` and `display_debug_info()` inside
//! the same guard (stream 5).
use minijinja::value::{Rest, Serde, Value};
use minijinja::{context, Environment, Error};
use mjh::*;
use std::io::{BufRead, BufReader, Write};
use std::process::{Command, Stdio};
use std::sync::mpsc;
use std::sync::Mutex;
use std::time::Duration;

const DEFAULTS_RS: &str = include_str!("/repo/minijinja/src/defaults.rs");
const FUZZ_DICT: &str = include_str!("/repo/fuzz/dict");
const CONTRIB_LIB_RS: &str = include_str!("/repo/minijinja-contrib/src/lib.rs");
const PYCOMPAT_RS: &str = include_str!("/repo/minijinja-contrib/src/pycompat.rs");

/// names registered by `minijinja_contrib::add_to_environment` (`env.add_<what>("name", …)`)
fn contrib_names(what: &str) -> Vec<String> {
    let pat = format!("env.add_{}(\"", what);
    let mut v = vec![];
    let mut i = 0;
    while let Some(p) = CONTRIB_LIB_RS[i..].find(&pat) {
        let s = &CONTRIB_LIB_RS[i + p + pat.len()..];
        if let Some(q) = s.find('"') {
            v.push(s[..q].to_string());
        }
        i += p + pat.len();
    }
    v.sort();
    v.dedup();
    v
}

/// method names handled by the pycompat callback: the string literals of its `match method` arms
fn pycompat_methods() -> Vec<String> {
    let mut v = vec![];
    for line in PYCOMPAT_RS.lines() {
        let t = line.trim();
        if t.starts_with('"') && t.ends_with("=> {") || (t.starts_with('"') && t.contains("\" =>")) {
            for part in t.split('|') {
                let part = part.trim();
                if let Some(rest) = part.strip_prefix('"') {
                    if let Some(q) = rest.find('"') {
                        v.push(rest[..q].to_string());
                    }
                }
            }
        }
    }
    v.sort();
    v.dedup();
    v
}

// ------------------------------------------------------------------------------------ panics
static LAST_PANIC: Mutex<String> = Mutex::new(String::new());

fn short_file(f: &str) -> String {
    if let Some(i) = f.find("/minijinja/src/") {
        f[i + "/minijinja/src/".len()..].to_string()
    } else if let Some(i) = f.find("minijinja/src/") {
        f[i + "minijinja/src/".len()..].to_string()
    } else if let Some(i) = f.find("/library/") {
        format!("std:{}", &f[i + "/library/".len()..])
    } else if let Some(i) = f.find("/registry/src/") {
        let rest = &f[i + "/registry/src/".len()..];
        format!("dep:{}", rest.splitn(2, '/').nth(1).unwrap_or(rest))
    } else {
        f.rsplit('/').next().unwrap_or(f).to_string()
    }
}

fn install_hook() {
    std::panic::set_hook(Box::new(|info| {
        let loc = info.location().map(|l| short_file(l.file())).unwrap_or_else(|| "?".into());
        let p = info.payload();
        let msg = if let Some(s) = p.downcast_ref::<&str>() {
            s.to_string()
        } else if let Some(s) = p.downcast_ref::<String>() {
            s.clone()
        } else {
            "?".into()
        };
        let mut m: String = msg
            .chars()
            .map(|c| if c.is_ascii_digit() { '#' } else if c == '\t' || c == '\n' { ' ' } else { c })
            .collect();
        while m.contains("##") {
            m = m.replace("##", "#");
        }
        let m: String = m.chars().take(70).collect();
        *LAST_PANIC.lock().unwrap_or_else(|e| e.into_inner()) = format!("{}:{}", loc, m);
    }));
}

fn last_panic() -> String {
    LAST_PANIC.lock().unwrap_or_else(|e| e.into_inner()).clone()
}

// ------------------------------------------------------------------------------------ zoo
thread_local! {
    /// (address of a local at the start of the measurement, deepest address seen by a `StackProbe`)
    static STACK_MARKS: std::cell::Cell<(usize, usize)> = const { std::cell::Cell::new((0, 0)) };
}

#[inline(never)]
fn note_stack_depth() {
    let marker = 0u8;
    let addr = &marker as *const u8 as usize;
    STACK_MARKS.with(|m| {
        let (base, deepest) = m.get();
        if base != 0 && (deepest == 0 || addr < deepest) {
            m.set((base, addr));
        }
    });
}

/// a leaf iterable that notes how deep the native stack is whenever it is asked for its items: a
/// hook-free probe of how deeply the lazy wrappers around it nest
#[derive(Debug)]
struct StackProbe {
    sized: bool,
}

impl minijinja::value::Object for StackProbe {
    fn repr(self: &std::sync::Arc<Self>) -> minijinja::value::ObjectRepr {
        if self.sized { minijinja::value::ObjectRepr::Seq } else { minijinja::value::ObjectRepr::Iterable }
    }
    fn get_value(self: &std::sync::Arc<Self>, key: &Value) -> Option<Value> {
        note_stack_depth();
        key.as_usize().filter(|i| *i < 1).map(|_| Value::from("leaf"))
    }
    fn enumerate(self: &std::sync::Arc<Self>) -> minijinja::value::Enumerator {
        note_stack_depth();
        if self.sized {
            minijinja::value::Enumerator::Seq(1)
        } else {
            minijinja::value::Enumerator::Iter(Box::new(std::iter::once(Value::from("leaf")).filter(|_| {
                note_stack_depth();
                true
            })))
        }
    }
}

/// a host object whose `render` (= Display) fails by itself after writing `pieces` pieces
#[derive(Debug)]
struct FailingDisplay {
    pieces: usize,
    seq: bool,
}

impl minijinja::value::Object for FailingDisplay {
    fn repr(self: &std::sync::Arc<Self>) -> minijinja::value::ObjectRepr {
        if self.seq { minijinja::value::ObjectRepr::Seq } else { minijinja::value::ObjectRepr::Plain }
    }
    fn get_value(self: &std::sync::Arc<Self>, key: &Value) -> Option<Value> {
        if self.seq { key.as_usize().filter(|i| *i < 2).map(|i| Value::from(i as i64)) } else { None }
    }
    fn enumerate(self: &std::sync::Arc<Self>) -> minijinja::value::Enumerator {
        if self.seq { minijinja::value::Enumerator::Seq(2) } else { minijinja::value::Enumerator::NonEnumerable }
    }
    fn render(self: &std::sync::Arc<Self>, f: &mut std::fmt::Formatter<'_>) -> std::fmt::Result {
        for i in 0..self.pieces {
            write!(f, "<p{}>", i)?;
        }
        Err(std::fmt::Error)
    }
}

/// the context every `t`/`e` case is rendered against; `which` selects small variations
fn ctx_zoo(which: usize) -> Value {
    let nested = Value::from(Serde(serde_json::json!([[1, [2, [3, []]]], {"a": {"b": [1, {"c": null}]}}])));
    let users = Value::from(Serde(serde_json::json!([
        {"name": "b", "age": 3, "tags": ["x", "y"], "active": true},
        {"name": "A", "age": 1, "tags": [], "active": false},
        {"name": "c", "age": 2, "tags": ["x"], "active": null}
    ])));
    let it = Value::make_iterable(|| (0..3i64).filter(|_| true));
    let one_shot = Value::make_one_shot_iterator(0..3i64);
    let base = context! {
        n => Value::from(()),
        t => true,
        f => false,
        i0 => 0, i1 => 1, i2 => 2, i3 => 3, im => -1,
        big => i64::MAX, small => i64::MIN, ubig => u64::MAX,
        huge => Value::from(i128::MAX), nhuge => Value::from(i128::MIN), uhuge => Value::from(u128::MAX),
        fl => 1.5, nan => f64::NAN, inf => f64::INFINITY, ninf => f64::NEG_INFINITY, fbig => 1e300, nzero => -0.0f64,
        s => "hello", es => "", ms => "héllo wörld\n  line2\n\n€ line4\r\n", fmt => "%s|%5d|{}",
        safe => Value::from_safe_string("<b>safe</b>".into()),
        pfmt => "<%s>|%s|%s", sfmt => Value::from_safe_string("<%s>|%s|{}{}".into()),
        long => "ab".repeat(200),
        by => Value::from_bytes(vec![0, 159, 146, 150]),
        xs => vec![1, 2, 3], exs => Vec::<i32>::new(), ss => vec!["b", "A", "c"],
        mixed => vec![Value::from(1), Value::from("a"), Value::from(()), Value::from(2.5), Value::from(true)],
        nested => nested, users => users,
        m => Value::from(Serde(serde_json::json!({"a": 1, "b": [2], "c": {"d": "e"}}))),
        em => Value::from(Serde(serde_json::json!({}))),
        it => it, once => one_shot,
        bad0 => Value::from_object(FailingDisplay { pieces: 0, seq: false }),
        bad3 => Value::from_object(FailingDisplay { pieces: 3, seq: false }),
        badseq => Value::from_object(FailingDisplay { pieces: 1, seq: true }),
        badlist => vec![Value::from(1), Value::from_object(FailingDisplay { pieces: 1, seq: false })],
        badmap => Value::from_iter([(Value::from_object(FailingDisplay { pieces: 1, seq: false }), Value::from_object(FailingDisplay { pieces: 0, seq: false }))]),
        name => "World", title => "T", foo => vec!["x", "y"], items => vec![1, 2, 3, 4, 5], seq => vec![3, 1, 2],
        a => 1, b => 2, c => 3, x => 42, expr => true, dict => Value::from(Serde(serde_json::json!({"k": "v"}))),
    };
    match which % 4 {
        0 => base,
        1 => context! { ..base, ..context!{ xs => Vec::<i32>::new(), s => "", x => Value::from(()), a => i64::MAX, b => i64::MIN, c => 0, items => Value::from(()) } },
        2 => context! { ..base, ..context!{ xs => "string", s => vec![1], x => -1, a => 0, b => 0, c => 0, foo => 1, expr => false } },
        _ => Value::from(()),
    }
}

fn companions() -> Vec<(String, String)> {
    static COMPANIONS: std::sync::OnceLock<Vec<(String, String)>> = std::sync::OnceLock::new();
    COMPANIONS.get_or_init(read_companions).clone()
}

fn read_companions() -> Vec<(String, String)> {
    let mut v = vec![
        ("layout.html".to_string(), "<t>{% block title %}default{% endblock %}</t>{% block body %}[{{ x }}]{% endblock %}".to_string()),
        ("template.html".to_string(), "{% block title %}T{% endblock %}{% block content %}C{{ super }}{% endblock %}".to_string()),
        ("inc.txt".to_string(), "inc({{ x }})".to_string()),
        ("macros.txt".to_string(), "{% macro m(a, b=2) %}{{ a }}|{{ b }}|{{ varargs }}|{{ kwargs }}{% endmacro %}{% macro r(n) %}{% if n > 0 %}{{ r(n - 1) }}{% endif %}{% endmacro %}{% set exported = 1 %}".to_string()),
        ("selfinc.txt".to_string(), "{% include 'selfinc.txt' %}".to_string()),
        ("selfext.txt".to_string(), "{% extends 'selfext.txt' %}".to_string()),
    ];
    if let Ok(rd) = std::fs::read_dir("/repo/minijinja/tests/inputs/refs") {
        let mut names: Vec<_> = rd.filter_map(|e| e.ok()).map(|e| e.path()).collect();
        names.sort();
        for p in names {
            if let Ok(s) = std::fs::read_to_string(&p) {
                v.push((p.file_name().unwrap().to_string_lossy().to_string(), s));
            }
        }
    }
    v
}

fn build_env() -> Environment<'static> {
    let mut env = Environment::new();
    env.set_debug(true);
    for (n, s) in companions() {
        let _ = env.add_template_owned(n, s);
    }
    env.add_function("echo", |args: Rest<Value>| Value::from(args.0));
    // the whole minijinja-contrib surface: filters / functions of every feature, Python-compatible methods
    minijinja_contrib::add_to_environment(&mut env);
    env.set_unknown_method_callback(minijinja_contrib::pycompat::unknown_method_callback);
    env
}

thread_local! {
    /// the environment every case starts from, built once per worker thread (the companions are compiled
    /// once, a case works on its own clone: nothing a case does to its environment reaches the next case)
    static BASE_ENV: std::cell::OnceCell<Environment<'static>> = const { std::cell::OnceCell::new() };
    static WIDE_ENV: std::cell::OnceCell<Environment<'static>> = const { std::cell::OnceCell::new() };
}

fn make_env(fuel: Option<u64>) -> Environment<'static> {
    let mut env = BASE_ENV.with(|b| b.get_or_init(build_env).clone());
    env.set_fuel(fuel);
    env
}

/// `make_env` plus 300 identity filters `wf0…` and 300 tests `wt0…` (width probes need more distinct
/// *existing* filter / test names than the builtins offer)
fn make_wide_env() -> Environment<'static> {
    WIDE_ENV.with(|b| {
        b.get_or_init(|| {
            let mut env = make_env(None);
            for i in 0..300 {
                env.add_filter(format!("wf{}", i), |v: Value| v);
                env.add_test(format!("wt{}", i), |_v: Value| true);
            }
            env
        })
        .clone()
    })
}

fn wide_name(prefix: &str, i: usize) -> String {
    // beyond the registered ones the names are unknown to the environment (the compiler does not care)
    if i < 300 { format!("w{}{}", prefix, i) } else { format!("u{}{}", prefix, i) }
}

// ------------------------------------------------------------------------------------ running
/// stream 5: format an error every way a host application could
fn fmt_error(e: &Error) -> usize {
    let mut n = 0;
    n += format!("{}", e).len();
    n += format!("{:#}", e).len();
    n += format!("{:?}", e).len();
    n += format!("{}", e.display_debug_info()).len();
    n += format!("{:?} {:?} {:?} {:?}", e.line(), e.range(), e.name(), e.detail()).len();
    let mut src = std::error::Error::source(e);
    let mut hops = 0;
    while let Some(s) = src {
        n += format!("{} {:?}", s, s).len();
        src = s.source();
        hops += 1;
        if hops > 50 {
            break;
        }
    }
    n
}

fn hash8(s: &str) -> String {
    let mut h: u64 = 0xcbf29ce484222325;
    for b in s.bytes() {
        h ^= b as u64;
        h = h.wrapping_mul(0x100000001b3);
    }
    format!("{:08x}", h as u32)
}

fn finish(r: Result<Result<String, Error>, String>) -> String {
    match r {
        Ok(Ok(s)) => s,
        Ok(Err(e)) => {
            let kind = error_kind_name(&e);
            match guarded(|| fmt_error(&e)) {
                Ok(_) => format!("err:{}", kind),
                Err(_) => format!("panic-fmt:{}", last_panic()),
            }
        }
        Err(_) => format!("panic:{}", last_panic()),
    }
}

// ---- configuration axis --------------------------------------------------------------------
/// number of syntax configurations (`syntax_cfg`)
const NSYN: usize = 6;

/// (block, variable, comment delimiters, line statement prefix, line comment prefix) of syntax
/// configuration `syn` (0 = the default syntax)
fn syntax_parts(syn: usize) -> ([&'static str; 6], Option<&'static str>, Option<&'static str>) {
    match syn % NSYN {
        0 => (["{%", "%}", "{{", "}}", "{#", "#}"], None, None),
        // ERB / shell like
        1 => (["<%", "%>", "${", "}", "<#", "#>"], None, None),
        // the default delimiters plus line statements and line comments
        2 => (["{%", "%}", "{{", "}}", "{#", "#}"], Some("#"), Some("##")),
        // start delimiters that are prefixes of each other, end delimiters too
        3 => (["{{%", "%}}", "{{", "}}", "{{#", "#}}"], Some("%%"), None),
        // multi-byte delimiters and prefixes
        4 => (["«%", "%»", "«", "»", "«#", "#»"], Some("§"), Some("§§")),
        // end delimiters that begin with the whitespace-control characters
        _ => (["[-", "-]", "[+", "+]", "[*", "*]"], Some("-"), Some("//")),
    }
}

/// a template written in the default syntax rewritten into syntax configuration `syn` (token by token)
fn translate_syntax(src: &str, syn: usize) -> String {
    let (d, _, _) = syntax_parts(syn);
    if syn % NSYN == 0 || syn % NSYN == 2 {
        return src.to_string();
    }
    let from = ["{%", "%}", "{{", "}}", "{#", "#}"];
    let mut out = String::with_capacity(src.len() + 16);
    let mut i = 0;
    'outer: while i < src.len() {
        for (k, f) in from.iter().enumerate() {
            if src[i..].starts_with(f) {
                out.push_str(d[k]);
                i += f.len();
                continue 'outer;
            }
        }
        let c = src[i..].chars().next().unwrap();
        out.push(c);
        i += c.len_utf8();
    }
    out
}

/// The configuration of a `t` / `e` case: its context/configuration number is `ctx + 4 * cfg`,
/// cfg = ub + 4 * (ws + 8 * (syn + NSYN * misc)): undefined behaviour (4) x trim_blocks / lstrip_blocks /
/// keep_trailing_newline (8) x syntax configuration (NSYN) x {-, debug off, recursion limit 3, .json name}.
/// cfg 0 is the default environment.
fn apply_cfg(env: &mut Environment<'static>, cfg: usize) {
    use minijinja::UndefinedBehavior as U;
    if cfg == 0 {
        return;
    }
    env.set_undefined_behavior(match cfg % 4 {
        0 => U::Lenient,
        1 => U::Chainable,
        2 => U::SemiStrict,
        _ => U::Strict,
    });
    let ws = (cfg / 4) % 8;
    env.set_trim_blocks(ws & 1 != 0);
    env.set_lstrip_blocks(ws & 2 != 0);
    env.set_keep_trailing_newline(ws & 4 != 0);
    let syn = (cfg / 32) % NSYN;
    if syn != 0 {
        let (d, ls, lc) = syntax_parts(syn);
        let mut b = minijinja::syntax::SyntaxConfig::builder();
        b.block_delimiters(d[0], d[1]).variable_delimiters(d[2], d[3]).comment_delimiters(d[4], d[5]);
        if let Some(p) = ls {
            b.line_statement_prefix(p);
        }
        if let Some(p) = lc {
            b.line_comment_prefix(p);
        }
        if let Ok(sc) = b.build() {
            env.set_syntax(sc);
        }
    }
    match (cfg / (32 * NSYN)) % 4 {
        1 => env.set_debug(false),
        2 => env.set_recursion_limit(3),
        _ => {}
    }
}

fn cfg_template_name(which: usize) -> &'static str {
    if ((which / 4) / (32 * NSYN)) % 4 == 3 {
        "case.json"
    } else if which % 2 == 0 {
        "case.txt"
    } else {
        "case.html"
    }
}

fn run_template(label: &str, which: usize, src: &str) -> String {
    let fuel = if label.starts_with("mut") { Some(50_000) } else { None };
    with_tie(finish(guarded(|| {
        let mut env = make_env(fuel);
        apply_cfg(&mut env, which / 4);
        let name = cfg_template_name(which);
        env.add_template_owned(name.to_string(), src.to_string())?;
        let t = env.get_template(name)?;
        let out = t.render(ctx_zoo(which))?;
        Ok(format!("ok:{}:{}", out.len(), hash8(&out)))
    })))
}

fn run_expr(_label: &str, which: usize, src: &str) -> String {
    with_tie(finish(guarded(|| {
        let mut env = make_env(Some(50_000));
        apply_cfg(&mut env, which / 4);
        let ex = env.compile_expression(src)?;
        let v = ex.eval(ctx_zoo(which))?;
        let s = format!("{}|{:?}", v, v);
        let n = v.len();
        let mut cnt = 0usize;
        if let Ok(it) = v.try_iter() {
            for x in it.take(100_000) {
                cnt += x.to_string().len();
            }
        }
        Ok(format!("ok:{}:{}:{:?}:{}", s.len(), hash8(&s), n, cnt))
    })))
}

// ---- kernels -------------------------------------------------------------------------------
fn int_value(s: &str) -> Value {
    // decimal text of any width (i64 / u64 / i128 / u128 representation as the parser would choose)
    if let Ok(v) = s.parse::<i64>() {
        Value::from(v)
    } else if let Ok(v) = s.parse::<u64>() {
        Value::from(v)
    } else if let Ok(v) = s.parse::<i128>() {
        Value::from(v)
    } else if let Ok(v) = s.parse::<u128>() {
        Value::from(v)
    } else {
        Value::from(s)
    }
}

fn opt_int(s: &str) -> Value {
    if s == "_" { Value::UNDEFINED } else { int_value(s) }
}

fn err_s(e: Error) -> Result<String, Error> {
    Err(e)
}

fn run_kernel(f: &[&str]) -> String {
    let env = make_env(None);
    match f[0] {
        // k range A B C  → ok:LEN:FIRST:LAST
        "range" => finish(guarded(|| {
            let src = match (f[2], f[3]) {
                ("_", "_") => "range(a)",
                (_, "_") => "range(a, b)",
                _ => "range(a, b, c)",
            };
            let ex = env.compile_expression(src)?;
            let v = ex.eval(context! { a => int_value(f[1]), b => opt_int(f[2]), c => opt_int(f[3]) })?;
            let mut n = 0usize;
            let mut first = None;
            let mut last = None;
            for x in v.try_iter()? {
                if first.is_none() {
                    first = Some(x.clone());
                }
                last = Some(x);
                n += 1;
                if n > 200_000 {
                    break;
                }
            }
            let sh = |o: Option<Value>| o.map(|v| v.to_string()).unwrap_or("_".into());
            // the length the object reports must agree with what it yields
            let reported = v.len();
            Ok(format!("ok:{}:{}:{}{}", n, sh(first), sh(last), if reported == Some(n) { "" } else { ":len-mismatch" }))
        })),
        // k cycle N ARGC → ok:<idx,idx,…>
        "cycle" => finish(guarded(|| {
            let argc: usize = f[2].parse().unwrap();
            let args: Vec<String> = (0..argc).map(|i| i.to_string()).collect();
            let src = format!("{{% for x in range(n) %}}{{{{ loop.cycle({}) }}}},{{% endfor %}}", args.join(", "));
            let out = env.render_str(&src, context! { n => int_value(f[1]) })?;
            Ok(format!("ok:{}", out))
        })),
        // k mulstr L N SIDE → ok:<len>
        // k intop OP A B → ok:<integer> : the VM's integer arithmetic (ops.rs) / the abs filter on
        // integers of every width; `k intoplit` the same through literals (constant folding at compile time)
        "intop" | "intoplit" => finish(guarded(|| {
            let lit = f[0] == "intoplit";
            let (a, b) = if lit { (format!("({})", f[2]), format!("({})", f[3])) } else { ("a".to_string(), "b".to_string()) };
            let src = match f[1] {
                "add" => format!("{} + {}", a, b),
                "sub" => format!("{} - {}", a, b),
                "mul" => format!("{} * {}", a, b),
                "rem" => format!("{} % {}", a, b),
                "intdiv" => format!("{} // {}", a, b),
                "pow" => format!("{} ** {}", a, b),
                "neg" => format!("-{}", a),
                "abs" => format!("{}|abs", a),
                _ => return Ok("bad-case".into()),
            };
            let ex = env.compile_expression_owned(src)?;
            let v = ex.eval(context! { a => int_value(f[2]), b => int_value(f[3]) })?;
            if !matches!(v.kind(), minijinja::value::ValueKind::Number) {
                return Ok(format!("ok:?{}", v.kind()));
            }
            Ok(format!("ok:{}", v))
        })),
        // k dbgwin L N → ok:<before>;<line>;<after> : the line numbers `render_debug_info` prints around an
        // error on line L of an N-line template
        "dbgwin" => {
            let l: usize = f[1].parse().unwrap_or(1);
            let n: usize = f[2].parse().unwrap_or(1);
            let src = (1..=n).map(|i| if i == l { "{{ ? }}" } else { "x" }).collect::<Vec<_>>().join("\n");
            match guarded(|| {
                let mut env = make_env(None);
                env.add_template_owned("case.txt".to_string(), src).err().map(|e| format!("{}", e.display_debug_info()))
            }) {
                Err(_) => format!("panic:{}", last_panic()),
                Ok(None) => "ok:none".to_string(),
                Ok(Some(text)) => {
                    let (mut pre, mut cur, mut post) = (vec![], vec![], vec![]);
                    for line in text.lines() {
                        let mut it = line.trim_start().splitn(3, ' ');
                        if let (Some(num), Some(mark)) = (it.next(), it.next()) {
                            if let Ok(k) = num.parse::<usize>() {
                                match mark {
                                    ">" => cur.push(k.to_string()),
                                    "|" if cur.is_empty() => pre.push(k.to_string()),
                                    "|" => post.push(k.to_string()),
                                    _ => {}
                                }
                            }
                        }
                    }
                    format!("ok:{};{};{}", pre.join(","), cur.join(","), post.join(","))
                }
            }
        }
        // k reprstr CP,CP,… → ok:<bytes of the repr> : `{:?}` of a string value (python_string_debug_fmt)
        "reprstr" => finish(guarded(|| {
            let st: String = if f[1] == "_" { String::new() } else { f[1].split(',').filter_map(|t| t.parse::<u32>().ok().and_then(char::from_u32)).collect() };
            let long = Value::from(format!("{:?}", Value::from(st.clone()))).len().unwrap_or(0);
            // the same through a template: element of a printed list (SmallStr and String representations)
            let ex = env.compile_expression("[v]|string|length")?;
            let via = ex.eval(context! { v => st })?;
            if via != Value::from(long + 2) {
                return Ok(format!("ok:{}!={}", long, via));
            }
            Ok(format!("ok:{}", format!("{:?}", Value::from(f[1].split(',').filter_map(|t| t.parse::<u32>().ok().and_then(char::from_u32)).collect::<String>())).len()))
        })),
        "mulstr" => finish(guarded(|| {
            let l: usize = f[1].parse().unwrap();
            let src = if f[3] == "l" { "(s * n)|length" } else { "(n * s)|length" };
            let ex = env.compile_expression(src)?;
            let v = ex.eval(context! { s => "a".repeat(l), n => int_value(f[2]) })?;
            Ok(format!("ok:{}", v))
        })),
        // k mulseq KIND L N → ok:<reported len>:<yielded (capped)>
        "mulseq" => finish(guarded(|| {
            let l: i64 = f[2].parse().unwrap();
            let xs: Vec<i64> = (0..l).collect();
            let seq = match f[1] {
                "list" => Value::from(xs),
                "tuple" => Value::from(minijinja::value::Tuple::from(xs.into_iter().map(Value::from).collect::<Vec<_>>())),
                "iter" => Value::make_iterable(move || 0..l),
                _ => Value::make_iterable(move || (0..l).filter(|_| true)),
            };
            let ex = env.compile_expression("xs * n")?;
            let v = ex.eval(context! { xs => seq, n => int_value(f[3]) })?;
            let reported = v.len();
            let mut n = 0usize;
            for _ in v.try_iter()?.take(1000) {
                n += 1;
            }
            Ok(format!("ok:{}:{}", reported.map(|x| x.to_string()).unwrap_or("_".into()), n))
        })),
        // k indent L W FIRST BLANK → ok:<len>
        "indent" => finish(guarded(|| {
            let l: usize = f[1].parse().unwrap();
            let s: String = (0..l).map(|i| if i % 3 == 2 { '\n' } else { 'x' }).collect();
            let ex = env.compile_expression("s|indent(w, fi, bl)|length")?;
            let v = ex.eval(context! { s => s, w => int_value(f[2]), fi => f[3] == "1", bl => f[4] == "1" })?;
            Ok(format!("ok:{}", v))
        })),
        // k tojson W → ok:<len>          ([1,[2]]|tojson(W))
        "tojson" => finish(guarded(|| {
            let ex = env.compile_expression("[1, [2]]|tojson(w)|length")?;
            let v = ex.eval(context! { w => int_value(f[1]) })?;
            Ok(format!("ok:{}", v))
        })),
        // k fmtw STYLE W → ok:<len>   printf style through the `format` filter (pw `%Wd`, pz `%0Wd`,
        // ps `%Ws`, pp `%.Wf`, pg `%.Wg`), str.format style through `minijinja::formatting::format`
        // (sw `{:W}`, sz `{:0W}`, sc `{:^W}`, sp `{:.Wf}`, sg `{:.Wg}`); argument 7 resp. 7.0 / 1.5
        "fmtw" => finish(guarded(|| {
            let (spec, arg) = match f[1] {
                "pw" => (format!("%{}d", f[2]), Value::from(7)),
                "pz" => (format!("%0{}d", f[2]), Value::from(7)),
                "ps" => (format!("%{}s", f[2]), Value::from(7)),
                "pp" => (format!("%.{}f", f[2]), Value::from(7.0)),
                "pg" => (format!("%.{}g", f[2]), Value::from(1.5)),
                "ph" => (format!("%.{}g", f[2]), Value::from(0.0001234)),
                "sh" => (format!("{{:.{}g}}", f[2]), Value::from(0.0001234)),
                "sw" => (format!("{{:{}}}", f[2]), Value::from(7)),
                "sz" => (format!("{{:0{}}}", f[2]), Value::from(7)),
                "sc" => (format!("{{:^{}}}", f[2]), Value::from(7)),
                "sp" => (format!("{{:.{}f}}", f[2]), Value::from(7.0)),
                _ => (format!("{{:.{}g}}", f[2]), Value::from(1.5)),
            };
            if f[1].starts_with('p') {
                let v = env.compile_expression("spec|format(x)|length")?.eval(context! { spec => spec, x => arg })?;
                Ok(format!("ok:{}", v))
            } else {
                let out = minijinja::formatting::format(minijinja::formatting::FormatStyle::StrFormat, &spec, &[arg])?;
                Ok(format!("ok:{}", out.len()))
            }
        })),
        // k batch LEN N FILL / k slicef LEN N FILL → ok:l1,l2,…
        "batch" | "slicef" => finish(guarded(|| {
            let l: i64 = f[1].parse().unwrap();
            let xs: Vec<i64> = (0..l).collect();
            let name = if f[0] == "batch" { "batch" } else { "slice" };
            let src = if f[3] == "1" { format!("xs|{}(n, 'F')", name) } else { format!("xs|{}(n)", name) };
            let ex = env.compile_expression_owned(src)?;
            let v = ex.eval(context! { xs => xs, n => int_value(f[2]) })?;
            let mut lens = vec![];
            for sub in v.try_iter()?.take(100_000) {
                lens.push(sub.len().unwrap_or(usize::MAX).to_string());
            }
            let total = v.len().unwrap_or(usize::MAX);
            Ok(format!("ok:{}:{}", total, lens.iter().take(12).cloned().collect::<Vec<_>>().join(",")))
        })),
        // k lexcol NL PAD TAIL → err:<line>:<spaces>:<carets> read back from the debug info
        "lexcol" => {
            let nl: usize = f[1].parse().unwrap();
            let pad: usize = f[2].parse().unwrap();
            let tail = match f[3] {
                "str" => "{{ 'abc }}",
                "tok" => "{{ 1 1 }}",
                "chr" => "{{ ? }}",
                "blk" => "{% nope %}",
                "eof" => "{{ (",
                "mb" => "{{ € }}",
                "ml" => "{{ x.y(1,\n 2) }}",
                "call" => "{{ x.y.z(1) }}",
                _ => "{{ 1 + }}",
            };
            let src = format!("{}{}{}", "\n".repeat(nl), " ".repeat(pad), tail);
            let r = guarded(|| {
                let mut env = make_env(None);
                env.add_template_owned("case.txt".to_string(), src.clone())?;
                env.get_template("case.txt")?.render(context! { x => context!{ y => 1 } })
            });
            match r {
                Ok(Ok(out)) => format!("ok:{}", out.len()),
                Ok(Err(e)) => match guarded(|| {
                    fmt_error(&e);
                    let dbg = format!("{}", e.display_debug_info());
                    let mut caret = "none".to_string();
                    for l in dbg.lines() {
                        if let Some(rest) = l.strip_prefix("     i ") {
                            let sp = rest.len() - rest.trim_start_matches(' ').len();
                            let ca = rest.trim_start_matches(' ');
                            let ca = ca.len() - ca.trim_start_matches('^').len();
                            // with no caret the separating blank is counted among the spaces
                            let sp = if ca == 0 { sp.saturating_sub(1) } else { sp };
                            caret = format!("{}:{}", sp, ca);
                        }
                    }
                    format!("err:{}:{}:{}", error_kind_name(&e), e.line().unwrap_or(0), caret)
                }) {
                    Ok(s) => s,
                    Err(_) => format!("panic-fmt:{}", last_panic()),
                },
                Err(_) => format!("panic:{}", last_panic()),
            }
        }
        // k loopattr LEN SIZED → ok:<index0:index:length:revindex:revindex0:first:last:depth:depth0;…>
        "loopattr" => finish(guarded(|| {
            let l: i64 = f[1].parse().unwrap();
            let it = if f[2] == "1" { Value::from((0..l).collect::<Vec<_>>()) } else { Value::make_iterable(move || (0..l).filter(|_| true)) };
            let src = "{% for x in it %}{{ loop.index0 }}:{{ loop.index }}:{{ loop.length }}:{{ loop.revindex }}:{{ loop.revindex0 }}:{{ loop.first }}:{{ loop.last }}:{{ loop.depth }}:{{ loop.depth0 }};{% endfor %}";
            let out = env.render_str(src, context! { it => it })?;
            Ok(format!("ok:{}", out))
        })),
        // k localid <filter|test> K → ok:<local id of every ApplyFilter / PerformTest of a template that uses K
        // distinct names, in instruction order> (compared with the model of `get_local_id`)
        "localid" => finish(guarded(|| {
            let k: usize = f[2].parse().unwrap();
            let mut src = String::new();
            for i in 0..k {
                if f[1] == "filter" {
                    src.push_str(&format!("{{{{ x|{} }}}}", wide_name("f", i)));
                } else {
                    src.push_str(&format!("{{{{ x is {} }}}}", wide_name("t", i)));
                }
            }
            // every name once more, in reverse: ids are per name, not per use
            for i in (0..k).rev().take(3) {
                if f[1] == "filter" {
                    src.push_str(&format!("{{{{ x|{} }}}}", wide_name("f", i)));
                } else {
                    src.push_str(&format!("{{{{ x is {} }}}}", wide_name("t", i)));
                }
            }
            let mut env = make_wide_env();
            env.add_template_owned("case.txt".to_string(), src)?;
            let t = env.get_template("case.txt")?;
            let c = minijinja::machinery::get_compiled_template(&t);
            let mut ids = vec![];
            let mut pc = 0u32;
            while let Some(i) = c.instructions.get(pc) {
                match i {
                    minijinja::machinery::Instruction::ApplyFilter(_, _, id) | minijinja::machinery::Instruction::PerformTest(_, _, id) => ids.push(id.to_string()),
                    _ => {}
                }
                pc += 1;
            }
            Ok(format!("ok:{}", ids.join(",")))
        })),
        // k mergedepth PATTERN SIZED K → ok:bounded | ok:grows:<bytes>   after K rounds of an accumulate
        // pattern around a `StackProbe` leaf, is the native stack at the leaf (while the result is iterated)
        // still what it was after 64 rounds?  (the lazy-concat depth accounting bounds the nesting)
        "mergedepth" => finish(guarded(|| {
            let k: usize = f[3].parse().unwrap();
            let expr = match f[1] {
                "af" => "ns.acc + [i]",
                "fa" => "[i] + ns.acc",
                "aff" => "ns.acc + ([i] + [i])",
                "ffa" => "([i] + [i]) + ns.acc",
                "faf" => "[i] + ns.acc + [i]",
                "ffaff" => "([i] + [i]) + ns.acc + ([i] + [i])",
                "ca" => "ns.acc|chain([i])",
                "ac" => "[i]|chain(ns.acc)",
                "cfa" => "([i]|chain([i]))|chain(ns.acc)",
                "cafc" => "[i]|chain(ns.acc, [i]|chain([i]))",
                "mix" => "([i]|chain([i])) + ns.acc",
                _ => "(it + it) + ns.acc",
            };
            let src = format!("{{% set ns = namespace(acc=probe) %}}{{% for i in range(n) %}}{{% set ns.acc = {} %}}{{% endfor %}}{{% for x in ns.acc %}}{{% endfor %}}", expr);
            let measure = |rounds: usize| -> Result<usize, Error> {
                let base = 0u8;
                STACK_MARKS.with(|m| m.set((&base as *const u8 as usize, 0)));
                env.render_str(&src, context! { probe => Value::from_object(StackProbe { sized: f[2] == "1" }), n => rounds,
                    it => Value::make_iterable(|| (0..2i64).filter(|_| true)) })?;
                let (b, d) = STACK_MARKS.with(|m| m.get());
                STACK_MARKS.with(|m| m.set((0, 0)));
                Ok(if d == 0 { 0 } else { b.saturating_sub(d) })
            };
            let plateau = measure(64)?;
            let at_k = measure(k)?;
            if plateau == 0 || at_k == 0 {
                Ok("ok:leaf-not-reached".to_string())
            } else if at_k <= 2 * plateau + 16_384 {
                Ok("ok:bounded".to_string())
            } else {
                Ok(format!("ok:grows:{}:{}", plateau, at_k))
            }
        })),
        // k loopesc LEN SIZED BRK → ok:<attrs of the loop object read AFTER its loop> (the object escapes
        // through a namespace; BRK = leave at the first item, otherwise the loop is exhausted)
        "loopesc" => finish(guarded(|| {
            let l: i64 = f[1].parse().unwrap();
            let it = if f[2] == "1" { Value::from((0..l).collect::<Vec<_>>()) } else { Value::make_iterable(move || (0..l).filter(|_| true)) };
            let src = "{% set ns = namespace() %}{% for x in it %}{% set ns.l = loop %}{% if brk %}{% break %}{% endif %}{% endfor %}\
                {{ ns.l.index0 }}:{{ ns.l.index }}:{{ ns.l.length }}:{{ ns.l.revindex }}:{{ ns.l.revindex0 }}:{{ ns.l.first }}:{{ ns.l.last }}:{{ ns.l.depth }}:{{ ns.l.depth0 }};";
            let out = env.render_str(src, context! { it => it, brk => f[3] == "1" })?;
            Ok(format!("ok:{}", out.trim()))
        })),
        // k nestamp POS K <derivation> → the derivation substituted K times into its own POS-th leaf
        // (directed search after a `nest` disagreement: a leak of the chain accounting compounds)
        "nestamp" => {
            let pos: usize = f[1].parse().unwrap_or(0);
            let k: usize = f[2].parse().unwrap_or(1);
            let d = f[3];
            let leaves: Vec<usize> = d.char_indices().filter(|(i, c)| *c == 'x' && (*i == 0 || d.as_bytes()[*i - 1] != b'*')).map(|(i, _)| i).collect();
            let at = match leaves.get(pos) {
                Some(a) => *a,
                None => return "bad-case".into(),
            };
            let mut cur = d.to_string();
            for _ in 0..k {
                cur = format!("{}{}{}", &d[..at], cur, &d[at + 1..]);
                if cur.len() > 4_000_000 {
                    break;
                }
            }
            let src = match nest_parse(cur.as_bytes(), &mut 0) {
                Some(n) => nest_source(&n),
                None => return "bad-case".into(),
            };
            match guarded(|| {
                let ex = env.compile_expression_owned(src)?;
                ex.eval(ctx_zoo(0)).map(|v| v.to_string().len())
            }) {
                Ok(Ok(_)) => "ok".into(),
                Ok(Err(e)) => {
                    let dd = e.detail().unwrap_or("").to_string();
                    if dd.contains("nested too deeply") { "err-chain".into() } else if dd.contains("recursion limit") { "err-rec".into() } else { format!("err-other:{}", error_kind_name(&e)) }
                }
                Err(_) => format!("panic:{}", last_panic()),
            }
        }
        // k zpad STYLE D W → ok:<len>   zero padding of a grouped D-digit number to width W
        // (c `{:0W,d}`, u `{:0W_d}`, x `{:0W_x}` of 10^(D-1) resp. 16^(D-1))
        "zpad" => finish(guarded(|| {
            let d: u32 = f[2].parse().unwrap();
            let (spec, v) = match f[1] {
                "c" => (format!("{{:0{},d}}", f[3]), 10i128.pow(d - 1)),
                "u" => (format!("{{:0{}_d}}", f[3]), 10i128.pow(d - 1)),
                _ => (format!("{{:0{}_x}}", f[3]), 16i128.pow(d - 1)),
            };
            let out = minijinja::formatting::format(minijinja::formatting::FormatStyle::StrFormat, &spec, &[Value::from(v)])?;
            Ok(format!("ok:{}", out.len()))
        })),
        // k nest <derivation> → ok | err-chain | err-rec: the verdict of the real parser on the source a
        // parse derivation (`MJ/Model/Nesting.lean: P`) unparses to
        "nest" => {
            let src = match nest_parse(f[1].as_bytes(), &mut 0) {
                Some(n) => nest_source(&n),
                None => return "bad-case".into(),
            };
            match guarded(|| env.compile_expression_owned(src).map(|_| ())) {
                Ok(Ok(())) => "ok".into(),
                Ok(Err(e)) => {
                    let d = e.detail().unwrap_or("").to_string();
                    if d.contains("nested too deeply") {
                        "err-chain".into()
                    } else if d.contains("recursion limit") {
                        "err-rec".into()
                    } else {
                        format!("err-other:{}", error_kind_name(&e))
                    }
                }
                Err(_) => format!("panic:{}", last_panic()),
            }
        }
        _ => "bad-case".into(),
    }
}

// ---- parse derivations (ast_depth_bound correspondence) ---------------------------------------------
enum Nest {
    Leaf,
    Chain(u8, Box<Nest>, Vec<(usize, Nest)>),
    Group(Vec<(usize, Nest)>),
}

/// `x` | `c<kind>(P,Rep,…)` | `g(Rep,…)` with `Rep` = `[n*]P`
fn nest_parse(b: &[u8], i: &mut usize) -> Option<Nest> {
    fn rep(b: &[u8], i: &mut usize) -> Option<(usize, Nest)> {
        let mut n = 1usize;
        if b.get(*i)?.is_ascii_digit() {
            n = 0;
            while b.get(*i)?.is_ascii_digit() {
                n = n * 10 + (b[*i] - b'0') as usize;
                *i += 1;
            }
            if b.get(*i) != Some(&b'*') {
                return None;
            }
            *i += 1;
        }
        Some((n, nest_parse(b, i)?))
    }
    fn reps(b: &[u8], i: &mut usize, v: &mut Vec<(usize, Nest)>) -> Option<()> {
        loop {
            match b.get(*i)? {
                b')' => {
                    *i += 1;
                    return Some(());
                }
                b',' => {
                    *i += 1;
                    v.push(rep(b, i)?);
                }
                _ => return None,
            }
        }
    }
    match b.get(*i)? {
        b'x' => {
            *i += 1;
            Some(Nest::Leaf)
        }
        b'c' => {
            let k = *b.get(*i + 1)?;
            if b.get(*i + 2) != Some(&b'(') {
                return None;
            }
            *i += 3;
            let left = nest_parse(b, i)?;
            let mut its = vec![];
            reps(b, i, &mut its)?;
            Some(Nest::Chain(k, Box::new(left), its))
        }
        b'g' => {
            if b.get(*i + 1) != Some(&b'(') {
                return None;
            }
            *i += 2;
            let mut items = vec![];
            if b.get(*i) == Some(&b')') {
                *i += 1;
                return Some(Nest::Group(items));
            }
            items.push(rep(b, i)?);
            reps(b, i, &mut items)?;
            Some(Nest::Group(items))
        }
        _ => None,
    }
}

/// the source text whose parse is the derivation: a group is a list literal, a chain one of
/// `L|f(I)…` (f), `L(I)…` (c), `L.a…` (a, iterations without sub-expression), `L + I…` (p),
/// `L if I…` (i); non-trivial operands are parenthesised (the guard levels this adds are not compared)
fn nest_source(n: &Nest) -> String {
    fn operand(n: &Nest) -> String {
        match n {
            Nest::Leaf => "x".into(),
            Nest::Group(_) => nest_source(n),
            Nest::Chain(..) => format!("({})", nest_source(n)),
        }
    }
    match n {
        Nest::Leaf => "x".into(),
        Nest::Group(items) => {
            let mut parts = vec![];
            for (k, it) in items {
                let s = nest_source(it);
                for _ in 0..*k {
                    parts.push(s.clone());
                }
            }
            format!("[{}]", parts.join(", "))
        }
        Nest::Chain(kind, left, its) => {
            let mut s = operand(left);
            for (k, it) in its {
                let piece = match kind {
                    b'f' => format!("|f({})", nest_source(it)),
                    b'c' => format!("({})", nest_source(it)),
                    b'a' => ".a".to_string(),
                    b'p' => format!(" + {}", operand(it)),
                    _ => format!(" if {}", operand(it)),
                };
                for _ in 0..*k {
                    s.push_str(&piece);
                }
            }
            s
        }
    }
}

// ---- depth probes ----------------------------------------------------------------------------
const PARSER_RS: &str = include_str!("/repo/minijinja/src/compiler/parser.rs");

/// `MAX_EXPR_NESTING` of the parser this binary was built against
fn max_expr_nesting() -> usize {
    let key = "const MAX_EXPR_NESTING: usize = ";
    PARSER_RS
        .find(key)
        .and_then(|i| {
            let rest = &PARSER_RS[i + key.len()..];
            let digits: String = rest.chars().take_while(|c| c.is_ascii_digit() || *c == '_').filter(|c| *c != '_').collect();
            digits.parse().ok()
        })
        .unwrap_or(1000)
}

pub const CHAIN_KINDS: &[&str] = &["attr", "item", "call", "filter", "test", "binop", "ternary"];
pub const GROUP_KINDS: &[&str] = &["paren", "list", "map", "callarg", "filterarg", "slice", "dictval"];
pub const PLACEMENTS: &[&str] = &["expr", "for", "if", "set", "macrodef", "callblk", "with"];

fn chain_suffix(ck: &str) -> &'static str {
    match ck {
        "attr" => ".a",
        "item" => "[0]",
        "call" => "()",
        "filter" => "|e",
        "test" => " is defined",
        "binop" => "+1",
        _ => " if 1",
    }
}

fn group_wrap(pk: &str, inner: &str) -> String {
    match pk {
        "paren" => format!("({})", inner),
        "list" => format!("[{}][0]", inner),
        "map" => format!("{{'k': {}}}.k", inner),
        "callarg" => format!("f({})", inner),
        "filterarg" => format!("x|f({})", inner),
        "slice" => format!("x[{}:]", inner),
        _ => format!("{{'k': {}}}", inner),
    }
}

/// `groups` chains of `per` items each, stacked on one path through the grouping primary
fn stacked_chains(ck: &str, pk: &str, groups: usize, per: usize) -> String {
    let mut e = format!("x{}", chain_suffix(ck).repeat(per));
    for _ in 1..groups {
        e = format!("{}{}", group_wrap(pk, &e), chain_suffix(ck).repeat(per));
    }
    e
}

fn place(pl: &str, expr: &str) -> String {
    match pl {
        "expr" => format!("{{{{ {} }}}}", expr),
        "for" => format!("{{% for a in {} %}}{{% endfor %}}", expr),
        "if" => format!("{{% if {} %}}{{% endif %}}", expr),
        "set" => format!("{{% set a = {} %}}", expr),
        "macrodef" => format!("{{% macro mm(p={}) %}}{{% endmacro %}}{{{{ mm() }}}}", expr),
        "callblk" => format!("{{% macro mm(p) %}}{{% endmacro %}}{{% call mm({}) %}}{{% endcall %}}", expr),
        _ => format!("{{% with a = {} %}}{{% endwith %}}", expr),
    }
}

fn depth_source(kind: &str, n: usize) -> (String, bool) {
    // (source, is_template); a suffix `@html` / `@json` selects the auto-escape mode the probe is rendered under
    let kind = kind.split('@').next().unwrap_or(kind);
    let rep = |s: &str| s.repeat(n);
    // stk:<chain>:<group>:<placement> n  — n chains of (limit - 1) items stacked through a grouping
    // primary: the nesting accounting must refuse it (the longest path has n·(limit-1) loop-built
    // nodes); if it does not, the AST is that deep
    // stkmax:<chain>:<group>:<placement> n — the same shape with the limit shared among the n chains:
    // about the deepest input the parser accepts
    let parts: Vec<&str> = kind.split(':').collect();
    if parts[0] == "acc" && parts.len() == 5 {
        // acc:<op>:<order>:<other>:<start> n — n rounds of `acc = acc OP other` (a value-building operator
        // or filter applied to its own previous result), then the result is iterated, measured and dropped
        let other = match parts[3] {
            "list" => "[i]",
            "range" => "range(2)",
            "tuple" => "(i,)",
            "lazy" => "it",
            "str" => "'ab'",
            "safe" => "safe",
            "map" => "{'k': i}",
            "fresh" => match parts[1] {
                "chain" => "([i]|chain([i]))",
                "tilde" => "('a' ~ i)",
                _ => "([i] + [i])",
            },
            _ => "[i]",
        };
        let a = "ns.acc";
        let expr = match (parts[1], parts[2]) {
            ("add", "first") => format!("{} + {}", a, other),
            ("add", "last") => format!("{} + {}", other, a),
            ("add", _) => format!("{} + {} + {}", other, a, other),
            ("chain", "first") => format!("{}|chain({})", a, other),
            ("chain", "last") => format!("{}|chain({})", other, a),
            ("chain", _) => format!("{}|chain({}, {})", other, a, other),
            ("tilde", "first") => format!("{} ~ {}", a, other),
            ("tilde", "last") => format!("{} ~ {}", other, a),
            ("tilde", _) => format!("{} ~ {} ~ {}", other, a, other),
            ("mul", _) => format!("{} * 1", a),
            ("dict", _) => format!("dict({}, k=i)", a),
            ("filter", f) => format!("{}|{}", a, match f {
                "map" => "map('string')", "select" => "select", "reject" => "reject('none')", "batch" => "batch(3)|first",
                "slice" => "slice(1)|first", "reverse" => "reverse", "list" => "list", "unique" => "unique", "sort" => "sort",
                "items" => "items", "default" => "default([])", "lines" => "string|lines", "zip" => "zip(xs)|map('first')",
                "groupby" => "groupby(0)|map('last')|first|default([])", "sliceexpr" => "list", _ => "list",
            }),
            ("slice", _) => format!("{}[:]", a),
            ("slicerev", _) => format!("{}[::-1]", a),
            _ => a.to_string(),
        };
        let start = match parts[4] {
            "sized" => "[]",
            "unsized" => "it",
            "str" => "''",
            "map" => "{}",
            _ => "[1, 2]",
        };
        let src = format!(
            "{{% set ns = namespace(acc={}) %}}{{% for i in range({}) %}}{{% set ns.acc = {} %}}{{% endfor %}}{{% set c = namespace(n=0) %}}{{% for x in ns.acc %}}{{% set c.n = c.n + 1 %}}{{% endfor %}}{{{{ c.n }}}}",
            start, n.min(100_000), expr
        );
        return (src, true);
    }
    if parts[0] == "w" && parts.len() == 2 {
        // width probes: n distinct / adjacent things of one kind in one template
        let each = |f: &dyn Fn(usize) -> String| -> String { (0..n).map(f).collect::<Vec<_>>().join("") };
        let list = |f: &dyn Fn(usize) -> String| -> String { (0..n).map(f).collect::<Vec<_>>().join(", ") };
        let src = match parts[1] {
            "filters" => each(&|i| format!("{{{{ x|{} }}}}", wide_name("f", i))),
            "tests" => each(&|i| format!("{{{{ x is {} }}}}", wide_name("t", i))),
            "filterchain" => format!("{{{{ x{} }}}}", each(&|i| format!("|{}", wide_name("f", i)))),
            "filterblk" => format!("{{% filter {} %}}v{{% endfilter %}}", (0..n.max(1)).map(|i| wide_name("f", i)).collect::<Vec<_>>().join("|")),
            "macros" => format!("{}{}", each(&|i| format!("{{% macro m{}() %}}{}{{% endmacro %}}", i, i)), each(&|i| format!("{{{{ m{}() }}}}", i))),
            "blocks" => each(&|i| format!("{{% block b{} %}}{}{{% endblock %}}", i, i)),
            "vars" => each(&|i| format!("{{{{ v{} }}}}", i)),
            "sets" => format!("{}{}", each(&|i| format!("{{% set v{} = {} %}}", i, i)), each(&|i| format!("{{{{ v{} }}}}", i))),
            "kwargs" => format!("{{{{ dict({})|length }}}}", list(&|i| format!("k{}={}", i, i))),
            "callargs" => format!("{{{{ echo({})|length }}}}", list(&|i| i.to_string())),
            "macroargs" => format!("{{% macro mm({}) %}}{{{{ a0 }}}}{{% endmacro %}}{{{{ mm({}) }}}}", list(&|i| format!("a{}", i)), list(&|i| i.to_string())),
            "macrodefaults" => format!("{{% macro mm({}) %}}{{{{ a0 }}}}{{% endmacro %}}{{{{ mm() }}}}", list(&|i| format!("a{}={}", i, i))),
            "callblkargs" => format!("{{% macro mm() %}}{{{{ caller({}) }}}}{{% endmacro %}}{{% call({}) mm() %}}{{{{ a0 }}}}{{% endcall %}}", list(&|i| i.to_string()), list(&|i| format!("a{}", i))),
            "with" => format!("{{% with {} %}}{{{{ a0 }}}}{{% endwith %}}", list(&|i| format!("a{}={}", i, i))),
            "looptargets" => format!("{{% for {} in [range({})|list] %}}{{{{ a0 }}}}{{% endfor %}}", list(&|i| format!("a{}", i)), n),
            "unpack" => format!("{{% set {} = range({}) %}}{{{{ a0 }}}}", list(&|i| format!("a{}", i)), n),
            "includelist" => format!("{{% include [{}'inc.txt'] %}}", each(&|i| format!("'nosuch{}', ", i))),
            "includes" => each(&|_| "{% include 'inc.txt' %}".to_string()),
            "imports" => format!("{{% from 'wide.txt' import {} %}}{{{{ m0() }}}}", list(&|i| format!("m{}", i))),
            "importas" => each(&|i| format!("{{% import 'macros.txt' as i{} %}}", i)),
            "nsattrs" => format!("{{% set ns = namespace() %}}{}{{{{ ns|length }}}}", each(&|i| format!("{{% set ns.a{} = {} %}}", i, i))),
            "nskwargs" => format!("{{{{ namespace({})|length }}}}", list(&|i| format!("a{}={}", i, i))),
            "closure" => format!("{}{{% macro cl() %}}{}{{% endmacro %}}{{{{ cl()|length }}}}", each(&|i| format!("{{% set v{} = {} %}}", i, i)), each(&|i| format!("{{{{ v{} }}}}", i))),
            "dotted" => format!("{{{{ x|a{} }}}}", each(&|_| ".b".to_string())),
            "loops" => each(&|_| "{% for q in [1] %}{{ loop.index }}{% endfor %}".to_string()),
            "ifs" => each(&|i| format!("{{% if x == {} %}}a{{% endif %}}", i)),
            "lines" => each(&|i| format!("{{{{ {} }}}}\n", i)),
            "longline" => format!("{}{{{{ 1 + }}}}", " ".repeat(n)),
            "longname" => format!("{{{{ {} }}}}{{{{ x.{} }}}}{{{{ x|{} }}}}", "v".repeat(n.max(1)), "a".repeat(n.max(1)), "f".repeat(n.max(1))),
            "longstr" => format!("{{{{ '{}'|length }}}}", "s".repeat(n)),
            "bigint" => format!("{{{{ {} }}}}", "9".repeat(n.max(1))),
            // the VALUE n (and its neighbours) printed, negated, converted, formatted, as a loop index
            "intval" => format!("{{{{ {n} }}}}{{{{ -{n} }}}}{{{{ {n}|string }}}}{{{{ [{m}, {n}, {p}] }}}}{{{{ {n} ~ '' }}}}{{{{ '%d|%5d|%x'|format({n}, {m}, {p}) }}}}{{{{ {{'k': {n}}} }}}}{{{{ {n}|tojson }}}}{{{{ ({n} + 0)|abs }}}}{{% for i in range({m}, {p} + 1) %}}{{{{ i }}}}{{{{ loop.index }}}}{{% endfor %}}{{{{ {n}.5 }}}}{{{{ {n}|float }}}}", n = n, m = n.saturating_sub(1), p = n + 1),
            "loopindex" => format!("{{% for i in range({}) %}}{{{{ loop.index0 }}}}{{{{ loop.revindex }}}}{{% endfor %}}{{% for i in range({}) %}}{{{{ i }}}}{{% endfor %}}", (n + 2).min(70_000), (n + 2).min(70_000)),
            _ => String::new(),
        };
        return (src, true);
    }
    if (parts[0] == "stk" || parts[0] == "stkmax") && parts.len() == 4 {
        let limit = max_expr_nesting();
        let per = if parts[0] == "stk" { limit.saturating_sub(1) } else { (limit / n.max(1)).saturating_sub(2) };
        return (place(parts[3], &stacked_chains(parts[1], parts[2], n.max(1), per)), true);
    }
    match kind {
        "paren" => (format!("{}1{}", rep("("), rep(")")), false),
        "not" => (format!("{}x", rep("not ")), false),
        "neg" => (format!("{}x", rep("- ")), false),
        "negc" => (format!("{}1", rep("-")), false),
        "add" => (format!("1{}", rep("+1")), false),
        "addv" => (format!("x{}", rep("+x")), false),
        "mul" => (format!("1{}", rep("*1")), false),
        "pow" => (format!("1{}", rep("**1")), false),
        "concat" => (format!("x{}", rep("~x")), false),
        "and" => (format!("x{}", rep(" and x")), false),
        "or" => (format!("x{}", rep(" or x")), false),
        "cmp" => (format!("1{}", rep("<1")), false),
        "attr" => (format!("x{}", rep(".a")), false),
        "item" => (format!("x{}", rep("[0]")), false),
        "dotint" => (format!("x{}", rep(".0")), false),
        "call" => (format!("x{}", rep("()")), false),
        "slice" => (format!("x{}", rep("[:]")), false),
        "filter" => (format!("x{}", rep("|e")), false),
        "test" => (format!("x{}", rep(" is defined")), false),
        "testarg" => (format!("x is eq {}1", rep("-")), false),
        "ifexpr" => (format!("{}1", rep("1 if x else ")), false),
        "ifexprl" => (format!("1{}", rep(" if x")), false),
        "list" => (format!("{}{}", rep("["), rep("]")), false),
        "map" => (format!("{}1{}", rep("{1:"), rep("}")), false),
        "tuple" => (format!("{}1{}", rep("("), rep(",)")), false),
        "callarg" => (format!("{}1{}", rep("f("), rep(")")), false),
        "kwarg" => (format!("{}1{}", rep("f(a="), rep(")")), false),
        "subscr" => (format!("{}0{}", rep("x["), rep("]")), false),
        "if" => (format!("{}x{}", rep("{% if 1 %}"), rep("{% endif %}")), true),
        "elif" => (format!("{{% if 0 %}}{}{{% endif %}}", rep("{% elif 0 %}")), true),
        "else_if" => (format!("{}{}", rep("{% if 0 %}{% else %}"), rep("{% endif %}")), true),
        "for" => (format!("{}x{}", rep("{% for a in [1] %}"), rep("{% endfor %}")), true),
        "with" => (format!("{}x{}", rep("{% with a=1 %}"), rep("{% endwith %}")), true),
        "block" => {
            let mut s = String::new();
            for i in 0..n {
                s.push_str(&format!("{{% block b{} %}}", i));
            }
            s.push('x');
            s.push_str(&rep("{% endblock %}"));
            (s, true)
        }
        "filterblk" => (format!("{}x{}", rep("{% filter upper %}"), rep("{% endfilter %}")), true),
        "filterchain" => (format!("{{% filter upper{} %}}x{{% endfilter %}}", rep("|upper")), true),
        "setchain" => (format!("{{% set y{} %}}x{{% endset %}}", rep("|upper")), true),
        "setblk" => (format!("{}x{}", rep("{% set y %}"), rep("{% endset %}")), true),
        "autoescape" => (format!("{}x{}", rep("{% autoescape true %}"), rep("{% endautoescape %}")), true),
        "macro" => {
            let mut s = String::new();
            for i in 0..n {
                s.push_str(&format!("{{% macro m{}() %}}", i));
            }
            s.push('x');
            s.push_str(&rep("{% endmacro %}"));
            (s, true)
        }
        "callblk" => (format!("{{% macro m() %}}{{{{ caller() }}}}{{% endmacro %}}{}x{}", rep("{% call m() %}"), rep("{% endcall %}")), true),
        "assign" => (format!("{{% for {}a{} in [] %}}{{% endfor %}}", rep("("), rep(")")), true),
        "assigntuple" => (format!("{{% for {}a{} in [] %}}{{% endfor %}}", rep("("), rep(",)")), true),
        "setdots" => (format!("{{% set ns = namespace() %}}{{% set ns{} = 1 %}}", rep(".a")), true),
        "withassign" => (format!("{{% with {}a{} = 1 %}}{{% endwith %}}", rep("("), rep(")")), true),
        "include" => {
            // run-time nesting: a template that includes itself n deep through a counter
            ("{% if k is undefined %}{% set k = 0 %}{% endif %}{% if k < N %}{% set k = k + 1 %}{% include 'case.txt' %}{% endif %}".replace("N", &n.to_string()), true)
        }
        "macrorec" => (format!("{{% macro r(k) %}}{{% if k > 0 %}}{{{{ r(k - 1) }}}}{{% endif %}}{{% endmacro %}}{{{{ r({}) }}}}", n), true),
        "looprec" => (format!("{{% for k in [{}] recursive %}}{{% if k > 0 %}}{{{{ loop([k - 1]) }}}}{{% endif %}}{{% endfor %}}", n), true),
        "concatlist" => (format!("{{% set a = [] %}}{{% for i in range({}) %}}{{% set a = a + [i] %}}{{% endfor %}}{{% set a = a + [0] %}}", n.min(100_000)), true),
        "loopconcat" => (format!("{{% set ns = namespace(a=[]) %}}{{% for i in range({}) %}}{{% set ns.a = ns.a + [i] %}}{{% endfor %}}{{{{ ns.a|length }}}}{{{{ ns.a|last }}}}", n.min(100_000)), true),
        "loopstr" => (format!("{{% set ns = namespace(a='') %}}{{% for i in range({}) %}}{{% set ns.a = ns.a ~ 'x' %}}{{% endfor %}}{{{{ ns.a|length }}}}", n.min(100_000)), true),
        "nestlist" => (format!("{{% set ns = namespace(a=[]) %}}{{% for i in range({}) %}}{{% set ns.a = [ns.a] %}}{{% endfor %}}{{{{ ns.a|length }}}}", n.min(100_000)), true),
        "nestlistshow" => (format!("{{% set ns = namespace(a=[]) %}}{{% for i in range({}) %}}{{% set ns.a = [ns.a] %}}{{% endfor %}}{{{{ ns.a }}}}{{{{ ns.a|tojson }}}}{{{{ ns.a == ns.a }}}}", n.min(100_000)), true),
        "nestmap" => (format!("{{% set ns = namespace(a={{}}) %}}{{% for i in range({}) %}}{{% set ns.a = {{'k': ns.a}} %}}{{% endfor %}}{{{{ ns.a|length }}}}", n.min(100_000)), true),
        "data" => (format!("{}", rep("a{{ 1 }}")), true),
        "stmts" => (format!("{}", rep("{% set a = 1 %}")), true),
        "listitems" => (format!("{{{{ [{}]|length }}}}", rep("1,")), true),
        "mapitems" => {
            let mut s = String::from("{{ {");
            for i in 0..n {
                s.push_str(&format!("{}:1,", i));
            }
            s.push_str("}|length }}");
            (s, true)
        }
        "args" => (format!("{{{{ echo({})|length }}}}", rep("1,")), true),
        "strlit" => (format!("{{{{ {} }}}}", rep("'a' ")), true),
        "cmpchain" => (format!("{{{{ 1{} }}}}", rep(" < 2")), true),
        _ => ("".into(), false),
    }
}

pub const WIDTH_KINDS: &[&str] = &[
    "filters", "tests", "filterchain", "filterblk", "macros", "blocks", "vars", "sets", "kwargs", "callargs", "macroargs", "macrodefaults",
    "callblkargs", "with", "looptargets", "unpack", "includelist", "includes", "imports", "importas", "nsattrs", "nskwargs", "closure",
    "dotted", "loops", "ifs", "lines", "longline", "longname", "longstr", "bigint", "intval", "loopindex",
];

/// integer constants of `compiler/` and `vm/` (and the limits in `utils.rs`): `const NAME: T = N`,
/// `with_capacity(N)`, `> N` / `>= N` comparisons with literals, plus the widths of the integer types
/// used for ids, argument counts and spans — the quantities a template's *width* can run into
fn width_constants() -> Vec<usize> {
    let sources = [
        include_str!("/repo/minijinja/src/compiler/codegen.rs"), include_str!("/repo/minijinja/src/compiler/instructions.rs"),
        include_str!("/repo/minijinja/src/compiler/lexer.rs"), PARSER_RS, include_str!("/repo/minijinja/src/compiler/tokens.rs"),
        include_str!("/repo/minijinja/src/compiler/meta.rs"), include_str!("/repo/minijinja/src/vm/mod.rs"),
        include_str!("/repo/minijinja/src/vm/context.rs"), include_str!("/repo/minijinja/src/vm/state.rs"),
        include_str!("/repo/minijinja/src/vm/macro_object.rs"), include_str!("/repo/minijinja/src/vm/loop_object.rs"),
        include_str!("/repo/minijinja/src/utils.rs"), include_str!("/repo/minijinja/src/environment.rs"),
    ];
    let mut v: Vec<usize> = vec![255, 256, 65535, 65536]; // u8 (LocalId), u16 (argument counts, lines, columns)
    for src in sources {
        for pat in ["with_capacity(", "= ", "> ", ">= ", ".min("] {
            let mut i = 0;
            while let Some(p) = src[i..].find(pat) {
                let rest = &src[i + p + pat.len()..];
                let digits: String = rest.chars().take_while(|c| c.is_ascii_digit() || *c == '_').filter(|c| *c != '_').collect();
                let after = rest.chars().nth(digits.len());
                if !digits.is_empty() && digits.len() <= 6 && matches!(after, Some(';') | Some(')') | Some(' ') | Some('{')) {
                    if pat != "= " || src[..i + p].rsplit('\n').next().map_or(false, |l| l.contains("const ")) {
                        if let Ok(n) = digits.parse::<usize>() {
                            if n >= 2 {
                                v.push(n);
                            }
                        }
                    }
                }
                i += p + pat.len();
            }
        }
    }
    v.sort();
    v.dedup();
    v
}

pub const DEPTH_KINDS: &[&str] = &[
    "paren", "not", "neg", "negc", "add", "addv", "mul", "pow", "concat", "and", "or", "cmp", "attr", "item", "dotint",
    "call", "slice", "filter", "test", "testarg", "ifexpr", "ifexprl", "list", "map", "tuple", "callarg", "kwarg",
    "subscr", "if", "elif", "else_if", "for", "with", "block", "filterblk", "filterchain", "setchain", "setblk",
    "autoescape", "macro", "callblk", "assign", "assigntuple", "setdots", "withassign", "include", "macrorec",
    "looprec", "concatlist", "loopconcat", "loopstr", "nestlist", "nestlistshow", "nestmap", "data", "stmts",
    "listitems", "mapitems", "args", "strlit", "cmpchain",
];

/// stack of the thread an accumulate-loop probe runs on.  A wrapper that nests once per round costs
/// 100–250 bytes of native stack per level when the value is iterated or dropped; on a stack this small a
/// few thousand rounds decide between "nesting is bounded" and "nesting grows with the loop" — no need
/// for round counts that overflow the default stacks (and for the quadratic copying they bring).
fn acc_stack_bytes() -> usize {
    std::env::var("C01_ACC_STACK").ok().and_then(|s| s.parse().ok()).unwrap_or(ACC_STACK_KIB) * 1024
}
const ACC_STACK_KIB: usize = 256;

fn run_depth(kind: &str, n: usize) -> String {
    if kind.starts_with("acc:") && std::thread::current().name() != Some("acc-probe") {
        // build, iterate and drop the accumulated value on a small stack of its own
        let (kind, res) = (kind.to_string(), std::sync::Arc::new(Mutex::new(String::new())));
        let res2 = res.clone();
        let h = std::thread::Builder::new().name("acc-probe".into()).stack_size(acc_stack_bytes()).spawn(move || {
            let r = run_depth(&kind, n);
            *res2.lock().unwrap() = r;
        });
        return match h.map(|h| h.join()) {
            Ok(Ok(())) => res.lock().unwrap().clone(),
            _ => "panic:acc-probe thread".into(),
        };
    }
    let (src, is_tmpl) = depth_source(kind, n);
    if src.is_empty() {
        return "bad-case".into();
    }
    if is_tmpl {
        finish(guarded(|| {
            let mut env = if kind.starts_with("w:") { make_wide_env() } else { make_env(None) };
            if kind == "w:imports" {
                let wide: String = (0..n).map(|i| format!("{{% macro m{}() %}}{}{{% endmacro %}}", i, i)).collect();
                env.add_template_owned("wide.txt".to_string(), wide)?;
            }
            // the auto-escape mode of the probe: `@html` / `@json` (the output path differs per mode)
            let name = match kind.split_once('@').map(|x| x.1) {
                Some("html") => "case.html",
                Some("json") => "case.json",
                _ => "case.txt",
            };
            env.add_template_owned(name.to_string(), src)?;
            let out = env.get_template(name)?.render(ctx_zoo(0))?;
            Ok(format!("ok:{}", out.len()))
        }))
    } else {
        finish(guarded(|| {
            let env = make_env(None);
            let ex = env.compile_expression_owned(src)?;
            let v = ex.eval(ctx_zoo(0))?;
            Ok(format!("ok:{}", v.to_string().len()))
        }))
    }
}

const FMT_ARGSETS: usize = 26;

/// argument sets for the direct calls of `minijinja::formatting::format`
fn fmt_args(which: usize) -> Vec<Value> {
    use minijinja::value::Kwargs;
    let map = Value::from(Serde(serde_json::json!({"é": 1, "a": [1, 2], "k": {"é": "v", "0": 7}, "日本": "x"})));
    let kwargs = Value::from(Kwargs::from_iter([
        ("é", Value::from(1)),
        ("a", Value::from(vec![1, 2])),
        ("k", Value::from(Serde(serde_json::json!({"é": "v"})))),
        ("日本", Value::from("x")),
    ]));
    match which % FMT_ARGSETS {
        // 6..: one argument of every kind (the value a single conversion consumes)
        6 => vec![Value::from("é€𝄞")],
        7 => vec![Value::from("a€b")],
        8 => vec![Value::from("")],
        9 => vec![Value::from_safe_string("<é>".into())],
        10 => vec![Value::from(f64::NAN)],
        11 => vec![Value::from(-0.0f64)],
        12 => vec![Value::from(0.0001234f64)],
        13 => vec![Value::from(1e300f64)],
        14 => vec![Value::from(true)],
        15 => vec![Value::from(())],
        16 => vec![Value::UNDEFINED],
        17 => vec![Value::from(vec![Value::from("é"), Value::from(1)])],
        18 => vec![Value::from(u128::MAX)],
        19 => vec![Value::from(i64::MIN)],
        20 => vec![Value::from(i128::MIN)],
        21 => vec![Value::from(0)],
        22 => vec![Value::from(0x10FFFF)],
        23 => vec![Value::from(0xD800)],
        24 => vec![Value::from_bytes(vec![0xff, 0x00, 0xc3])],
        25 => vec![Value::from(-1)],
        0 => vec![],
        1 => vec![Value::from(1)],
        2 => vec![Value::from(1.5), Value::from("é€𝄞"), Value::from(-3)],
        3 => vec![map],
        4 => vec![Value::from(i128::MAX), Value::from(u64::MAX), Value::from(f64::NAN), Value::from(f64::NEG_INFINITY)],
        _ => vec![Value::from("é"), Value::from(65), kwargs],
    }
}

/// `f <p|s> <argset> <hex spec>`: the format engine called directly (what the `format` filter and
/// pycompat's `str.format` do)
fn run_format(style: &str, which: usize, spec: &str) -> String {
    use minijinja::formatting::{format, FormatStyle};
    finish(guarded(|| {
        let st = if style == "p" { FormatStyle::Printf } else { FormatStyle::StrFormat };
        let out = format(st, spec, &fmt_args(which))?;
        Ok(format!("ok:{}", out.len()))
    }))
}

fn run_case(case: &str) -> String {
    let f: Vec<&str> = case.split(' ').collect();
    match f[0] {
        "f" if f.len() == 4 => match String::from_utf8(unhex(f[3])) {
            Ok(s) => run_format(f[1], f[2].parse().unwrap_or(0), &s),
            Err(_) => "bad-utf8".into(),
        },
        "k" => run_kernel(&f[1..]),
        "t" if f.len() == 4 => match String::from_utf8(unhex(f[3])) {
            Ok(s) => run_template(f[1], f[2].parse().unwrap_or(0), &s),
            Err(_) => "bad-utf8".into(),
        },
        "e" if f.len() == 4 => match String::from_utf8(unhex(f[3])) {
            Ok(s) => run_expr(f[1], f[2].parse().unwrap_or(0), &s),
            Err(_) => "bad-utf8".into(),
        },
        "d" if f.len() == 3 => run_depth(f[1], f[2].parse().unwrap_or(0)),
        "c" if f.len() == 5 => run_compose(f[1], f[2].parse().unwrap_or(0), f[3].parse().unwrap_or(0), f[4]),
        _ => "bad-case".into(),
    }
}

include!("c01_compose.inc");

// ------------------------------------------------------------------------------------ operand stack
/// One token of the stack-relevant alphabet (`MJ/Model/Stk.lean: Instr`) per instruction.  The
/// match is exhaustive on purpose: a new instruction in the enum breaks the build of the harness
/// (= broken tie), it is never silently given an effect.  `prev` = the instruction before (the
/// argument-name list of `BuildMacro`).
fn stk_tok(i: &minijinja::machinery::Instruction<'_>, prev: Option<&minijinja::machinery::Instruction<'_>>) -> String {
    use minijinja::machinery::Instruction::*;
    use minijinja::value::ValueKind;
    let e = |a: usize, b: usize| format!("e:{}:{}", a, b);
    match i {
        EmitRaw(_) => e(0, 0),
        StoreLocal(_) => e(1, 0),
        Lookup(_) => e(0, 1),
        GetAttr(_) => e(1, 1),
        SetAttr(_) => e(2, 0),
        GetItem => e(2, 1),
        Slice => e(4, 1),
        LoadConst(v) => {
            // what `usize::try_from(value)` (the conversion the VM applies to a count) sees
            match (v.kind(), usize::try_from(v.clone())) {
                (ValueKind::Number, Ok(0)) => "z".into(),
                (ValueKind::Number, Ok(1)) => "o".into(),
                (ValueKind::Seq, _) => format!("ll:{}", v.len().unwrap_or(0)),
                _ => e(0, 1),
            }
        }
        BuildMap(n) | BuildKwargs(n) => e(2 * n, 1),
        MergeKwargs(n) => e(*n, 1),
        BuildList(Some(n)) => format!("bl:{}", n),
        BuildList(None) | BuildTuple(None) => "bd".into(),
        BuildTuple(Some(n)) => e(*n, 1),
        UnpackList(n) => e(1, *n),
        UnpackLists(n) => format!("ul:{}", n),
        Add => "add".into(),
        Sub | Mul | Div | IntDiv | Rem | Pow | Eq | Ne | Gt | Gte | Lt | Lte | StringConcat | In => e(2, 1),
        Neg | Not | IsUndefined => e(1, 1),
        CompareAndPreserve(_) => e(2, 2),
        ApplyFilter(_, Some(n), _) | PerformTest(_, Some(n), _) => format!("call:{}:0:0", n),
        ApplyFilter(_, None, _) | PerformTest(_, None, _) => "cdyn:0:0".into(),
        CallFunction(_, Some(n)) => format!("call:{}:0:1", n),
        CallFunction(_, None) => "cdyn:0:1".into(),
        CallMethod(_, Some(n)) | CallObject(Some(n)) => format!("call:{}:1:0", n),
        CallMethod(_, None) | CallObject(None) => "cdyn:1:0".into(),
        Emit => e(1, 0),
        PushLoop(flags) => format!("pl:{}", (flags >> 1) & 1),
        PushWith | PopFrame | PopAutoEscape | BeginCapture(_) | FastSuper | CallBlock(_) | Enclose(_) => e(0, 0),
        Iterate(t) => format!("it:{}", t),
        PushDidNotIterate | EndCapture | GetClosure => e(0, 1),
        PopLoopFrame => "plf".into(),
        Jump(t) => format!("j:{}", t),
        JumpIfFalse(t) => format!("jf:{}", t),
        JumpIfFalseOrPop(t) => format!("jfp:{}", t),
        JumpIfTrueOrPop(t) => format!("jtp:{}", t),
        PushAutoEscape | DiscardTop | LoadBlocks | Include(_) => e(1, 0),
        ExportLocals => e(1, 1),
        DupTop => "dup".into(),
        Swap => "sw".into(),
        FastRecurse => "fr".into(),
        BuildMacro(_, off, _) => {
            let nargs = match prev {
                Some(LoadConst(v)) => v.len().unwrap_or(usize::MAX),
                _ => usize::MAX,
            };
            format!("bm:{}:{}", off, nargs)
        }
        Return => "ret".into(),
    }
}

// ---- dynamic tie of the effect table: heights observed by the `verif_hooks::opstack` hook --------------
thread_local! {
    static OPSTACK_EVENTS: std::cell::RefCell<Vec<(u64, u32, usize, String)>> = const { std::cell::RefCell::new(Vec::new()) };
}

fn install_opstack_hook() {
    minijinja::verif_hooks::opstack::set_hook(Some(Box::new(|act, pc, height, instr| {
        OPSTACK_EVENTS.with(|e| {
            let mut e = e.borrow_mut();
            if e.len() < 2_000_000 {
                e.push((act, pc, height, stk_tok(instr, None)));
            }
        });
    })));
}

/// is the observed transition `(pc, h) → (next, h2)` within one activation what the effect table
/// (`stk_tok`) and the machine of `MJ/Model/Stk.lean` allow for the instruction?
fn transition_ok(tok: &str, pc: u32, h: usize, next: u32, h2: usize) -> bool {
    let f: Vec<&str> = tok.split(':').collect();
    let n = |i: usize| f.get(i).and_then(|x| x.parse::<i64>().ok()).unwrap_or(0);
    let (h, h2) = (h as i64, h2 as i64);
    // straight-line instructions fall through; at the end of a child template that extends another
    // one the same activation continues at pc 0 of the parent's instructions
    let fall = next == pc + 1 || next == 0;
    // a jump to the end of a child template's instructions continues at pc 0 of the parent's
    let to = |t: i64| next as i64 == t || next == 0;
    match f[0] {
        "e" => fall && h2 == h - n(1) + n(2),
        "z" | "o" | "ll" | "dup" => fall && h2 == h + 1,
        "bl" => fall && h2 == h - n(1) + 1,
        "add" | "bm" | "pl" => fall && h2 == h - 1,
        "sw" => fall && h2 == h,
        "bd" => fall && h2 <= h,
        "ul" => fall && h2 >= h - n(1) + 1,
        "call" => (fall && h2 == h - n(1) + 1) || (n(3) == 1 && n(1) == 1 && h2 == h),
        "cdyn" => (fall && h2 <= h) || (n(2) == 1 && h2 == h - 1),
        "it" => (next == pc + 1 && h2 == h + 1) || (to(n(1)) && h2 == h),
        // ordinary loop end, or the return of a recursion level: its leftovers are truncated away and
        // the captured output (if any) is pushed
        "plf" => (fall && h2 == h) || h2 <= h + 1,
        "j" => to(n(1)) && h2 == h,
        "jf" => (fall || to(n(1))) && h2 == h - 1,
        "jfp" | "jtp" => (fall && h2 == h - 1) || (to(n(1)) && h2 == h),
        "fr" => h2 == h,
        "ret" => false,
        _ => false,
    }
}

/// checks all transitions recorded since the last call; `None` = consistent
fn tie_check() -> Option<String> {
    OPSTACK_EVENTS.with(|e| {
        let mut e = e.borrow_mut();
        let mut last: std::collections::HashMap<u64, (u32, usize, String)> = std::collections::HashMap::new();
        let mut bad = None;
        for (act, pc, h, tok) in e.drain(..) {
            if let Some((ppc, ph, ptok)) = last.get(&act) {
                if bad.is_none() && !transition_ok(ptok, *ppc, *ph, pc, h) {
                    bad = Some(format!("{}@{}:h{}->{}@h{}", ptok, ppc, ph, pc, h));
                }
            }
            last.insert(act, (pc, h, tok));
        }
        bad
    })
}

fn with_tie(result: String) -> String {
    match tie_check() {
        Some(m) if !result.starts_with("panic") => format!("tie-mismatch:{}", m.replace(['\t', ' '], "_")),
        _ => result,
    }
}

fn stk_dump(instrs: &minijinja::machinery::Instructions<'_>) -> String {
    let mut toks = vec![];
    let mut pc = 0u32;
    let mut prev = None;
    while let Some(i) = instrs.get(pc) {
        toks.push(stk_tok(i, prev));
        prev = Some(i);
        pc += 1;
    }
    toks.join(" ")
}

/// `S <TAB> case <TAB> stream <TAB> tokens` for every instruction stream (main + blocks) of every
/// template of the case list that compiles; identical token strings are printed once.
fn dump_streams(thorough: bool) {
    let mut seen = std::collections::HashSet::new();
    let out = std::io::stdout();
    let mut out = std::io::BufWriter::new(out.lock());
    let mut sources: Vec<(String, String)> = vec![];
    for c in gen_cases(thorough) {
        let f: Vec<&str> = c.split(' ').collect();
        if f[0] == "t" && f.len() == 4 {
            if let Ok(s) = String::from_utf8(unhex(f[3])) {
                sources.push((c.clone(), s));
            }
        } else if f[0] == "e" && f.len() == 4 {
            if let Ok(s) = String::from_utf8(unhex(f[3])) {
                sources.push((c.clone(), format!("{{{{ {} }}}}", s)));
            }
        } else if f[0] == "c" && f.len() == 5 {
            // depth >= 2: one (before, after) variant per structure is enough for the operand stack
            let deep = f[4].split('|').next().map_or(0, |p| p.split('.').count()) > 2;
            if deep && !f[4].ends_with("|none|var") {
                continue;
            }
            if let Some((s, is_e)) = compose_source(f[1], f[4]) {
                sources.push((c.clone(), if is_e { format!("{{{{ {} }}}}", s) } else { s }));
            }
        } else if f[0] == "d" && f.len() == 3 {
            let ns: &[usize] = if f[1].starts_with("stk") { &[2] } else if f[1].starts_with("w:") { &[60] } else if f[1].starts_with("acc:") { &[3] } else { &[3, 40] };
            if f[1].starts_with("w:") && f[2] != "50" {
                continue; // one dump per width kind
            }
            for &n in ns {
                let (s, is_t) = depth_source(f[1], n);
                sources.push((format!("d {} {}", f[1], n), if is_t { s } else { format!("{{{{ {} }}}}", s) }));
            }
        }
    }
    let mut n_compiled = 0usize;
    for (case, src) in sources {
        let r = guarded(|| {
            let mut env = make_env(None);
            if env.add_template_owned("case.txt".to_string(), src).is_err() {
                return vec![];
            }
            let t = env.get_template("case.txt").unwrap();
            let c = minijinja::machinery::get_compiled_template(&t);
            let mut v = vec![("main".to_string(), stk_dump(&c.instructions))];
            for (name, b) in c.blocks.iter() {
                v.push((format!("block:{}", name), stk_dump(b)));
            }
            v
        });
        if let Ok(v) = r {
            if !v.is_empty() {
                n_compiled += 1;
            }
            for (name, toks) in v {
                if seen.insert(toks.clone()) {
                    writeln!(out, "S\t{}\t{}\t{}", case, name.replace('\t', " "), toks).unwrap();
                }
            }
        }
    }
    // companions (repo fixtures in tests/inputs/refs) as well
    let env = make_env(None);
    for (name, _) in companions() {
        if let Ok(t) = env.get_template(&name) {
            let c = minijinja::machinery::get_compiled_template(&t);
            let toks = stk_dump(&c.instructions);
            if seen.insert(toks.clone()) {
                writeln!(out, "S\tcompanion {}\tmain\t{}", name, toks).unwrap();
            }
            for (bn, b) in c.blocks.iter() {
                let toks = stk_dump(b);
                if seen.insert(toks.clone()) {
                    writeln!(out, "S\tcompanion {}\tblock:{}\t{}", name, bn, toks).unwrap();
                }
            }
        }
    }
    writeln!(out, "N\t{}", n_compiled).unwrap();
}

// ------------------------------------------------------------------------------------ worker
fn worker_loop() {
    let stdin = std::io::stdin();
    let stdout = std::io::stdout();
    for line in stdin.lock().lines() {
        let line = match line {
            Ok(l) => l,
            Err(_) => break,
        };
        let (idx, case) = match line.split_once('\t') {
            Some(x) => x,
            None => continue,
        };
        let t0 = std::time::Instant::now();
        let r = run_case(case);
        let mut o = stdout.lock();
        let _ = writeln!(o, "{}\t{}\t{}", idx, r, t0.elapsed().as_micros());
        let _ = o.flush();
    }
}

fn worker(mode: &str) {
    install_hook();
    if mode != "t2m" {
        install_opstack_hook();
    }
    if mode == "t2m" {
        let h = std::thread::Builder::new().stack_size(2 * 1024 * 1024).spawn(worker_loop).unwrap();
        let _ = h.join();
    } else {
        worker_loop();
    }
}

// ------------------------------------------------------------------------------------ parent
fn run_worker(mode: &str, cases: &[(usize, String)], timeout: Duration) -> (Vec<(usize, String)>, Option<String>) {
    let exe = std::env::current_exe().unwrap();
    let mut child = Command::new("sh")
        .arg("-c")
        .arg("ulimit -v 2097152; ulimit -c 0; exec \"$0\" \"$@\"")
        .arg(&exe)
        .arg("worker")
        .arg(mode)
        .stdin(Stdio::piped())
        .stdout(Stdio::piped())
        .stderr(Stdio::null())
        .spawn()
        .expect("spawn worker");
    let mut stdin = child.stdin.take().unwrap();
    let stdout = child.stdout.take().unwrap();
    let payload: String = cases.iter().map(|(i, c)| format!("{}\t{}\n", i, c)).collect();
    let feeder = std::thread::spawn(move || {
        let _ = stdin.write_all(payload.as_bytes());
    });
    let (tx, rx) = mpsc::channel::<String>();
    let reader = std::thread::spawn(move || {
        for l in BufReader::new(stdout).lines() {
            match l {
                Ok(l) => {
                    if tx.send(l).is_err() {
                        break;
                    }
                }
                Err(_) => break,
            }
        }
    });
    let mut done = vec![];
    let mut death = None;
    while done.len() < cases.len() {
        match rx.recv_timeout(timeout) {
            Ok(l) => {
                if let Some((i, r)) = l.split_once('\t') {
                    let i: usize = i.parse().unwrap_or(usize::MAX);
                    // `result <TAB> microseconds`
                    let (r, us) = r.rsplit_once('\t').unwrap_or((r, "0"));
                    if i == cases[done.len()].0 {
                        if times_wanted() {
                            eprintln!("T\t{}\t{}\t{}", mode, us, cases[done.len()].1);
                        }
                        done.push((i, r.to_string()));
                    }
                }
            }
            Err(mpsc::RecvTimeoutError::Timeout) => {
                let _ = child.kill();
                death = Some("timeout".to_string());
                break;
            }
            Err(mpsc::RecvTimeoutError::Disconnected) => break,
        }
    }
    let status = child.wait();
    let _ = feeder.join();
    let _ = reader.join();
    if done.len() < cases.len() && death.is_none() {
        use std::os::unix::process::ExitStatusExt;
        death = Some(match status {
            Ok(st) => match (st.signal(), st.code()) {
                (Some(s), _) => format!("signal:{}", s),
                (None, Some(c)) if c > 128 => format!("signal:{}", c - 128),
                (None, Some(c)) => format!("exit:{}", c),
                _ => "signal:?".into(),
            },
            Err(_) => "signal:?".into(),
        });
    }
    (done, death)
}

fn times_wanted() -> bool {
    static W: std::sync::OnceLock<bool> = std::sync::OnceLock::new();
    *W.get_or_init(|| std::env::var("C01_TIMES").is_ok())
}

fn run_shard(mode: &str, cases: &[(usize, String)], timeout: Duration) -> Vec<(usize, String)> {
    let mut results = Vec::with_capacity(cases.len());
    let mut pos = 0;
    while pos < cases.len() {
        let (done, death) = run_worker(mode, &cases[pos..], timeout);
        let done_here = done.len();
        pos += done.len();
        results.extend(done);
        if let Some(sig) = death {
            if pos < cases.len() {
                let culprit = cases[pos].clone();
                let res = if sig == "timeout" {
                    "timeout".to_string()
                } else if done_here == 0 {
                    // the first case of a fresh worker: it already ran alone
                    sig
                } else {
                    // confirm: the same case alone in a fresh worker
                    let (d2, death2) = run_worker(mode, std::slice::from_ref(&culprit), timeout);
                    match (d2.first(), death2) {
                        (Some(r), _) => format!("{}:batch-only:{}", sig, r.1),
                        (None, Some(s2)) => s2,
                        (None, None) => sig,
                    }
                };
                results.push((culprit.0, res));
                pos += 1;
            }
        }
    }
    results
}

/// cases whose cost is far above the average (seconds instead of microseconds): scheduled first, alone
fn is_heavy(case: &str) -> bool {
    case.starts_with("d ") || case.starts_with("t namespace:cycle") || case.starts_with("k slicef") || case.starts_with("k mulstr") || case.starts_with("k mergedepth")
        || case.starts_with("k fmtw") || case.starts_with("k lexcol") || case.starts_with("k nest")
}

/// modes a case runs in: the accumulate-loop probes bring their own (small) stack, one mode is enough
fn modes_of<'a>(case: &str, modes: &[&'a str]) -> Vec<&'a str> {
    if case.starts_with("d acc:") {
        modes.iter().take(1).cloned().collect()
    } else if case.starts_with("t namespace:cycle2 ") {
        // the recorded cyclic-namespace recursion (known finding) takes ~10 s to exhaust an 8 MiB stack:
        // the variants through a list / map run on the 2 MiB thread only
        modes.iter().rev().take(1).cloned().collect()
    } else if case.starts_with("f ") || case.starts_with("k intop") || case.starts_with("k reprstr") {
        // shallow, iteration-free code: the thread does not matter, the two threads share the cases
        let h = case.bytes().fold(0u32, |h, b| h.wrapping_mul(31).wrapping_add(b as u32));
        modes.iter().skip((h % 2) as usize).take(1).cloned().collect()
    } else {
        modes.to_vec()
    }
}

/// All cases in all modes through a pool of worker slots (`C01_SHARDS`, default = number of CPUs, at most
/// 16): a shared queue of chunks — the heavy cases first, one per chunk, then the cheap ones in chunks of a
/// few hundred — so that no slot idles while another one still has a long tail.  Every chunk runs in a
/// fresh worker process (re-spawned after a crash, see `run_shard`).  The output order is the case order,
/// independent of the scheduling.
fn run_all(cases: Vec<String>, modes: &[&str], timeout: Duration) {
    let indexed: Vec<(usize, String)> = cases.into_iter().enumerate().collect();
    let ncpu = std::thread::available_parallelism().map(|n| n.get()).unwrap_or(8);
    let nslots = std::env::var("C01_SHARDS").ok().and_then(|s| s.parse().ok()).unwrap_or(ncpu.min(16)).max(1);
    let mut queue: std::collections::VecDeque<(String, Vec<(usize, String)>)> = std::collections::VecDeque::new();
    for (i, c) in indexed.iter().filter(|(_, c)| is_heavy(c)) {
        for mode in modes_of(c, modes) {
            queue.push_back((mode.to_string(), vec![(*i, c.clone())]));
        }
    }
    let light: Vec<&(usize, String)> = indexed.iter().filter(|(_, c)| !is_heavy(c)).collect();
    // strided chunks: neighbours in generation order (same builtin, same seed) land in different chunks
    let nchunks = (light.len() / 1500).max(nslots * 3).min(light.len().max(1));
    for j in 0..nchunks {
        let part: Vec<(usize, String)> = light.iter().skip(j).step_by(nchunks).map(|x| (*x).clone()).collect();
        if part.is_empty() {
            continue;
        }
        for mode in modes {
            let mine: Vec<(usize, String)> = part.iter().filter(|(_, c)| modes_of(c, modes).contains(mode)).cloned().collect();
            if !mine.is_empty() {
                queue.push_back((mode.to_string(), mine));
            }
        }
    }
    let queue = std::sync::Arc::new(Mutex::new(queue));
    let mut handles = vec![];
    for _ in 0..nslots {
        let queue = queue.clone();
        handles.push(std::thread::spawn(move || {
            let mut mine: Vec<(usize, String, String)> = vec![];
            loop {
                let job = queue.lock().unwrap().pop_front();
                let Some((mode, part)) = job else { break };
                for (i, res) in run_shard(&mode, &part, timeout) {
                    mine.push((i, mode.clone(), res));
                }
            }
            mine
        }));
    }
    let mut all: Vec<(usize, String, String)> = vec![];
    for h in handles {
        all.extend(h.join().unwrap());
    }
    all.sort();
    let out = std::io::stdout();
    let mut out = std::io::BufWriter::new(out.lock());
    for (i, mode, res) in all {
        writeln!(out, "{}\t{}\t{}", mode, indexed[i].1, res).unwrap();
    }
}

// ------------------------------------------------------------------------------------ generation
fn builtin_names(func: &str) -> Vec<String> {
    // names registered by `fn <func>` of defaults.rs (text of the file this binary was built against)
    let start = match DEFAULTS_RS.find(&format!("fn {}", func)) {
        Some(i) => i,
        None => return vec![],
    };
    let rest = &DEFAULTS_RS[start..];
    let end = rest[3..].find("\nfn ").or_else(|| rest[3..].find("\npub(crate) fn ")).map(|i| i + 3).unwrap_or(rest.len());
    let end2 = rest[3..].find("\npub(crate) fn ").map(|i| i + 3).unwrap_or(rest.len());
    let body = &rest[..end.min(end2)];
    let mut names = vec![];
    let mut i = 0;
    let pat = "rv.insert(";
    while let Some(p) = body[i..].find(pat) {
        let s = &body[i + p + pat.len()..];
        let s = s.trim_start();
        if let Some(s2) = s.strip_prefix('"') {
            if let Some(q) = s2.find('"') {
                names.push(s2[..q].to_string());
            }
        }
        i += p + pat.len();
    }
    names.sort();
    names.dedup();
    names
}

const INT_BOUNDS: &[&str] = &[
    "0", "1", "-1", "2", "3", "5", "100", "65535", "65536", "100000", "100001", "4294967296", "4611686018427387904",
    "9223372036854775806", "9223372036854775807", "-9223372036854775807", "-9223372036854775808",
    "9223372036854775808", "18446744073709551615", "18446744073709551616", "170141183460469231731687303715884105727",
    "1099511627776",
];

const ARG_ZOO: &[&str] = &[
    "0", "1", "-1", "2", "3", "9223372036854775807", "-9223372036854775808", "9223372036854775806", "1099511627776",
    "18446744073709551615", "170141183460469231731687303715884105727", "1.5", "-0.0", "1e308", "nan", "inf",
    "''", "'a'", "'abc'", "'%s'", "'%5d'", "'{}'", "'name'", "'age'", "'tags'", "'0'", "'a.b'", "'e'", "'upper'", "'odd'",
    "none", "undefinedvar", "true", "false", "[]", "[1, 2, 3]", "[[1], [2]]", "{}", "{'a': 1}", "xs", "m", "s", "es",
    "users", "nested", "range(3)", "it", "by", "ms", "safe", "big", "small", "mixed", "[none]", "['a', 'b']", "(1, 2)",
    "bad0", "bad3", "badseq", "badlist", "badmap", "'é'", "'€é𝄞'", "' é € '", "'%(é)s'", "'{é}'", "'é.é'", "'\u{301}'", "'ß'", "'ǆ'", "'é\né'",
    "[nan, nan]", "[users, users]", "namespace()", "range", "echo",
];

const RECV_ZOO: &[&str] = &[
    "n", "undefinedvar", "t", "i0", "i1", "im", "big", "small", "ubig", "huge", "nhuge", "fl", "nan", "inf", "s", "es", "ms",
    "safe", "long", "by", "xs", "exs", "ss", "mixed", "nested", "users", "m", "em", "it", "once", "range(5)", "(1, 2)",
    "namespace(a=1)", "range", "[[1, 2], [3, 4]]", "[big, small, 0]", "['10', '9', 'a']", "{'b': 1, 'a': [2]}", "fmt",
    "uhuge", "nzero", "fbig", "bad0", "bad3", "badseq", "badlist", "badmap", "'é'", "'€é𝄞 ǆß'", "' é  €\t𝄞 '", "'%(é)s %s {é} {0}'", "'<é>&amp;€</é>'", "'é,€,𝄞'",
    "['é', '€']", "{'é': '€'}",
];

const KWARGS: &[&str] = &[
    "width=9223372036854775807", "width=3", "indent=9223372036854775807", "indent=2", "indent=true", "attribute='name'",
    "attribute='a.b.c'", "attribute=0", "case_sensitive=true", "reverse=true", "default='d'", "first=true", "blank=true",
    "by='value'", "by='x'", "d=1", "boolean=true", "sep=none", "maxsplit=9223372036854775807", "maxsplit=0",
    "**m", "*xs", "**{}", "*[]", "*big", "**s", "a=1", "**{'é': 1}", "length=1", "length=0", "length=9223372036854775807",
    "killwords=true", "end='é€'", "leeway=0", "chars='é'", "sep='é'", "d='é'", "length=18446744073709551615",
    "leeway=18446744073709551615", "width=18446744073709551615", "indent=18446744073709551615", "length=3, leeway=18446744073709551615",
];

fn add_call_cases(out: &mut Vec<String>, rng: &mut Rng, label: &str, mk: &dyn Fn(&str, &str) -> String, recvs: &[&str], per_recv_args: usize, thorough: bool) {
    // zero-length argument list, every single argument, sampled pairs/triples, kwargs
    let mut n = 0usize;
    for (ri, recv) in recvs.iter().enumerate() {
        let mut arglists: Vec<String> = vec![String::new()];
        let full = thorough || ri < 11;
        if full {
            for a in ARG_ZOO {
                arglists.push(a.to_string());
            }
        } else {
            for _ in 0..per_recv_args {
                arglists.push(rng.pick(ARG_ZOO).to_string());
            }
        }
        for _ in 0..per_recv_args {
            arglists.push(format!("{}, {}", rng.pick(ARG_ZOO), rng.pick(ARG_ZOO)));
        }
        for _ in 0..(per_recv_args / 2).max(1) {
            arglists.push(format!("{}, {}, {}", rng.pick(ARG_ZOO), rng.pick(ARG_ZOO), rng.pick(ARG_ZOO)));
            arglists.push(format!("{}", rng.pick(KWARGS)));
            arglists.push(format!("{}, {}", rng.pick(ARG_ZOO), rng.pick(KWARGS)));
        }
        if ri == 0 {
            for k in KWARGS {
                arglists.push(k.to_string());
            }
            arglists.push((0..7).map(|_| rng.pick(ARG_ZOO).to_string()).collect::<Vec<_>>().join(", "));
        }
        for al in arglists {
            let src = mk(recv, &al);
            out.push(format!("t {} {} {}", label, n % 2, hex(src.as_bytes())));
            if al.is_empty() {
                // the zero-length argument list under the other context (empty containers) too
                out.push(format!("t {} {} {}", label, (n + 1) % 2, hex(src.as_bytes())));
            }
            n += 1;
        }
    }
}

fn gen_builtin_cases(out: &mut Vec<String>, rng: &mut Rng, thorough: bool) {
    let per = if thorough { 40 } else { 6 };
    let recv_n = if thorough { RECV_ZOO.len() } else { 18 };
    let pick_recvs = |rng: &mut Rng| -> Vec<&'static str> {
        // first the fixed core, then a seeded sample of the rest
        let mut v: Vec<&'static str> = vec!["xs", "s", "n", "big", "m", "users", "exs", "es", "em", "bad3", "badlist"];
        while v.len() < recv_n {
            let r = *rng.pick(RECV_ZOO);
            if !v.contains(&r) {
                v.push(r);
            }
        }
        v
    };
    for name in builtin_names("build_builtin_filters") {
        let recvs = pick_recvs(rng);
        let nm = name.clone();
        add_call_cases(out, rng, &format!("filter:{}", name), &move |r, a| {
            if a.is_empty() { format!("{{{{ {}|{} }}}}{{{{ {}|{}() }}}}", r, nm, r, nm) } else { format!("{{{{ {}|{}({}) }}}}", r, nm, a) }
        }, &recvs, per, thorough);
    }
    for name in contrib_names("filter") {
        // minijinja-contrib filters (all features)
        let recvs = pick_recvs(rng);
        let nm = name.to_string();
        add_call_cases(out, rng, &format!("filter:{}", name), &move |r, a| {
            if a.is_empty() { format!("{{{{ {}|{} }}}}", r, nm) } else { format!("{{{{ {}|{}({}) }}}}", r, nm, a) }
        }, &recvs, per, thorough);
    }
    for name in builtin_names("build_builtin_tests") {
        let recvs = pick_recvs(rng);
        let nm = name.clone();
        add_call_cases(out, rng, &format!("test:{}", name), &move |r, a| {
            if a.is_empty() { format!("{{{{ {} is {} }}}}{{{{ {} is {}() }}}}", r, nm, r, nm) } else { format!("{{{{ {} is {}({}) }}}}", r, nm, a) }
        }, &recvs, per, thorough);
    }
    for name in builtin_names("build_globals") {
        let nm = name.clone();
        add_call_cases(out, rng, &format!("function:{}", name), &move |r, a| {
            if a.is_empty() { format!("{{{{ {}() }}}}", nm) } else { format!("{{{{ {}({}) }}}}{{{{ {}({}, {})|list|length }}}}", nm, a, nm, r, a) }
        }, &["1", "big", "xs", "m", "small", "none"], per * 2, thorough);
    }
    for name in contrib_names("function") {
        let nm = name.clone();
        add_call_cases(out, rng, &format!("function:{}", name), &move |r, a| {
            if a.is_empty() { format!("{{{{ {}() }}}}{{% set o = {}() %}}{{{{ o }}}}{{{{ o() }}}}{{{{ o.next() }}}}{{{{ o.current }}}}", nm, nm) } else { format!("{{{{ {}({}) }}}}{{{{ {}({}, {})|string|length }}}}", nm, a, nm, r, a) }
        }, &["1", "big", "xs", "m", "small", "none", "'%Y é'", "0"], per * 2, thorough);
    }
    // Python-compatible methods (pycompat): every method on every kind of receiver
    for name in pycompat_methods() {
        let mut recvs = pick_recvs(rng);
        recvs.extend_from_slice(&["'abc'", "'äöü ß'", "''", "'a,b,,c'", "'  x  '", "'Ab\\ncD\\r\\n'", "[1, 2, 2]", "{'a': 1}"]);
        let nm = name.clone();
        add_call_cases(out, rng, &format!("method:{}", name), &move |r, a| {
            format!("{{{{ {}.{}({}) }}}}", if r.starts_with(|c: char| c.is_ascii_digit() || c == '-') { format!("({})", r) } else { r.to_string() }, nm, a)
        }, &recvs, if thorough { per / 3 } else { per }, false);
    }
    // loop object: methods and attributes
    for meth in ["cycle", "changed", "nosuch", "index", "length", "revindex", "previtem", "nextitem", "depth"] {
        let recvs = pick_recvs(rng);
        let m = meth.to_string();
        add_call_cases(out, rng, &format!("loop:{}", meth), &move |r, a| {
            format!("{{% for x in {} %}}{{{{ loop.{}({}) }}}}{{{{ loop.{} }}}}{{% endfor %}}", r, m, a, m)
        }, &recvs, per, thorough);
    }
    {
        let recvs = pick_recvs(rng);
        add_call_cases(out, rng, "loop:recurse", &|r, a| {
            format!("{{% for x in {} recursive %}}{{{{ loop.index }}}}{{% if loop.depth0 < 2 %}}{{{{ loop({}) }}}}{{% endif %}}{{% endfor %}}", r, a)
        }, &recvs, per, thorough);
        add_call_cases(out, rng, "loop:object", &|r, a| {
            format!("{{% for x in {} %}}{{{{ loop }}}}{{{{ loop|list }}}}{{{{ loop[{}] }}}}{{{{ loop|attr({}) }}}}{{% endfor %}}", r, if a.is_empty() { "0" } else { a }, if a.is_empty() { "'index'" } else { a })
        }, &recvs[..6], per, thorough);
    }
    // namespace object
    add_call_cases(out, rng, "namespace:new", &|r, a| {
        format!("{{% set ns = namespace({}) %}}{{% set ns.v = {} %}}{{{{ ns.v }}}}{{{{ ns }}}}{{{{ ns|items|list }}}}{{{{ ns.nosuch({}) }}}}", a, r, a)
    }, &["1", "xs", "m", "none"], per * 2, thorough);
    // a namespace that (directly or through a list) contains itself
    for (i, body) in ["{{ ns }}", "{{ ns.v }}", "{{ ns|items|list }}", "{{ ns|tojson }}", "{{ ns == ns }}", "{{ ns|string|length }}", "{{ ns.v.v.v is defined }}", "{% for k in ns %}{{ k }}{% endfor %}", ""].iter().enumerate() {
        for how in ["ns", "[ns]", "{'k': ns}"] {
            let src = format!("{{% set ns = namespace() %}}{{% set ns.v = {} %}}{}", how, body);
            out.push(format!("t namespace:cycle{} {} {}", if how == "ns" || thorough { "" } else { "2" }, i % 2, hex(src.as_bytes())));
        }
    }
    // macros, caller, varargs/kwargs, super/self, method-call syntax on plain values, call on non-callables
    add_call_cases(out, rng, "macro:call", &|r, a| {
        format!("{{% macro mm(p, q=2) %}}{{{{ p }}}}{{{{ q }}}}{{{{ varargs }}}}{{{{ kwargs }}}}{{{{ caller }}}}{{% endmacro %}}{{{{ mm({}) }}}}{{{{ mm.name }}}}{{{{ mm.arguments }}}}{{{{ mm.caller }}}}{{% call({}) mm({}) %}}c{{% endcall %}}", a, if r.chars().all(|c| c.is_ascii_alphanumeric()) && r.chars().next().map_or(false, |c| c.is_ascii_alphabetic()) { r } else { "zz" }, a)
    }, &["zz", "xs", "p"], per * 2, thorough);
    add_call_cases(out, rng, "method:value", &|r, a| {
        format!("{{{{ {}.items({}) }}}}{{{{ {}.nosuch({}) }}}}{{{{ {}({}) }}}}", r, a, r, a, r, a)
    }, &["m", "xs", "s", "n", "big", "range", "users"], per, thorough);
    add_call_cases(out, rng, "block:self", &|_r, a| {
        format!("{{% extends 'layout.html' %}}{{% block title %}}{{{{ super({}) }}}}{{{{ self.body({}) }}}}{{% endblock %}}{{% block body %}}b{{% endblock %}}", a, a)
    }, &["x"], per * 2, thorough);
    // engine objects kept alive past their scope, then every attribute read / every method called
    {
        let loop_reads = ["{{ L.index0 }}", "{{ L.index }}", "{{ L.length }}", "{{ L.revindex }}", "{{ L.revindex0 }}", "{{ L.first }}", "{{ L.last }}",
            "{{ L.previtem }}", "{{ L.nextitem }}", "{{ L.depth }}", "{{ L.depth0 }}", "{{ L.cycle() }}", "{{ L.cycle(1, 2) }}", "{{ L.changed() }}{{ L.changed(1) }}{{ L.changed(1) }}",
            "{{ L }}", "{{ L|list }}", "{{ L|items }}", "{{ L|tojson }}", "{{ L([1, 2]) }}", "{{ L() }}", "{% for y in L %}{{ y }}{% endfor %}", "{{ L.nosuch }}{{ L.nosuch() }}",
            "{{ L == L }}{{ L|string|length }}{{ L is defined }}", "{% set l2 = L %}{{ l2([1, 2]) }}", "{% set l2 = L %}{{ l2(*xs) }}{{ l2(3) }}"];
        let its = ["[1, 2]", "xs", "it", "once", "range(3)", "[1]", "{'a': 1}", "'ab'", "[[1, [2]], [3]]"];
        let mut n = 0usize;
        for it in its {
            for (mods, brk) in [("", ""), ("", "{% break %}"), (" recursive", ""), (" if x", ""), (" recursive", "{% if loop.depth0 < 1 %}{{ loop([4, 5]) }}{% endif %}")] {
                for rd in loop_reads {
                    // through a namespace attribute
                    let src = format!("{{% set ns = namespace() %}}{{% for x in {}{} %}}{{% set ns.l = loop %}}{}{{% endfor %}}{}", it, mods, brk, rd.replace('L', "ns.l"));
                    out.push(format!("t escaped:loop-ns {} {}", n % 2, hex(src.as_bytes())));
                    n += 1;
                }
                // the outer loop object read after an inner loop / in the else branch / through a macro closure
                let src = format!("{{% set ns = namespace() %}}{{% for x in {it}{mods} %}}{{% for y in {it} %}}{{% set ns.i = loop %}}{brk}{{% endfor %}}{{{{ loop.revindex0 }}}}{{{{ loop.nextitem }}}}{{{{ ns.i.revindex0 }}}}{{{{ ns.i.revindex }}}}{{{{ ns.i.last }}}}{{{{ ns.i.nextitem }}}}{{% else %}}{{{{ loop }}}}{{% endfor %}}{{{{ ns.i.revindex0 }}}}{{{{ ns.i.index }}}}");
                out.push(format!("t escaped:loop-outer {} {}", n % 2, hex(src.as_bytes())));
                let src = format!("{{% set ns = namespace() %}}{{% for x in {it}{mods} %}}{{% macro cl() %}}{{{{ loop.index }}}}{{{{ loop.revindex0 }}}}{{{{ loop.length }}}}{{{{ loop.nextitem }}}}{{{{ loop.cycle(1) }}}}{{% endmacro %}}{{% set ns.m = cl %}}{brk}{{% endfor %}}{{{{ ns.m() }}}}");
                out.push(format!("t escaped:loop-closure {} {}", n % 2, hex(src.as_bytes())));
            }
        }
        let others = [
            ("caller", "{% set ns = namespace() %}{% macro mc() %}{% set ns.c = caller %}{{ caller() }}{% endmacro %}{% call mc() %}body{{ x }}{% endcall %}{{ ns.c() }}{{ ns.c(1) }}{{ ns.c.name }}{{ ns.c.arguments }}{{ ns.c }}"),
            ("caller-args", "{% set ns = namespace() %}{% macro mc() %}{% set ns.c = caller %}{% endmacro %}{% call(a, b=2) mc() %}{{ a }}{{ b }}{% endcall %}{{ ns.c(1) }}{{ ns.c() }}{{ ns.c(1, 2, 3) }}{{ ns.c(b=1) }}"),
            ("macro-import", "{% set ns = namespace() %}{% with %}{% import 'macros.txt' as mm %}{% set ns.mm = mm %}{% set ns.m = mm.m %}{% set ns.r = mm.r %}{% endwith %}{{ ns.m(1) }}{{ ns.r(3) }}{{ ns.mm.m(1, 2, 3) }}{{ ns.mm }}{{ ns.mm.exported }}{{ ns.mm|items }}{{ ns.mm.nosuch }}{{ ns.m.name }}{{ ns.m.arguments }}{{ ns.m.caller }}"),
            ("macro-from", "{% set ns = namespace() %}{% with %}{% from 'macros.txt' import m, r as rr %}{% set ns.m = m %}{% set ns.r = rr %}{% endwith %}{{ ns.m(1) }}{{ ns.r(2) }}{{ ns.m() }}{{ ns.r() }}{{ ns.m(*xs) }}{{ ns.m(**m) }}"),
            ("macro-scope", "{% set ns = namespace() %}{% for x in xs %}{% with y = x %}{% macro inner(p) %}{{ p }}{{ x }}{{ y }}{{ loop.index }}{% endmacro %}{% set ns.f = inner %}{% endwith %}{% endfor %}{{ ns.f(1) }}{{ ns.f() }}"),
            ("cycler", "{% set c = cycler(1, 2, 3) %}{{ c.next() }}{{ c.current }}{{ c.next() }}{{ c.next() }}{{ c.next() }}{{ c.reset() }}{{ c.current }}{{ c }}{{ c.nosuch() }}{{ c.next(1) }}"),
            ("cycler-empty", "{% set c = cycler() %}{{ c.next() }}{{ c.current }}{{ c.reset() }}"),
            ("joiner", "{% set j = joiner() %}{{ j() }}{{ j() }}{{ j(1) }}{% set k = joiner(big) %}{{ k() }}{{ k() }}{{ j }}{{ joiner(1, 2) }}"),
            ("oneshot", "{% for x in once %}{% break %}{% endfor %}{{ once|list }}{{ once|length }}{% for y in once %}{{ loop.length }}{{ loop.revindex }}{{ loop.revindex0 }}{{ loop.last }}{% endfor %}{{ once|first }}{{ once|last }}{{ once[0] }}{{ once[-1:] }}"),
            ("oneshot-ns", "{% set ns = namespace() %}{% for x in once %}{% set ns.l = loop %}{% break %}{% endfor %}{{ once|list }}{{ ns.l.nextitem }}{{ ns.l.length }}{{ ns.l.revindex }}{{ ns.l.revindex0 }}{{ ns.l.last }}{{ ns.l.previtem }}"),
            ("block-self", "{% set ns = namespace() %}{% block bb %}{% set ns.s = self %}{% for x in xs %}{% set ns.l = loop %}{% endfor %}{% endblock %}{{ ns.s.bb() }}{{ ns.l.revindex0 }}{{ ns.s }}"),
            ("include-loop", "{% set ns = namespace() %}{% for x in xs %}{% include 'inc.txt' %}{% set ns.l = loop %}{% endfor %}{% include 'inc.txt' %}{{ ns.l.revindex0 }}{{ ns.l.revindex }}"),
        ];
        for (label, src) in others {
            for w in 0..4 {
                out.push(format!("t escaped:{} {} {}", label, w, hex(src.as_bytes())));
            }
        }
    }
    // every expression / target position of every statement filled with expressions of every shape
    let shapes = ["1", "'a'", "a - 1", "a()", "a.b", "[a, b]", "(a, b)", "a[0]", "-a", "not a", "a if b", "a if b else c", "loop", "true",
        "none", "", "*", "a b", "a|upper", "a is defined", "{'k': a}", "a.b.c", "(a, (b, c))", "ns.x", "a = 1", "1.5", "9223372036854775808"];
    let stmts: [(&str, &str); 22] = [
        ("set", "{% set X = 1 %}{{ a }}"), ("setv", "{% set a = X %}{{ a }}"), ("setblock", "{% set X %}v{% endset %}"),
        ("setfilter", "{% set a | X %}v{% endset %}"), ("for", "{% for X in xs %}{{ a }}{% endfor %}"),
        ("foriter", "{% for a in X %}{{ a }}{% endfor %}"), ("forif", "{% for a in xs if X %}{{ a }}{% endfor %}"),
        ("with", "{% with X = 1 %}{{ a }}{% endwith %}"), ("withv", "{% with a = X %}{{ a }}{% endwith %}"),
        ("import", "{% import 'macros.txt' as X %}{{ a }}"), ("importn", "{% import X as a %}{{ a }}"),
        ("from", "{% from 'macros.txt' import X %}"), ("fromas", "{% from 'macros.txt' import m as X %}"),
        ("macro", "{% macro X() %}{% endmacro %}"), ("macroarg", "{% macro mm(X) %}{% endmacro %}{{ mm(1) }}"),
        ("macrodef", "{% macro mm(p=X) %}{{ p }}{% endmacro %}{{ mm() }}"), ("call", "{% call(X) m() %}{% endcall %}"),
        ("callx", "{% call X %}{% endcall %}"), ("block", "{% block X %}{% endblock %}"), ("filter", "{% filter X %}v{% endfilter %}"),
        ("do", "{% do X %}"), ("misc", "{% extends X %}{% include X %}{% autoescape X %}{% endautoescape %}{% if X %}{% elif X %}{% endif %}"),
    ];
    for (kind, tmpl) in stmts {
        for (i, sh) in shapes.iter().enumerate() {
            let src = format!("{{% set ns = namespace() %}}{{% from 'macros.txt' import m %}}{}", tmpl.replace('X', sh));
            out.push(format!("t stmtpos:{} {} {}", kind, i % 2, hex(src.as_bytes())));
        }
    }
    // string-literal escapes and byte-wise string walkers with multi-byte characters around them
    for (i, lit) in ["\\é", "\\u00e9", "\\uD83D", "\\uD83D\\uDE00", "\\uDE00", "\\u12", "\\u", "\\x41", "\\x", "\\xé", "é\\", "\\",
        "\\u{1F600}", "\\n\\r\\t\\b\\f\\/", "é\\n€", "\\U0001F600", "\\0", "\\uéééé", "𝄞\\u0301", "\\u005C\\u0027"].iter().enumerate() {
        for q in ["'", "\""] {
            let src = format!("{{{{ {q}{lit}{q} }}}}{{{{ {q}{lit}{q}|length }}}}{{{{ {q}a{lit}{q}|upper|urlencode }}}}{{{{ {q}{lit} x  y{q}|title|split|list }}}}");
            out.push(format!("t esc:string {} {}", i % 2, hex(src.as_bytes())));
        }
    }
    // the escape grammar of string literals: every escape kind at its boundary values, alone and in ordered
    // pairs (surrogates), in every literal position (expression, filter argument, map key, statement)
    {
        let octal = ["\\0", "\\7", "\\8", "\\00", "\\07", "\\77", "\\78", "\\177", "\\200", "\\377", "\\400", "\\477", "\\777", "\\0000", "\\3777", "\\1é"];
        let hexb = ["\\x00", "\\x7f", "\\x80", "\\xff", "\\xFF", "\\x0", "\\x", "\\xg0", "\\x0g", "\\xé", "\\x7é", "\\X41"];
        let uni = ["\\u0000", "\\u007f", "\\u0080", "\\u07ff", "\\u0800", "\\ud7ff", "\\ud800", "\\udbff", "\\udc00", "\\udfff", "\\ue000", "\\uffff",
            "\\uD800", "\\uDFFF", "\\u000", "\\u00g0", "\\u+123", "\\u-123", "\\u 123", "\\ué000", "\\u00é"];
        let simple = ["\\n", "\\\\", "\\'", "\\\"", "\\/", "\\b", "\\f", "\\r", "\\t", "\\a", "\\v", "\\e", "\\N", "\\é", "\\ ", "\\\n"];
        let mut lits: Vec<String> = vec![];
        for l in octal.iter().chain(hexb.iter()).chain(uni.iter()).chain(simple.iter()) {
            lits.push(l.to_string());
            lits.push(format!("a{}", l));
            lits.push(format!("{}é", l));
        }
        for a in uni.iter().take(14) {
            for b in uni.iter().take(14) {
                lits.push(format!("{}{}", a, b));
            }
            for b in octal.iter().take(4).chain(hexb.iter().take(2)).chain(simple.iter().take(2)) {
                lits.push(format!("{}{}", a, b));
                lits.push(format!("{}{}", b, a));
            }
        }
        for (i, lit) in lits.iter().enumerate() {
            let q = if i % 2 == 0 { "'" } else { "\"" };
            let src = match i % 4 {
                0 | 1 => format!("{{{{ {q}{lit}{q} }}}}{{{{ {q}{lit}{q}|length }}}}{{{{ [{q}{lit}{q}] }}}}"),
                2 => format!("{{{{ {{{q}{lit}{q}: 1}} }}}}{{{{ s|replace({q}{lit}{q}, {q}x{q}) }}}}{{{{ m[{q}{lit}{q}] }}}}"),
                _ => format!("{{% set v = {q}{lit}{q} %}}{{{{ v|tojson }}}}{{% include {q}{lit}{q} ignore missing %}}{{{{ v ~ {q}{lit}{q} }}}}"),
            };
            out.push(format!("t esc:grammar {} {}", i % 2, hex(src.as_bytes())));
            if i % 3 == 0 {
                out.push(format!("e esc:grammar {} {}", i % 2, hex(format!("{q}{lit}{q}").as_bytes())));
            }
        }
    }
    // operators on the zoo (binary + unary + subscripts), incl. the lazily concatenated/repeated objects
    let ops = ["+", "-", "*", "/", "//", "%", "**", "~", "==", "<", "in", "and", "or", "not in", "!=", ">="];
    let n_ops = if thorough { 12000 } else { 2000 };
    for i in 0..n_ops {
        let a = rng.pick(RECV_ZOO);
        let b = if rng.chance(1, 2) { *rng.pick(RECV_ZOO) } else { *rng.pick(ARG_ZOO) };
        let op = rng.pick(&ops);
        let src = match i % 4 {
            0 => format!("{{{{ {} {} {} }}}}", a, op, b),
            1 => format!("{{{{ ({} {} {})|list }}}}{{{{ ({} {} {})|length }}}}", a, op, b, a, op, b),
            2 => format!("{{{{ {}[{}] }}}}{{{{ {}[{}:{}] }}}}{{{{ {}[::{}] }}}}{{{{ -{} }}}}", a, b, a, b, rng.pick(ARG_ZOO), a, b, a),
            _ => format!("{{% for k in ({} {} {}) %}}{{{{ k }}}}{{% endfor %}}", a, op, b),
        };
        out.push(format!("t op:{} {} {}", op.replace(' ', "_"), i % 2, hex(src.as_bytes())));
    }
}

// ---- builtin x value kind in every position x undefined behaviour ---------------------------------
/// what every `kp` template starts with: a set-block capture and a macro whose results are strings
/// marked safe under auto-escaping (`cap`, `mac()`)
const KP_PREAMBLE: &str = "{% set cap %}<b>%s</b>%s|{}{% endset %}{% macro mac() %}<u>%s</u>{}{% endmacro %}";

/// one or more representatives of every value kind as the receiver; strings in every safety state
/// (plain, safe from the host, made safe by a filter, captured, macro result, escaped) x content that the
/// string-interpreting builtins act on (conversions, markup, separators)
const KP_RECV: &[&str] = &[
    "undefinedvar", "m.nosuch", "n", "t", "i3", "big", "fl", "s", "pfmt", "ms", "'{}|{0}|{a}'", "safe", "sfmt", "pfmt|safe", "cap", "mac()",
    "pfmt|e", "by", "xs", "exs", "users", "m", "it", "bad3", "namespace(a=1)", "range", "small", "ubig", "nhuge", "uhuge",
    // thorough only from here
    "users[0].nosuch", "f", "i0", "im", "huge", "nan", "es", "es|safe", "'{}|{0}|{a}'|safe", "ss", "mixed", "em", "once", "range(3)", "(1, 2)", "badlist", "loop",
];
const KP_RECV_QUICK: usize = 30;

const KP_ARGS: &[&str] = &[
    "undefinedvar", "m.nosuch", "n", "t", "i0", "i3", "big", "fl", "s", "'name'", "pfmt", "sfmt", "by", "xs", "m", "it", "bad3", "range", "im", "small", "ubig", "nhuge", "uhuge",
    // thorough only from here
    "users[0].nosuch", "f", "huge", "nan", "es", "safe", "cap", "mac()", "exs", "users", "em", "once", "namespace()", "badlist",
];
const KP_ARGS_QUICK: usize = 23;

/// the keyword-argument names the builtins of the crate and of minijinja-contrib ask for
/// (`kwargs.get::<T>("name")` / `kwargs.has("name")` in the sources this binary was built against)
fn kwarg_names() -> Vec<String> {
    let mut v = vec![];
    for src in [
        include_str!("/repo/minijinja/src/filters.rs"),
        include_str!("/repo/minijinja/src/tests.rs"),
        include_str!("/repo/minijinja/src/functions.rs"),
        include_str!("/repo/minijinja-contrib/src/filters/mod.rs"),
        include_str!("/repo/minijinja-contrib/src/globals.rs"),
        PYCOMPAT_RS,
    ] {
        let mut i = 0;
        while let Some(p) = src[i..].find("kwargs.") {
            let rest = &src[i + p + 7..];
            i += p + 7;
            if !(rest.starts_with("get") || rest.starts_with("has") || rest.starts_with("peek")) {
                continue;
            }
            let line = rest.split('\n').next().unwrap_or("");
            if let Some(q) = line.find("(\"") {
                let name = &line[q + 2..];
                if let Some(e) = name.find('"') {
                    let name = &name[..e];
                    if !name.is_empty() && name.chars().all(|c| c.is_ascii_alphanumeric() || c == '_') {
                        v.push(name.to_string());
                    }
                }
            }
        }
    }
    v.sort();
    v.dedup();
    v
}

fn kp_is_undefined(x: &str) -> bool {
    x == "undefinedvar" || x.ends_with(".nosuch")
}

/// every callable name x every receiver kind x {no argument, every kind as the only argument} exhaustively,
/// every kind in the second / third position behind friendly arguments (receiver rotating), as a keyword
/// argument; whenever an undefined value is involved the case also runs under the other undefined
/// behaviours (quick: one of the three, rotating; thorough: all three).  Every fifth case goes through
/// compile_expression + eval instead of a template.
fn gen_kindpos_cases(out: &mut Vec<String>, thorough: bool) {
    let recvs = if thorough { KP_RECV } else { &KP_RECV[..KP_RECV_QUICK] };
    let args = if thorough { KP_ARGS } else { &KP_ARGS[..KP_ARGS_QUICK] };
    let friendly = ["1", "'name'", "2", "s", "xs", "'%s'"];
    let mut names: Vec<(String, String)> = vec![];
    for n in builtin_names("build_builtin_filters").into_iter().chain(contrib_names("filter")) {
        names.push(("filter".into(), n));
    }
    for n in builtin_names("build_builtin_tests") {
        names.push(("test".into(), n));
    }
    for n in builtin_names("build_globals").into_iter().chain(contrib_names("function")) {
        names.push(("function".into(), n));
    }
    for n in pycompat_methods() {
        names.push(("method".into(), n));
    }
    let mk = |fam: &str, name: &str, r: &str, al: &str, n: usize| -> String {
        // the second entry point of filters and tests: by name through map / select (always for the
        // operator-named tests, which `is` cannot spell)
        let ident = name.chars().all(|c| c.is_ascii_alphanumeric() || c == '_');
        if (fam == "filter" || fam == "test") && (!ident || n % 4 == 3) {
            let via = if fam == "filter" { "map" } else if n % 8 == 3 { "reject" } else { "select" };
            return if al.is_empty() { format!("[{}]|{}('{}')|list", r, via, name) } else { format!("[{}]|{}('{}', {})|list", r, via, name, al) };
        }
        match fam {
            "filter" => if al.is_empty() { format!("{}|{}", r, name) } else { format!("{}|{}({})", r, name, al) },
            "test" => if al.is_empty() { format!("{} is {}", r, name) } else { format!("{} is {}({})", r, name, al) },
            "function" => if al.is_empty() { format!("{}({})", name, r) } else { format!("{}({}, {})", name, r, al) },
            _ => format!("({}).{}({})", r, name, al),
        }
    };
    let kws = kwarg_names();
    let cnt = std::cell::Cell::new(0usize);
    for (fam, name) in &names {
        let label = format!("kp:{}:{}", fam, name);
        let emit = |out: &mut Vec<String>, r: &str, al: &str, undef: bool| {
            let n = cnt.get();
            let ex = mk(fam, name, r, al, n);
            let needs_pre = ex.contains("cap") || ex.contains("mac()") || ex.contains("loop");
            let ubs: Vec<usize> = if !undef { vec![0] } else if thorough { vec![0, 1, 2, 3] } else { vec![0, 1 + n % 3] };
            for ub in ubs {
                let which = n % 4 % 2 + 4 * ub; // contexts 0 / 1 (= .txt / .html), undefined behaviour ub
                if n % 5 == 4 && !needs_pre {
                    out.push(format!("e {} {} {}", label, which, hex(ex.as_bytes())));
                } else {
                    let src = if ex.contains("loop") {
                        format!("{}{{% for q in xs %}}{{{{ {} }}}}{{% endfor %}}", KP_PREAMBLE, ex)
                    } else {
                        format!("{}{{{{ {} }}}}", KP_PREAMBLE, ex)
                    };
                    out.push(format!("t {} {} {}", label, which, hex(src.as_bytes())));
                }
            }
            cnt.set(n + 1);
        };
        for r in recvs.iter() {
            emit(out, r, "", kp_is_undefined(r));
            for a in args {
                emit(out, r, a, kp_is_undefined(r) || kp_is_undefined(a));
            }
        }
        for (ai, a) in args.iter().enumerate() {
            let n = cnt.get();
            let r = recvs[(ai * 7 + n) % recvs.len()];
            let f1 = friendly[(ai + n) % friendly.len()];
            let f2 = friendly[(ai + n / 3 + 1) % friendly.len()];
            let u = kp_is_undefined(r) || kp_is_undefined(a);
            emit(out, r, &format!("{}, {}", f1, a), u);
            emit(out, r, &format!("{}, {}, {}", f1, f2, a), u);
            emit(out, r, &format!("{}, {}", a, f2), u);
            emit(out, r, &format!("{}, {}", a, a), u);
        }
        for (ki, kw) in kws.iter().enumerate() {
            for j in 0..2 {
                let n = cnt.get();
                let a = args[(ki * 5 + j * 7 + n) % args.len()];
                let r = recvs[(ki * 3 + j + n) % recvs.len()];
                emit(out, r, &format!("{}={}", kw, a), kp_is_undefined(r) || kp_is_undefined(a));
            }
        }
    }
}

// ---- format strings from a grammar, multi-byte characters in every position ------------------------
const MB: &[&str] = &["é", "€", "𝄞", "\u{301}", "٣"];

fn gen_format_cases(out: &mut Vec<String>, rng: &mut Rng, thorough: bool) {
    let printf_base: &[&str] = &[
        "%s", "%d", "%5d", "%-5d", "%05d", "%+d", "% d", "%#x", "%.2f", "%10.3f", "%e", "%g", "%c", "%%", "%(a)s", "%(é)s",
        "%(a)5.2f", "%ld", "%hd", "%Lf", "%i", "%o", "%X", "%E", "%G", "%F", "a%sb%dc", "%s%s%s", "%", "%5", "%.", "%(", "%(a",
        "%(a)", "%-", "%0", "%#", "%5.", "%5.2", "%l", "% ", "%+",
    ];
    let sfmt_base: &[&str] = &[
        "{}", "{0}", "{1}", "{a}", "{é}", "{0.a}", "{0[a]}", "{0[é]}", "{0[0]}", "{k[é]}", "{:5}", "{:<5}", "{:>5}", "{:^5}", "{:é<5}",
        "{:€^7}", "{:𝄞>3}", "{:+}", "{:-}", "{: }", "{:#x}", "{:05}", "{:,}", "{:_}", "{:.2f}", "{:10.3f}", "{:e}", "{:g}", "{:c}", "{:s}",
        "{:b}", "{:o}", "{:X}", "{:d}", "{:%}", "{{", "}}", "{{}}", "a{}b{}c", "{0}{0}", "{", "}", "{0", "{0.", "{0[", "{0[a", "{:", "{:5",
        "{:.", "{:<", "{:é", "{!r}", "{0!s:5}", "{:=5}", "{:z}", "{:5,}", "{:5_d}", "{:.2}", "{:5.2s}",
    ];
    let mut push = |style: &str, spec: &str, out: &mut Vec<String>, n: usize| {
        for w in 0..6 {
            if w == n % 6 || n % 7 == 0 {
                out.push(format!("f {} {} {}", style, w, hex(spec.as_bytes())));
            }
        }
    };
    // the conversion grammar crossed exhaustively: every conversion type x flag x width x precision, the
    // consumed argument of every kind (multi-byte strings, special floats, integers of every width, …)
    {
        let widths: &[&str] = if thorough { &["", "0", "1", "2", "3", "5", "12"] } else { &["", "1", "3", "12"] };
        let precs: &[&str] = if thorough { &["", ".", ".0", ".1", ".2", ".3", ".4", ".5", ".9", ".17"] } else { &["", ".0", ".1", ".2", ".3", ".5", ".17"] };
        for ty in ["d", "i", "o", "x", "X", "e", "E", "f", "F", "g", "G", "c", "s", "r", "a", "u"] {
            for flag in ["", "0", "-", "+", "#"] {
                for w in widths {
                    for p in precs {
                        if !thorough && (flag == "+" || flag == "#") && !(w.is_empty() || p.is_empty()) {
                            continue;
                        }
                        let spec = format!("%{}{}{}{}|", flag, w, p, ty);
                        for a in 6..FMT_ARGSETS {
                            out.push(format!("f p {} {}", a, hex(spec.as_bytes())));
                        }
                    }
                }
            }
        }
        for ty in ["", "s", "d", "b", "o", "x", "X", "c", "e", "E", "f", "F", "g", "G", "n", "%"] {
            for flag in ["", "<", "^", "é>", "=", "0", "+", ","] {
                for w in widths {
                    for p in precs {
                        if !thorough && matches!(flag, "^" | "é>" | "+" | ",") && !(w.is_empty() || p.is_empty()) {
                            continue;
                        }
                        let spec = format!("{{:{}{}{}{}}}|", flag, w, p, ty);
                        for a in 6..FMT_ARGSETS {
                            out.push(format!("f s {} {}", a, hex(spec.as_bytes())));
                        }
                    }
                }
            }
        }
    }
    let mut n = 0usize;
    for (style, base) in [("p", printf_base), ("s", sfmt_base)] {
        for b in base {
            for w in 0..6 {
                out.push(format!("f {} {} {}", style, w, hex(b.as_bytes())));
            }
            // a multi-byte character inserted at (and replacing the character at) every position
            let idx: Vec<usize> = b.char_indices().map(|(i, _)| i).chain(std::iter::once(b.len())).collect();
            for &i in &idx {
                for m in MB.iter().take(if thorough { 5 } else { 3 }) {
                    let ins = format!("{}{}{}", &b[..i], m, &b[i..]);
                    push(style, &ins, out, n);
                    n += 1;
                    if i < b.len() {
                        let next = i + b[i..].chars().next().unwrap().len_utf8();
                        let rep = format!("{}{}{}", &b[..i], m, &b[next..]);
                        push(style, &rep, out, n);
                        n += 1;
                    }
                }
            }
        }
        // random compositions of grammar pieces
        let lit = ["", "a", "é", "€x", "𝄞", " ", if style == "p" { "%%" } else { "{{" }, if style == "p" { "%" } else { "}}" }];
        let n_rand = if thorough { 20_000 } else { 2_500 };
        for _ in 0..n_rand {
            let mut sp = String::new();
            for _ in 0..(1 + rng.below(3)) {
                sp.push_str(pick_s(rng, &lit));
                if style == "p" {
                    sp.push('%');
                    sp.push_str(pick_s(rng, &["", "", "(a)", "(é)", "(日本)", "()", "(a", "(é", "(k)"]));
                    sp.push_str(pick_s(rng, &["", "", "-", "0", "+", " ", "#", "é", "-0+ #"]));
                    sp.push_str(pick_s(rng, &["", "", "1", "10", "é", "٣", "1é", "*", "65536"]));
                    sp.push_str(pick_s(rng, &["", "", ".", ".2", ".é", ".2é", ".0", ".*"]));
                    sp.push_str(pick_s(rng, &["", "", "l", "h", "L", "é"]));
                    sp.push_str(pick_s(rng, &["d", "i", "o", "x", "X", "e", "E", "f", "F", "g", "G", "c", "s", "r", "a", "%", "é", "€", "", "𝄞"]));
                } else {
                    sp.push('{');
                    sp.push_str(pick_s(rng, &["", "", "0", "1", "a", "é", "k", "日本", "9", "00"]));
                    sp.push_str(pick_s(rng, &["", "", ".a", ".é", ".0", "[a]", "[é]", "[0]", "[é", "[", ".", ".a.é", "[a][é]"]));
                    sp.push_str(pick_s(rng, &["", "", "", "!r", "!s", "!é"]));
                    if rng.chance(2, 3) {
                        sp.push(':');
                        sp.push_str(pick_s(rng, &["", "", "<", ">", "^", "=", "é<", "€^", "𝄞>", "x=", "é", "{<", "}>"]));
                        sp.push_str(pick_s(rng, &["", "", "+", "-", " ", "é"]));
                        sp.push_str(pick_s(rng, &["", "", "#", "z", "z#"]));
                        sp.push_str(pick_s(rng, &["", "", "0", "5", "05", "é", "٣", "65536"]));
                        sp.push_str(pick_s(rng, &["", "", ",", "_", "é"]));
                        sp.push_str(pick_s(rng, &["", "", ".2", ".", ".é", ".0"]));
                        sp.push_str(pick_s(rng, &["", "", "b", "c", "d", "e", "E", "f", "F", "g", "G", "n", "o", "s", "x", "X", "%", "é", "𝄞"]));
                    }
                    sp.push_str(pick_s(rng, &["}", "}", "}", "", "}}", "é}"]));
                }
            }
            sp.push_str(pick_s(rng, &lit));
            if rng.chance(1, 8) {
                let cut = char_floor(&sp, rng.below(sp.len() as u64 + 1) as usize);
                sp.truncate(cut);
            }
            out.push(format!("f {} {} {}", style, rng.below(FMT_ARGSETS as u64), hex(sp.as_bytes())));
            // the same spec through the `format` filter of a template (printf style)
            if style == "p" && !sp.contains('\'') && !sp.contains('\\') && rng.chance(1, 3) {
                let src = format!("{{{{ '{}'|format(1, 2.5, 'é€', **{{'é': 1, 'a': xs, 'k': m}}) }}}}{{{{ '{}'|format(ms) }}}}", sp, sp);
                out.push(format!("t fmt:filter 0 {}", hex(src.as_bytes())));
            }
        }
    }
}

/// boundary integers of every representation a `Value` has (I64, U64, I128, U128)
const INTOP_BOX: &[&str] = &[
    "0", "1", "-1", "2", "-2", "3", "-3", "7", "10", "63", "64", "127", "128", "255", "256", "2147483647", "4294967295", "4294967296",
    "4294967297", "9223372036854775807", "9223372036854775808", "-9223372036854775808", "-9223372036854775809",
    "18446744073709551615", "18446744073709551616", "10000000000000000000", "13043817825332782212",
    "170141183460469231731687303715884105727", "170141183460469231731687303715884105728",
    "-170141183460469231731687303715884105728", "-170141183460469231731687303715884105727",
    "340282366920938463463374607431768211455", "-85070591730234615865843651857942052864",
];

fn gen_intop_cases(out: &mut Vec<String>, thorough: bool) {
    for op in ["add", "sub", "mul", "rem", "intdiv", "pow"] {
        for a in INTOP_BOX {
            for b in INTOP_BOX {
                out.push(format!("k intop {} {} {}", op, a, b));
                if thorough || matches!(*b, "0" | "-1" | "2" | "4294967296" | "-9223372036854775808") {
                    out.push(format!("k intoplit {} {} {}", op, a, b));
                }
            }
        }
    }
    for op in ["neg", "abs"] {
        for a in INTOP_BOX {
            out.push(format!("k intop {} {} 0", op, a));
            out.push(format!("k intoplit {} {} 0", op, a));
        }
    }
}

fn gen_kernel_cases(out: &mut Vec<String>, thorough: bool) {
    gen_intop_cases(out, thorough);
    // the window of source lines in the debug output: every error line of short templates, both ends of a long one
    for n in [1usize, 2, 3, 4, 5, 6, 7, 8, 9, 50] {
        for l in 1..=n {
            if n < 10 || l <= 5 || l + 5 >= n {
                out.push(format!("k dbgwin {} {}", l, n));
            }
        }
    }
    // strings over an alphabet of every escaping class and UTF-8 width: all of length <= 3 (thorough: 4)
    {
        let alpha: [u32; 16] = [97, 39, 34, 92, 10, 9, 0, 127, 128, 133, 159, 160, 233, 8364, 0x1D11E, 0x2028];
        out.push("k reprstr _".to_string());
        let maxlen = if thorough { 4 } else { 3 };
        let mut level: Vec<String> = vec![String::new()];
        for _ in 0..maxlen {
            let mut next = vec![];
            for p in &level {
                for a in alpha {
                    let s = if p.is_empty() { a.to_string() } else { format!("{},{}", p, a) };
                    out.push(format!("k reprstr {}", s));
                    next.push(s);
                }
            }
            level = next;
        }
    }
    // range: boundary box
    let rb: &[&str] = &["-9223372036854775808", "-9223372036854775807", "-4611686018427387904", "-100001", "-100000", "-7", "-2", "-1", "0", "1", "2", "3", "7", "99999", "100000", "100001", "4611686018427387904", "9223372036854775806", "9223372036854775807"];
    let rs: &[&str] = &["_", "-9223372036854775808", "-9223372036854775807", "-4611686018427387904", "-100000", "-3", "-2", "-1", "0", "1", "2", "3", "100000", "4611686018427387904", "9223372036854775807"];
    for a in rb {
        out.push(format!("k range {} _ _", a));
        for b in rb {
            for c in rs {
                out.push(format!("k range {} {} {}", a, b, c));
            }
        }
    }
    for n in ["0", "1", "2", "5"] {
        for argc in 0..4 {
            out.push(format!("k cycle {} {}", n, argc));
        }
    }
    let muln: &[&str] = &["-1", "0", "1", "2", "3", "1000", "14285714", "14285715", "33333333", "33333334", "50000000", "50000001", "100000000", "100000001", "4294967296", "4611686018427387904", "9223372036854775807", "9223372036854775808", "18446744073709551615", "18446744073709551616", "-9223372036854775808"];
    for l in ["0", "1", "2", "3", "7"] {
        for n in muln {
            if !thorough && (l == "7" || l == "2") && n.len() == 8 {
                continue;
            }
            out.push(format!("k mulstr {} {} l", l, n));
            if l == "1" || l == "3" {
                out.push(format!("k mulstr {} {} r", l, n));
            }
        }
    }
    let seqn: &[&str] = &["-1", "0", "1", "2", "3", "1000", "4294967296", "3074457345618258602", "3074457345618258603", "4611686018427387904", "6148914691236517205", "6148914691236517206", "9223372036854775807", "9223372036854775808", "18446744073709551615", "18446744073709551616", "1099511627776"];
    for kind in ["list", "tuple", "iter", "unsized"] {
        for l in ["0", "1", "2", "3"] {
            for n in seqn {
                if kind == "unsized" && l == "0" {
                    continue; // an empty filter iterator has an exact size hint
                }
                out.push(format!("k mulseq {} {} {}", kind, l, n));
            }
        }
    }
    let widths: &[&str] = &["-1", "0", "1", "2", "4", "100", "65530", "65531", "65532", "65535", "65536", "1000000", "1000001", "10000000", "100000000", "100000001", "4294967296", "1099511627776", "4611686018427387904", "9223372036854775807", "9223372036854775808", "18446744073709551615", "18446744073709551616"];
    for l in ["0", "1", "5", "9"] {
        for w in widths {
            if w.len() >= 8 && w.len() <= 9 && !(l == "5") {
                continue;
            }
            for fb in [("0", "0"), ("1", "0"), ("1", "1")] {
                if w.len() >= 8 && w.len() <= 9 && fb.1 == "1" {
                    continue;
                }
                out.push(format!("k indent {} {} {} {}", l, w, fb.0, fb.1));
            }
        }
    }
    for w in widths {
        if w.len() != 8 && !(w.len() == 9 && *w == "100000000") {
            // 10^7 … 10^8: the output is 5·indent + 12 bytes several times over in memory — legitimate,
            // but it exhausts the workers' 2 GiB cap depending on what ran before
            out.push(format!("k tojson {}", w));
        }
        for st in ["pw", "pz", "pp", "ps", "pg", "ph", "sw", "sz", "sc", "sg", "sp", "sh"] {
            if w.starts_with('-') {
                continue;
            }
            if (w.len() == 8 || w.len() == 9) && !(st == "pw" || st == "sz" || st == "pp" || st == "sg") {
                continue;
            }
            out.push(format!("k fmtw {} {}", st, w));
        }
    }
    let counts: &[&str] = &["-1", "0", "1", "2", "3", "4", "5", "7", "1000", "100000", "1000000", "4294967296", "384307168202282325", "384307168202282326", "4611686018427387904", "9223372036854775807", "9223372036854775808", "18446744073709551615", "18446744073709551616"];
    for len in 0..=6 {
        for n in counts {
            for fill in ["0", "1"] {
                out.push(format!("k batch {} {} {}", len, n, fill));
                out.push(format!("k slicef {} {} {}", len, n, fill));
            }
        }
    }
    for l in 0..=5 {
        out.push(format!("k loopattr {} 1", l));
        out.push(format!("k loopattr {} 0", l));
    }
    for l in 1..=5 {
        for sized in ["1", "0"] {
            out.push(format!("k loopesc {} {} 0", l, sized));
            out.push(format!("k loopesc {} {} 1", l, sized));
        }
    }
    for st in ["c", "u", "x"] {
        for d in [1u32, 2, 3, 4, 5, 6, 7, 8, 9, 12, 13, 20, 30] {
            for w in 0..=24 {
                out.push(format!("k zpad {} {} {}", st, d, w));
            }
            for w in [40, 41, 42, 43, 100, 1000] {
                out.push(format!("k zpad {} {} {}", st, d, w));
            }
        }
    }
    // parse derivations around MAX_EXPR_NESTING (1000)
    for kind in ["f", "c", "a", "p", "i"] {
        for n in [0usize, 1, 2, 500, 999, 1000, 1001, 1500] {
            out.push(format!("k nest c{}(x,{}*x)", kind, n));
        }
        for (a, b) in [(500usize, 500usize), (500, 501), (1, 999), (1, 1000), (999, 1), (1000, 1)] {
            // chains on the path through the left operand add up
            out.push(format!("k nest c{}(ca(x,{}*x),{}*x)", kind, a, b));
            out.push(format!("k nest c{}(g(ca(x,{}*x),x),{}*x)", kind, a, b));
        }
    }
    for kind in ["f", "c", "p", "i"] {
        for (a, b) in [(600usize, 600usize), (999, 5), (1000, 5), (5, 999), (5, 1000), (998, 998)] {
            // sub-expressions next to each other: the longer one counts, then the wrapping node
            out.push(format!("k nest c{}(x,g(ca(x,{}*x),ca(x,{}*x)))", kind, a, b));
            out.push(format!("k nest c{}(x,ca(x,{}*x),ca(x,{}*x))", kind, a, b));
            out.push(format!("k nest c{}(x,{}*x,ca(x,{}*x))", kind, a, b));
            out.push(format!("k nest g(c{}(x,{}*x),c{}(x,{}*x))", kind, a, kind, b));
        }
        for d in [1usize, 2, 3, 10] {
            // `d` levels of chains of 400 nested in each other's last iteration
            let mut e = "ca(x,400*x)".to_string();
            for _ in 0..d {
                e = format!("c{}(x,399*x,{})", kind, e);
            }
            out.push(format!("k nest {}", e));
        }
    }
    out.push("k nest g(2000*ca(x,3*x))".to_string());
    out.push("k nest cf(x,g(300*cp(x,3*x)))".to_string());
    for nl in ["0", "2", "65533", "65534", "65535", "65536", "70000"] {
        for pad in ["0", "1", "7", "65530", "65533", "65534", "65535", "65536", "70000"] {
            for tail in ["str", "tok", "chr", "blk", "eof", "mb", "ml", "call", "plus"] {
                if !thorough && nl.len() == 5 && pad.len() == 5 && !(nl == "65535" || pad == "65535") {
                    continue;
                }
                out.push(format!("k lexcol {} {} {}", nl, pad, tail));
            }
        }
    }
}

// ---- grammar-aware mutator -----------------------------------------------------------------------
fn dict_tokens() -> Vec<String> {
    let mut v = vec![];
    for l in FUZZ_DICT.lines() {
        let l = l.trim();
        if l.starts_with('"') && l.ends_with('"') && l.len() >= 2 {
            v.push(l[1..l.len() - 1].replace("\\\"", "\"").replace("\\\\", "\\"));
        }
    }
    for t in [
        "{{", "}}", "{%", "%}", "{#", "#}", "{%-", "-%}", "{{-", "-}}", "(", ")", "[", "]", "{", "}", ",", ":", ".", "|", "~", "+", "-",
        "*", "**", "/", "//", "%", "==", "!=", "<", "<=", ">", ">=", "=", "'", "\"", "\\", "\n", " ", "not ", "- ", "is ", "in ",
        "if ", "else ", "elif ", "endif", "for ", "endfor", "recursive", "with ", "endwith", "set ", "endset", "block ", "endblock",
        "macro ", "endmacro", "call ", "endcall", "filter ", "endfilter", "autoescape ", "endautoescape", "include ", "import ",
        "from ", "extends ", "do ", "break", "continue", "raw", "endraw", "loop", "loop.cycle()", "loop.changed(", "loop(", "self",
        "super()", "caller()", "varargs", "kwargs", "namespace()", "ignore missing", "with context", "as ", "scoped", "required",
        "9223372036854775807", "-9223372036854775808", "18446744073709551615", "170141183460469231731687303715884105728",
        "0x7fffffffffffffff", "0b1", "0o7", "1e999", "1_000", "1.", ".5", "1e", "99999999999999999999999999999999999999999999",
        "'%99999999999d'|format(1)", "|indent(9223372036854775807)", "|batch(0)", "|slice(0)", "[::-1]", "[::0]", "[-1:0:-9223372036854775808]",
        "range(9223372036854775807)", "* 9223372036854775807", "'layout.html'", "'inc.txt'", "'selfinc.txt'", "'macros.txt'", "'case.txt'",
        "é", "€", "𝄞", "\u{0}", "\r\n", "\t", "\u{feff}", "\u{2028}",
    ] {
        v.push(t.to_string());
    }
    v
}

fn seeds() -> Vec<String> {
    // constructs the repository's seeds do not contain
    let mut v: Vec<String> = [
        "{% raw %}{{ x }}{% endraw %}|{% raw -%} a {%- endraw %}|{%- raw %}{% endraw -%}",
        "a\n{% raw %}\nbody {% if %}\n{% endraw %}\nb\n  {% raw %}  {# c #}  {% endraw %}  \n",
        "{# c1 #}\n  {# c2 -#}  \n{#- c3 #}x{#+ c4 +#}\n",
        "<ul>\n  {% for item in xs %}\n    <li>{{ item }}</li>\n  {%+ endfor %}\n</ul>\n{%- if x +%}\n y\n{% endif -%}\n",
    ].iter().map(|s| s.to_string()).collect();
    for dir in ["/repo/fuzz/seeds/render", "/repo/fuzz/seeds/add_template", "/repo/minijinja/tests/inputs", "/repo/minijinja/tests/inputs/refs", "/repo/minijinja/tests/parser-inputs", "/repo/minijinja/tests/lexer-inputs", "/repo/minijinja/tests/fragment-inputs"] {
        if let Ok(rd) = std::fs::read_dir(dir) {
            let mut ps: Vec<_> = rd.filter_map(|e| e.ok()).map(|e| e.path()).filter(|p| p.is_file()).collect();
            ps.sort();
            for p in ps {
                if let Ok(s) = std::fs::read_to_string(&p) {
                    // test inputs: `{json}\n---\ntemplate`
                    let body = match s.split_once("\n---\n") {
                        Some((_, b)) => b.to_string(),
                        None => s,
                    };
                    if body.len() <= 6000 {
                        v.push(body);
                    }
                }
            }
        }
    }
    v
}

fn char_floor(s: &str, mut i: usize) -> usize {
    if i > s.len() {
        i = s.len();
    }
    while !s.is_char_boundary(i) {
        i -= 1;
    }
    i
}

/// token boundaries a delimiter-aware cut may use
fn cut_points(s: &str) -> Vec<usize> {
    let mut pts = vec![0, s.len()];
    for pat in ["{{", "}}", "{%", "%}", "{#", "#}", " ", "|", "(", ")", ",", "\n", "."] {
        let mut i = 0;
        while let Some(p) = s[i..].find(pat) {
            pts.push(i + p);
            pts.push(i + p + pat.len());
            i += p + pat.len();
            if pts.len() > 4000 {
                break;
            }
        }
    }
    pts.sort();
    pts.dedup();
    pts
}

fn pick_s<'a>(rng: &mut Rng, xs: &[&'a str]) -> &'a str {
    xs[rng.below(xs.len() as u64) as usize]
}

fn mutate(rng: &mut Rng, seeds: &[String], dict: &[String]) -> String {
    let mut s = rng.pick(seeds).clone();
    let rounds = 1 + rng.below(5);
    for _ in 0..rounds {
        let pts = cut_points(&s);
        let a = *rng.pick(&pts);
        let b = *rng.pick(&pts);
        let (a, b) = if a <= b { (a, b) } else { (b, a) };
        match rng.below(12) {
            0 => { let t = rng.pick(dict).clone(); s.insert_str(a, &t) }
            1 => {
                let t = rng.pick(dict).clone();
                let e = char_floor(&s, b.min(a + 40)); s.replace_range(a..e, &t);
            }
            2 => { let e = char_floor(&s, b.min(a + 60)); s.replace_range(a..e, "") }
            3 => {
                // duplicate a range several times (nesting-ish / long chains)
                let piece = s[a..char_floor(&s, b.min(a + 80))].to_string();
                let k = 1 + rng.below(40) as usize;
                s.insert_str(a, &piece.repeat(k));
            }
            4 => {
                // splice a piece of another seed
                let o = rng.pick(seeds);
                let op = cut_points(o);
                let x = *rng.pick(&op);
                let y = *rng.pick(&op);
                let (x, y) = if x <= y { (x, y) } else { (y, x) };
                s.insert_str(a, &o[x..char_floor(o, y.min(x + 200))]);
            }
            5 => {
                // replace a decimal number by a boundary number
                let bytes = s.as_bytes();
                let mut starts = vec![];
                for i in 0..bytes.len() {
                    if bytes[i].is_ascii_digit() && (i == 0 || !bytes[i - 1].is_ascii_digit()) {
                        starts.push(i);
                    }
                }
                if !starts.is_empty() {
                    let st = *rng.pick(&starts);
                    let mut en = st;
                    while en < bytes.len() && bytes[en].is_ascii_digit() {
                        en += 1;
                    }
                    s.replace_range(st..en, pick_s(rng, INT_BOUNDS));
                } else {
                    s.insert_str(a, pick_s(rng, INT_BOUNDS));
                }
            }
            6 => {
                // wrap a range into a block construct
                let wraps = [("{% for q in xs %}", "{% endfor %}"), ("{% with q=1 %}", "{% endwith %}"), ("{% if x %}", "{% else %}{% endif %}"),
                    ("{% filter upper %}", "{% endfilter %}"), ("{% set q %}", "{% endset %}"), ("{% macro q() %}", "{% endmacro %}{{ q() }}"),
                    ("{% autoescape true %}", "{% endautoescape %}"), ("{% block q %}", "{% endblock %}"), ("{% call m() %}", "{% endcall %}"),
                    ("{% for q in xs %}{% with z=1 %}", "{% break %}{% endwith %}{% endfor %}"), ("{% raw %}", "{% endraw %}"), ("{{ (", ") }}")];
                let (o, c) = rng.pick(&wraps);
                s.insert_str(b, c);
                s.insert_str(a, o);
            }
            7 => {
                // insert a statement at a statement boundary
                let stmts = ["{% break %}", "{% continue %}", "{% include 'inc.txt' %}", "{% include x %}", "{% extends 'layout.html' %}",
                    "{% import 'macros.txt' as mm %}{{ mm.m(1) }}", "{% from 'macros.txt' import m, r %}{{ r(3) }}", "{% do xs() %}", "{{ super() }}",
                    "{{ loop.cycle() }}", "{{ loop.changed() }}", "{{ caller() }}", "{% set a, b = xs %}", "{% set (a, (b, c)) = nested %}",
                    "{{ self.title() }}", "{% include ['nosuch', 'inc.txt'] ignore missing %}", "{{ debug() }}", "{% extends x %}"];
                s.insert_str(a, pick_s(rng, &stmts));
            }
            8 => {
                // apply a filter / test / postfix at an expression end
                let post = ["|batch(big)", "|slice(big)", "|indent(big)", "|first", "|list", "|sort(attribute='x')", "|map('upper')", "|join(big)",
                    "|round(big)", "|tojson(big)", "|format(big)", "[big]", "[small:big:small]", ".a.b", "(big)", " is divisibleby 0", " is eq big",
                    " * big", " ** big", " // 0", " % 0", " ~ big", "|groupby('x')", "|unique", "|items", "|dictsort", "|reverse", "|string|int", "|abs",
                    "|sum", "|min", "|max", "|last", "|length", "|urlencode", "|pprint", "|e", "|safe", "|trim(big)", "|replace('', 'x')", "|split('')", "|lines", "|chain(xs)", "|zip(xs)"];
                let p = s.find("}}").unwrap_or(a);
                let p = if rng.chance(1, 2) { p } else { s.rfind("}}").unwrap_or(a) };
                let at = char_floor(&s, p); s.insert_str(at, pick_s(rng, &post));
            }
            9 => {
                // raw byte-level damage at a char boundary
                let i = char_floor(&s, rng.below(s.len() as u64 + 1) as usize);
                let junk = ["\u{0}", "\u{7f}", "\u{80}", "\u{fffd}", "{", "%", "#", "}", "'", "\"", "\\", "\n", "\r"];
                s.insert_str(i, pick_s(rng, &junk));
            }
            10 => {
                // truncate
                let i = char_floor(&s, rng.below(s.len() as u64 + 1) as usize);
                s.truncate(i);
            }
            _ => {
                // swap two ranges' order (a..b moved to the front)
                let piece = s[a..char_floor(&s, b.min(a + 100))].to_string();
                s.insert_str(0, &piece);
            }
        }
        if s.len() > 20_000 {
            let i = char_floor(&s, 20_000);
            s.truncate(i);
        }
    }
    s
}

fn cfg_number(ub: usize, ws: usize, syn: usize, misc: usize) -> usize {
    ub % 4 + 4 * (ws % 8 + 8 * (syn % NSYN + NSYN * (misc % 4)))
}

/// whitespace of every UTF-8 width (and line breaks of every kind)
const WS_KINDS: &[&str] = &[" ", "\n", "\r\n", "\r", "\t", "\u{a0}", "\u{85}", "\u{2028}", "\u{2029}", "\u{3000}", "\u{b}", "\u{c}", "\u{1680}", " \u{a0}\n", "\u{2028}\n"];

/// one kind of whitespace behind every end delimiter (`which` != 2) and in front of every start delimiter
/// (`which` != 1) of syntax `syn`: what trim_blocks / lstrip_blocks / the whitespace-control characters act on
fn ws_around(s: &str, syn: usize, ws: &str, which: usize) -> String {
    let (d, _, _) = syntax_parts(syn);
    let mut t = String::with_capacity(s.len() * 2);
    let mut i = 0;
    'outer: while i < s.len() {
        for (k, delim) in d.iter().enumerate() {
            if s[i..].starts_with(delim) {
                if k % 2 == 0 && which != 1 {
                    t.push_str(ws);
                }
                t.push_str(delim);
                if k % 2 == 1 && which != 2 {
                    t.push_str(ws);
                }
                i += delim.len();
                continue 'outer;
            }
        }
        let c = s[i..].chars().next().unwrap();
        t.push(c);
        i += c.len_utf8();
    }
    t
}

/// byte-level damage with the tokens of syntax configuration `syn`: its delimiters (with and without
/// the whitespace-control characters), its line statement / line comment prefixes at line starts and in
/// the middle of lines, pieces of its delimiters
fn mutate_in_syntax(rng: &mut Rng, mut s: String, syn: usize) -> String {
    let (d, ls, lc) = syntax_parts(syn);
    if rng.chance(1, 4) {
        let ws = pick_s(rng, WS_KINDS);
        s = ws_around(&s, syn, ws, rng.below(3) as usize);
    }
    let rounds = rng.below(3);
    for _ in 0..rounds {
        let at = char_floor(&s, rng.below(s.len() as u64 + 1) as usize);
        let k = rng.below(6) as usize;
        let piece = match rng.below(9) {
            0 => d[k].to_string(),
            1 => format!("{}-", d[k & !1usize]),
            2 => format!("-{}", d[k | 1]),
            3 => format!("{}+", d[k & !1usize]),
            4 => {
                // a delimiter cut inside (multi-byte delimiters: at a char boundary)
                let t = d[k];
                t[..char_floor(t, 1 + rng.below(t.len() as u64) as usize)].to_string()
            }
            5 => match ls {
                Some(p) => format!("\n {} {}\n", p, pick_s(rng, &["for q in xs", "endfor", "if x", "else", "endif", "set q = 1", "break", "raw", "endraw", "", "for q in xs:", "include 'inc.txt'"])),
                None => "\n".to_string(),
            },
            6 => match lc {
                Some(p) => format!("\n{} c {}\n", p, d[k]),
                None => "\r\n".to_string(),
            },
            7 => match ls {
                Some(p) => p.to_string(),
                None => d[k].repeat(2),
            },
            _ => format!("{} {}", d[2], d[3]),
        };
        // whitespace of every width next to the piece (the whitespace switches slice around delimiters)
        let ws = ["", "", " ", "\n", "\r\n", "\t", "\u{a0}", "\u{85}", "\u{2028}", "\u{3000}", "\u{b}", "\u{c}", "\u{feff}", "\u{200b}"];
        let piece = format!("{}{}{}", pick_s(rng, &ws), piece, pick_s(rng, &ws));
        s.insert_str(at, &piece);
    }
    s
}

fn gen_cases(thorough: bool) -> Vec<String> {
    // mjh::Rng states of neighbouring seeds are shifted copies of each other (state = (seed + k)·C + D);
    // spread the seed first so that VERIF_SEED=n and n+1 give unrelated streams
    let spread = seed_from_env().wrapping_add(0xC01).wrapping_mul(0xD6E8_FEB8_6659_FD93).rotate_left(29) ^ 0x5851_F42D_4C95_7F2D;
    let mut rng = Rng::new(spread);
    let mut cases = vec![];
    // (0) corpus: minimised past failures, replayed first
    if let Ok(rd) = std::fs::read_dir(concat!(env!("CARGO_MANIFEST_DIR"), "/../corpus/C01")) {
        let mut ps: Vec<_> = rd.filter_map(|e| e.ok()).map(|e| e.path()).filter(|p| p.extension().map_or(false, |x| x == "cases")).collect();
        ps.sort();
        for p in ps {
            if let Ok(s) = std::fs::read_to_string(&p) {
                for l in s.lines() {
                    let l = l.trim();
                    if !l.is_empty() && !l.starts_with('#') {
                        cases.push(l.to_string());
                    }
                }
            }
        }
    }
    // (4) depth probes first: they are the slow ones, spread over the shards
    let depths: &[usize] = if thorough { &[100, 1000, 10_000, 100_000] } else { &[100, 1000, 10_000] };
    for kind in DEPTH_KINDS {
        for n in depths {
            cases.push(format!("d {} {}", kind, n));
        }
    }
    // (4b) adversarial probes derived from the nesting model: chains stacked through every grouping
    // primary, at every placement
    for ck in CHAIN_KINDS {
        for pk in GROUP_KINDS {
            if *pk == "filterarg" && matches!(*ck, "attr" | "item" | "call") {
                continue; // no postfix after a filter: not in the grammar
            }
            for g in if thorough { vec![2usize, 3, 12, 60] } else { vec![2usize, 60] } {
                cases.push(format!("d stk:{}:{}:expr {}", ck, pk, g));
            }
            for g in if thorough { vec![1usize, 2, 10, 60] } else { vec![2usize, 60] } {
                cases.push(format!("d stkmax:{}:{}:expr {}", ck, pk, g));
            }
        }
        for pl in PLACEMENTS.iter().skip(1) {
            if *ck == "ternary" && matches!(*pl, "for" | "if") {
                continue; // `if` after the iterable / condition is not a conditional expression there
            }
            cases.push(format!("d stk:{}:paren:{} 2", ck, pl));
            cases.push(format!("d stk:{}:list:{} 40", ck, pl));
            cases.push(format!("d stkmax:{}:paren:{} 40", ck, pl));
        }
    }
    // (4c) width probes: for every integer constant N of compiler/ and vm/ the counts N-1, N, N+1 of every
    // kind of thing a template can have many of (plus a few large ones)
    {
        let mut ks: Vec<usize> = vec![0, 1, 1000];
        for n in width_constants() {
            if n <= 2100 || thorough {
                ks.extend_from_slice(&[n - 1, n, n + 1]);
            }
        }
        if thorough {
            ks.push(10_000);
        }
        ks.sort();
        ks.dedup();
        // the value probes under the other auto-escape modes too (each mode has its own output path)
        for kind in ["intval", "loopindex", "longstr", "vars", "bigint"] {
            for esc in ["html", "json"] {
                for &k in &ks {
                    if k <= 2100 || (thorough && k <= 70_000) {
                        cases.push(format!("d w:{}@{} {}", kind, esc, k));
                    }
                }
                cases.push(format!("d w:{}@{} 65535", kind, esc));
                cases.push(format!("d w:{}@{} 65536", kind, esc));
            }
        }
        for kind in WIDTH_KINDS {
            for &k in &ks {
                if k > 70_000 || (k > 2100 && *kind == "blocks") || (k > 2100 && !thorough && !matches!(*kind, "vars" | "lines" | "longline" | "longname" | "intval")) {
                    continue;
                }
                cases.push(format!("d w:{} {}", kind, k));
            }
        }
        for k in [65_534usize, 65_535, 65_536, 65_537] {
            for kind in ["vars", "lines", "longline", "longname", "longstr", "intval"] {
                cases.push(format!("d w:{} {}", kind, k));
            }
            // everything whose count travels in a u16 / is cast: at the u16 boundary whatever the parser's limits are
            if k == 65_535 || k == 65_536 {
                for kind in ["callargs", "kwargs", "macroargs", "callblkargs", "nskwargs", "unpack", "looptargets", "includelist", "filterchain", "sets", "loopindex"] {
                    cases.push(format!("d w:{} {}", kind, k));
                }
            }
        }
    }
    // (4d) accumulate-loop probes: every value-building operator / filter that can wrap its own previous
    // result x operand order x kind of the other operand x sized / unsized accumulator
    {
        // the probes run on a 256 KiB stack (`run_depth`): a wrapper per round overflows it after 1000–2000 rounds
        let rounds = if thorough { 10_000 } else { 4_000 };
        for op in ["add", "chain"] {
            for order in ["first", "last", "mid"] {
                for other in ["list", "range", "tuple", "lazy", "fresh", "str"] {
                    for start in ["sized", "unsized"] {
                        cases.push(format!("d acc:{}:{}:{}:{} {}", op, order, other, start, rounds));
                    }
                }
            }
        }
        for order in ["first", "last", "mid"] {
            for other in ["str", "safe", "fresh", "list"] {
                cases.push(format!("d acc:tilde:{}:{}:str {}", order, other, rounds.min(20_000)));
            }
        }
        // (`string|lines` applied to its own result doubles its escapes every round: memory, not nesting)
        for f in ["map", "select", "reject", "batch", "slice", "reverse", "list", "unique", "sort", "default", "zip", "groupby"] {
            for start in ["sized", "unsized", "two"] {
                cases.push(format!("d acc:filter:{}:none:{} {}", f, start, rounds.min(20_000)));
            }
        }
        for (op, start) in [("mul", "two"), ("mul", "unsized"), ("dict", "map"), ("chain", "map"), ("slice", "two"), ("slice", "unsized"), ("slicerev", "two"), ("filter:items", "map")] {
            let (o, ord) = op.split_once(':').unwrap_or((op, "first"));
            cases.push(format!("d acc:{}:{}:map:{} {}", o, ord, start, rounds.min(20_000)));
        }
    }
    for pat in ["af", "fa", "aff", "ffa", "faf", "ffaff", "ca", "ac", "cfa", "cafc", "mix", "lazyfresh"] {
        for sized in ["0", "1"] {
            for k in [33usize, 100, 1500] {
                cases.push(format!("k mergedepth {} {} {}", pat, sized, k));
            }
        }
    }
    for kind in ["filter", "test"] {
        for k in (0..=80).chain([254, 255, 256, 257, 299, 300]) {
            cases.push(format!("k localid {} {}", kind, k));
        }
    }
    // (1) kernels
    gen_kernel_cases(&mut cases, thorough);
    // (1b) construct compositions (loading through every API path, undeclared_variables, render)
    {
        let mut crng = Rng::new(spread ^ 0xC0_4D05E);
        gen_compose_cases(&mut cases, &mut crng, thorough);
    }
    // (2) builtins, format strings
    gen_builtin_cases(&mut cases, &mut rng, thorough);
    gen_kindpos_cases(&mut cases, thorough);
    gen_format_cases(&mut cases, &mut rng, thorough);
    // (3) mutated templates: all seeds unchanged first, then mutants
    let seeds = seeds();
    let dict = dict_tokens();
    for (i, s) in seeds.iter().enumerate() {
        for w in 0..4 {
            cases.push(format!("t mut:seed {} {}", w, hex(s.as_bytes())));
        }
        if i % 3 == 0 {
            cases.push(format!("e mut:seedexpr 0 {}", hex(s.as_bytes())));
        }
        // every seed under every syntax configuration (rewritten into it), the whitespace switches,
        // undefined behaviours and the other switches rotating
        for syn in 1..NSYN {
            let cfg = cfg_number((i + syn) % 4, (i * 3 + syn) % 8, syn, (i / 2 + syn) % 4);
            cases.push(format!("t mut:seedcfg {} {}", i % 4 + 4 * cfg, hex(translate_syntax(s, syn).as_bytes())));
        }
        cases.push(format!("t mut:seedcfg {} {}", i % 4 + 4 * cfg_number(i % 4, 1 + i % 7, 0, i % 4), hex(s.as_bytes())));
        // every seed x every kind of whitespace around its delimiters, the whitespace switches and syntaxes rotating
        if s.len() <= 2000 {
            for (w, ws) in WS_KINDS.iter().enumerate() {
                let syn = if (i + w) % 3 == 0 { (i + w) % NSYN } else { 0 };
                let cfg = cfg_number(0, 1 + (i + w) % 7, syn, 0);
                let src = ws_around(&translate_syntax(s, syn), syn, ws, (i / 7 + w) % 3);
                cases.push(format!("t mut:seedws {} {}", i % 2 + 4 * cfg, hex(src.as_bytes())));
            }
        }
    }
    let n_mut = if thorough { 100_000 } else { 15_000 };
    for i in 0..n_mut {
        let m = mutate(&mut rng, &seeds, &dict);
        if i % 10 == 9 {
            // expression position: take the inside of the first {{ }} if any
            let inner = m.split("{{").nth(1).and_then(|r| r.split("}}").next()).unwrap_or(&m).to_string();
            let cfg = if i % 20 == 9 { 0 } else { cfg_number(rng.below(4) as usize, 0, 0, rng.below(3) as usize) };
            cases.push(format!("e mut:expr {} {}", i % 4 + 4 * cfg, hex(inner.as_bytes())));
        } else if i % 2 == 0 {
            cases.push(format!("t mut:tmpl {} {}", i % 4, hex(m.as_bytes())));
        } else {
            // the same kind of mutant under a non-default configuration: rewritten into the syntax, then
            // damaged once more with the tokens of that syntax
            let syn = rng.below(NSYN as u64) as usize;
            let cfg = cfg_number(rng.below(4) as usize, rng.below(8) as usize, syn, rng.below(4) as usize);
            let m = mutate_in_syntax(&mut rng, translate_syntax(&m, syn), syn);
            cases.push(format!("t mut:cfg {} {}", i % 4 + 4 * cfg, hex(m.as_bytes())));
        }
    }
    cases
}

fn main() {
    let args: Vec<String> = std::env::args().collect();
    match args.get(1).map(|s| s.as_str()) {
        Some("worker") => worker(args.get(2).map(|s| s.as_str()).unwrap_or("main")),
        Some("gen") => {
            let thorough = args.get(2).map(|s| s == "thorough").unwrap_or(false);
            let cases = gen_cases(thorough);
            run_all(cases, &["main", "t2m"], Duration::from_secs(if thorough { 120 } else { 20 }));
        }
        Some("list") => {
            let thorough = args.get(2).map(|s| s == "thorough").unwrap_or(false);
            for c in gen_cases(thorough) {
                println!("{}", c);
            }
        }
        Some("stdin") => {
            // cases from stdin (one per line) through the worker machinery
            let cases: Vec<String> = std::io::stdin().lock().lines().filter_map(|l| l.ok()).filter(|l| !l.is_empty()).collect();
            run_all(cases, &["main", "t2m"], Duration::from_secs(120));
        }
        Some("one") => {
            let case = args[2..].join(" ");
            run_all(vec![case], &["main", "t2m"], Duration::from_secs(120));
        }
        Some("streams") => {
            install_hook();
            dump_streams(args.get(2).map(|s| s == "thorough").unwrap_or(false));
        }
        Some("why") => {
            // the error message of a `t` / `c` case (debugging aid)
            let case = args[2..].join(" ");
            let f: Vec<&str> = case.split(' ').collect();
            let (src, which) = if f[0] == "c" { (compose_source(f[1], f[4]).map(|x| x.0).unwrap_or_default(), f[3].parse().unwrap_or(0)) } else { (String::from_utf8_lossy(&unhex(f[3])).to_string(), f[2].parse().unwrap_or(0)) };
            let env = make_env(None);
            println!("{}", src);
            match env.render_named_str("case.txt", &src, ctx_zoo(which)) {
                Ok(s) => println!("OK {}", s),
                Err(e) => println!("ERR {}", e),
            }
        }
        Some("constants") => {
            println!("{:?}", width_constants());
        }
        Some("info") => {
            // facts about the build the Lean model assumes
            println!("size_of_value\t{}", std::mem::size_of::<Value>());
            println!("pointer_width\t{}", usize::BITS);
        }
        Some("show") => {
            // decode a case for humans
            let case = args[2..].join(" ");
            let f: Vec<&str> = case.split(' ').collect();
            if (f[0] == "t" || f[0] == "e") && f.len() == 4 {
                println!("{}", String::from_utf8_lossy(&unhex(f[3])));
            } else if f[0] == "c" && f.len() == 5 {
                println!("{}", compose_source(f[1], f[4]).map(|x| x.0).unwrap_or_default());
            } else if f[0] == "d" && f.len() == 3 {
                let (s, _) = depth_source(f[1], f[2].parse().unwrap_or(0).min(5));
                println!("(n capped to 5) {}", s);
            } else {
                println!("{}", case);
            }
        }
        _ => {
            eprintln!("usage: c01 gen <quick|thorough> | c01 one <case> | c01 stdin | c01 list <tier> | c01 show <case> | c01 worker <main|t2m>");
            std::process::exit(2);
        }
    }
}
