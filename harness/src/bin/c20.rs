//! C20 correspondence harness: deterministic scheduler over REAL threads running the real
//! `minijinja_autoreload::AutoReloader`, driven through the `verif_hooks` yield points.
//!
//! usage: c20 gen <quick|thorough>     — configuration lines for the Lean driver (`<cfg> <mode…>`)
//!        c20 run                      — stdin: `<cfg>\t<sched>[\t…]` lines → `<cfg>\t<sched>\t<observed>`
//!        c20 one <cfg> <sched>        — replay one schedule (verbose)
//!        c20 probe                    — mutex-level checks that cannot be expressed as a schedule
//!        c20 store <quick|thorough>   — op sequences on the template store that fast reload clears (c20_store.inc)
//!        c20 store one <ops>          — replay one of them
//!        c20 life <quick|thorough> | life one <ops> — lifetime of the reloader, two reloaders (c20_life.inc)
//!
//! cfg  = `f<0|1>.e<0|1>.<thread>.<thread>…`; thread = `R` | `Ac<cb>x<fails><script>` (see MJ/Drive/C20.lean)
//! sched = one digit per scheduling decision: the thread that runs from its current yield point to
//!         its next one (or to its end).  A thread that the model says is blocked is never scheduled;
//!         if a scheduled thread does not arrive within the timeout the run is reported as
//!         `bad:timeout…` (correspondence break) instead of hanging.
//! observed = `P=<arrival point per step>|A=<i:g<gen>l<loadNo> | i:err>,…|G=<gen>@<step>[f],…|C=<creator calls>`
//!   gen     = value of the global `gen` the creator stored in the environment that was handed out
//!   loadNo  = running number of the loader call that produced template "t" of that environment
//!             (the loader runs again iff the template cache was cleared or the environment is new)
use minijinja::{Environment, Error, ErrorKind};
use minijinja_autoreload::verif_hooks::{set_yield, Point};
use minijinja_autoreload::AutoReloader;
use mjh::*;
use std::cell::RefCell;
use std::io::{BufRead, Write};
use std::sync::atomic::{AtomicUsize, Ordering};
use std::sync::{Arc, Condvar, Mutex};
use std::time::{Duration, Instant};

#[derive(Clone, Debug, PartialEq)]
enum Op {
    Req,
    SetFast(bool),
}

#[derive(Clone, Debug)]
enum ThreadCfg {
    Req,
    /// requester that uses a clone of the (weak) notifier the creator was handed and kept
    ReqKept,
    /// `set_fast_reload(b)` from another thread
    Fast(bool),
    /// `set_callback(|| b)`: replaces the freshness callback
    Cb(bool),
    /// fails: 0 = the creator returns Ok, 1 = returns Err, 2 = panics
    Acq { cb: bool, fails: u8, script: Vec<Op> },
}

#[derive(Clone, Debug)]
struct Cfg {
    fast: bool,
    /// `g0`/`g1` configurations: NO freshness callback and NO on_should_reload callback are registered
    /// (the `None` arms of `should_reload` / `request_reload`)
    no_callbacks: bool,
    threads: Vec<ThreadCfg>,
}

fn parse_cfg(s: &str) -> Option<Cfg> {
    let mut it = s.split('.');
    let f = it.next()?;
    let e = it.next()?;
    if !(f == "f0" || f == "f1" || f == "g0" || f == "g1") || !(e == "e0" || e == "e1") {
        return None;
    }
    let mut threads = vec![];
    for t in it {
        if t == "R" {
            threads.push(ThreadCfg::Req);
        } else if t == "K" {
            threads.push(ThreadCfg::ReqKept);
        } else if t == "F0" || t == "F1" {
            threads.push(ThreadCfg::Fast(t == "F1"));
        } else if t == "C0" || t == "C1" {
            threads.push(ThreadCfg::Cb(t == "C1"));
        } else {
            let b = t.as_bytes();
            if b.len() < 5 || b[0] != b'A' || b[1] != b'c' || b[3] != b'x' {
                return None;
            }
            let mut script = vec![];
            for c in &b[5..] {
                match c {
                    b'r' => script.push(Op::Req),
                    b't' => script.push(Op::SetFast(true)),
                    b'u' => script.push(Op::SetFast(false)),
                    b'-' => {}
                    _ => return None,
                }
            }
            threads.push(ThreadCfg::Acq { cb: b[2] == b'1', fails: b[4] - b'0', script });
        }
    }
    Some(Cfg { fast: f.ends_with('1'), no_callbacks: f.starts_with('g'), threads })
}

// ------------------------------------------------------------------------------------------------
// the scheduler

struct Inner {
    /// where each thread waits (None = running / not yet arrived)
    at: Vec<Option<&'static str>>,
    turn: Option<usize>,
    free_run: bool,
    step: usize,
    finished: usize,
}

struct Sched {
    m: Mutex<Inner>,
    /// the scheduler waits here
    cv: Condvar,
    /// worker `i` waits on `wcv[i]` (no thundering herd)
    wcv: Vec<Condvar>,
}

impl Sched {
    fn new(n: usize) -> Sched {
        Sched {
            m: Mutex::new(Inner { at: vec![None; n], turn: None, free_run: false, step: 0, finished: 0 }),
            cv: Condvar::new(),
            wcv: (0..n).map(|_| Condvar::new()).collect(),
        }
    }

    fn wake_workers(&self) {
        for c in &self.wcv {
            c.notify_all();
        }
    }

    /// called by worker `i` at a yield point: announce the arrival, wait for the turn
    fn arrive(&self, i: usize, point: &'static str) {
        let mut g = self.m.lock().unwrap();
        g.at[i] = Some(point);
        if g.turn == Some(i) {
            g.turn = None;
        }
        self.cv.notify_all();
        while !(g.free_run || g.turn == Some(i)) {
            g = self.wcv[i].wait(g).unwrap();
        }
        g.at[i] = None;
    }

    /// called by worker `i` when it ends
    fn done(&self, i: usize) {
        let mut g = self.m.lock().unwrap();
        g.at[i] = Some("D");
        g.finished += 1;
        if g.turn == Some(i) {
            g.turn = None;
        }
        self.cv.notify_all();
    }

    fn current_step(&self) -> usize {
        self.m.lock().unwrap().step
    }
}

thread_local! {
    static CTX: RefCell<Option<(Arc<Sched>, usize, bool, u8, Vec<Op>)>> = const { RefCell::new(None) };
}

thread_local! {
    /// the next BeforeSet hook of this thread was already announced by the harness itself
    static SKIP_S: std::cell::Cell<bool> = const { std::cell::Cell::new(false) };
    /// the creator this thread called has just returned Err: the next notifier look-up of this thread
    /// is the one of `keep_reload_pending` (yield point "F" = before the reload is marked pending again)
    static CREATOR_FAILED: std::cell::Cell<bool> = const { std::cell::Cell::new(false) };
}

fn point_code(p: Point) -> &'static str {
    // by name, so that the harness builds against trees with fewer or more hook points
    match format!("{:?}", p).as_str() {
        "BeforeLock" => "L",
        "BeforeCheck" => "Q",
        "AfterCheck" => "K",
        "AfterReset" => "Z",
        "BeforeCreate" => "B",
        "AfterCreate" => "C",
        "BeforeRemark" => "F",
        "BeforeSet" => "S",
        "AfterSet" => "T",
        "AfterClear" => "E",
        _ => "?",
    }
}

fn install_yield() {
    set_yield(Some(Arc::new(|p: Point| {
        let ctx = CTX.with(|c| c.borrow().as_ref().map(|x| (x.0.clone(), x.1)));
        if let Some((sched, i)) = ctx {
            if p == Point::BeforeSet && SKIP_S.with(|c| c.replace(false)) {
                return;
            }
            let mut code = point_code(p);
            if format!("{:?}", p) == "Handle" {
                // every Notifier entry point looks the shared state up; only the first look-up after a
                // failed creator call is a yield point
                if !CREATOR_FAILED.with(|c| c.replace(false)) {
                    return;
                }
                code = "F";
            }
            sched.arrive(i, code);
        }
    })));
}

#[derive(Default)]
struct Obs {
    /// per thread: what the acquire got, observed twice (at hand-out and just before the drop)
    acq: Vec<Option<String>>,
    builds: Vec<String>,
    notes: Vec<String>,
}

fn step_timeout() -> Duration {
    Duration::from_millis(std::env::var("C20_TIMEOUT_MS").ok().and_then(|s| s.parse().ok()).unwrap_or(3000))
}

/// run one schedule on the real reloader; returns the canonical observation line
fn run_schedule(cfg: &Cfg, sched_s: &str) -> String {
    run_schedule_poke(cfg, sched_s, None)
}

/// `poke = Some(t)`: after the schedule (a PREFIX of a model schedule that ends in a state in which the
/// model says thread `t` is blocked on the cached_env mutex) thread `t` is released from its BeforeLock
/// point; it must NOT reach its next yield point while the holder stands still (bounded wait; the
/// verdict "blocked" is the expected one and is what the unchanged code always gives).  Then
/// everything runs freely to its end.  `|K=blocked` or `|K=arrived@<point>` is appended.
fn run_schedule_poke(cfg: &Cfg, sched_s: &str, poke: Option<usize>) -> String {
    let n = cfg.threads.len();
    let sched = Arc::new(Sched::new(n));
    let obs = Arc::new(Mutex::new(Obs { acq: vec![None; n], ..Default::default() }));
    let gen = Arc::new(AtomicUsize::new(0));
    let loads = Arc::new(AtomicUsize::new(0));
    let on_calls = Arc::new(AtomicUsize::new(0));
    let kept: Arc<Mutex<Option<minijinja_autoreload::Notifier>>> = Arc::new(Mutex::new(None));

    let reloader = {
        let (gen, loads, obs, kept) = (gen.clone(), loads.clone(), obs.clone(), kept.clone());
        Arc::new(AutoReloader::new(move |notifier| {
            let g = gen.fetch_add(1, Ordering::SeqCst) + 1;
            *kept.lock().unwrap() = Some(notifier.clone());
            let ctx = CTX.with(|c| c.borrow().clone());
            let (fails, script) = match &ctx {
                Some((s, _, _, fails, script)) => {
                    let k = s.current_step();
                    obs.lock().unwrap().builds.push(format!("{}@{}{}", g, k, ["", "f", "p"][(*fails).min(2) as usize]));
                    (*fails, script.clone())
                }
                None => {
                    obs.lock().unwrap().notes.push("creator-on-foreign-thread".into());
                    (0, vec![])
                }
            };
            for op in script {
                match op {
                    Op::Req => notifier.request_reload(),
                    Op::SetFast(b) => notifier.set_fast_reload(b),
                }
            }
            if fails == 2 {
                panic!("creator panicked (scripted)");
            }
            if fails == 1 {
                CREATOR_FAILED.with(|c| c.set(true));
                return Err(Error::new(ErrorKind::InvalidOperation, "creator failed (scripted)"));
            }
            let mut env = Environment::new();
            env.add_global("gen", g);
            let loads = loads.clone();
            env.set_loader(move |name| {
                if name != "t" {
                    return Ok(None);
                }
                let n = loads.fetch_add(1, Ordering::SeqCst) + 1;
                Ok(Some(format!("g{{{{ gen }}}}l{}", n)))
            });
            Ok(env)
        }))
    };
    let notifier = reloader.notifier();
    if cfg.fast {
        notifier.set_fast_reload(true);
    }
    // freshness callback: answers what the polling acquire's configuration says
    if !cfg.no_callbacks {
        notifier.set_callback(|| CTX.with(|c| c.borrow().as_ref().map(|x| x.2).unwrap_or(false)));
    }
    if !cfg.no_callbacks {
        let on_calls = on_calls.clone();
        notifier.set_on_should_reload_callback(move || {
            on_calls.fetch_add(1, Ordering::SeqCst);
        });
    }

    let mut handles = vec![];
    for (i, t) in cfg.threads.iter().enumerate() {
        let (sched, obs, reloader, t) = (sched.clone(), obs.clone(), reloader.clone(), t.clone());
        let notifier = reloader.notifier();
        let gen = gen.clone();
        let kept = kept.clone();
        let any_panics = cfg.threads.iter().any(|t| matches!(t, ThreadCfg::Acq { fails: 2, .. }));
        let t2 = t.clone();
        handles.push(std::thread::spawn(move || {
            let (cb, fails, script) = match &t {
                ThreadCfg::Acq { cb, fails, script } => (*cb, *fails, script.clone()),
                _ => (false, 0, vec![]),
            };
            CTX.with(|c| *c.borrow_mut() = Some((sched.clone(), i, cb, fails, script)));
            let r = guarded(|| match t {
                ThreadCfg::Req => notifier.request_reload(),
                ThreadCfg::ReqKept => {
                    // announce BeforeSet ourselves, then pick the notifier the creator kept (if any)
                    sched.arrive(i, "S");
                    SKIP_S.with(|c| c.set(true));
                    let n = kept.lock().unwrap().clone().unwrap_or_else(|| notifier.clone());
                    n.request_reload();
                    SKIP_S.with(|c| c.set(false));
                }
                ThreadCfg::Fast(b) => {
                    sched.arrive(i, "f");
                    notifier.set_fast_reload(b);
                }
                ThreadCfg::Cb(b) => {
                    sched.arrive(i, "c");
                    notifier.set_callback(move || b);
                }
                ThreadCfg::Acq { .. } => match reloader.acquire_env() {
                    Ok(env) => {
                        let see = |env: &Environment| {
                            env.get_template("t")
                                .and_then(|t| t.render(()))
                                .unwrap_or_else(|e| format!("render-error:{:?}", e.kind()))
                        };
                        let first = see(&env);
                        let c1 = gen.load(Ordering::SeqCst);
                        obs.lock().unwrap().acq[i] = Some(first.clone());
                        sched.arrive(i, "H");
                        let second = see(&env);
                        let c2 = gen.load(Ordering::SeqCst);
                        if second != first || c1 != c2 {
                            let mut o = obs.lock().unwrap();
                            o.acq[i] = Some(format!("{}!changed-under-guard:{}", first, second));
                            o.notes.push(format!("guard{}:{}->{};creates{}->{}", i, first, second, c1, c2));
                        }
                        drop(env);
                    }
                    Err(_) => {
                        obs.lock().unwrap().acq[i] = Some("err".into());
                    }
                },
            });
            if let Err(msg) = r {
                // a scripted creator panic, or the poisoned cached_env mutex afterwards (both are
                // outcomes the model knows); anything else is reported
                let expected = msg.contains("creator panicked (scripted)") || (any_panics && msg.contains("PoisonError"));
                let mut o = obs.lock().unwrap();
                if matches!(t2, ThreadCfg::Acq { .. }) && o.acq[i].is_none() {
                    o.acq[i] = Some("panic".into());
                }
                if !expected {
                    o.notes.push(format!("panic{}:{}", i, msg.replace(['\t', '\n', '|'], " ")));
                }
            }
            CTX.with(|c| *c.borrow_mut() = None);
            sched.done(i);
        }));
    }

    let timeout = step_timeout();
    let mut points: Vec<String> = vec![];
    let mut bad: Option<String> = None;
    // start-up: every thread runs to its first yield point
    {
        let mut g = sched.m.lock().unwrap();
        // (threads only run to their first hook here: generous, a loaded machine starts threads slowly)
        let deadline = Instant::now() + timeout * 4;
        while g.at.iter().any(|a| a.is_none()) {
            let now = Instant::now();
            if now >= deadline {
                bad = Some("bad:timeout@start".into());
                break;
            }
            g = sched.cv.wait_timeout(g, deadline - now).unwrap().0;
        }
    }
    // one scheduling decision: let thread `t` run to its next yield point (or its end)
    let run_step = |k: usize, t: usize, points: &mut Vec<String>| -> Option<String> {
        let mut g = sched.m.lock().unwrap();
        if t >= n || g.at[t].is_none() {
            return Some(format!("bad:cannot-schedule@{}:{}", k, t));
        }
        if g.at[t] == Some("D") {
            // the real thread finished earlier than the schedule expected: skip (the comparison
            // with the model's prediction shows the difference; the oracle sees the real history)
            points.push("X".into());
            return None;
        }
        g.step = k;
        g.turn = Some(t);
        sched.wcv[t].notify_all();
        let deadline = Instant::now() + timeout;
        while g.turn == Some(t) {
            let now = Instant::now();
            if now >= deadline {
                return Some(format!("bad:timeout@{}:{}", k, t));
            }
            g = sched.cv.wait_timeout(g, deadline - now).unwrap().0;
        }
        points.push(g.at[t].unwrap_or("?").to_string());
        None
    };
    let mut extra = String::new();
    if bad.is_none() {
        for (k, ch) in sched_s.bytes().enumerate() {
            bad = run_step(k, (ch.wrapping_sub(b'0')) as usize, &mut points);
            if bad.is_some() {
                break;
            }
        }
    }
    let mut poke_result: Option<String> = None;
    if let (None, Some(t)) = (&bad, poke) {
        let mut g = sched.m.lock().unwrap();
        if t >= n || g.at[t] != Some("L") {
            bad = Some(format!("bad:cannot-poke:{}", t));
        } else {
            g.turn = Some(t);
            sched.wcv[t].notify_all();
            let wait = Duration::from_millis(std::env::var("C20_POKE_MS").ok().and_then(|s| s.parse().ok()).unwrap_or(120));
            let deadline = Instant::now() + wait;
            while g.turn == Some(t) {
                let now = Instant::now();
                if now >= deadline {
                    break;
                }
                g = sched.cv.wait_timeout(g, deadline - now).unwrap().0;
            }
            poke_result = Some(if g.turn == Some(t) { "blocked".to_string() } else { format!("arrived@{}", g.at[t].unwrap_or("?")) });
            g.turn = None;
        }
    }
    // the real code needs more steps than the schedule has: continue deterministically (threads that
    // are in the middle of an operation first - they cannot be blocked on the cached_env mutex)
    while bad.is_none() && poke.is_none() && extra.len() < 64 {
        let next = {
            let g = sched.m.lock().unwrap();
            let waiting = |i: &usize| g.at[*i].is_some() && g.at[*i] != Some("D");
            (0..n).filter(waiting).find(|i| g.at[*i] != Some("L") && !(g.at[*i] == Some("S") && !matches!(cfg.threads[*i], ThreadCfg::Acq { .. })) && g.at[*i] != Some("f") && g.at[*i] != Some("c"))
                .or_else(|| (0..n).filter(waiting).next())
        };
        let Some(t) = next else { break };
        let k = sched_s.len() + extra.len();
        bad = run_step(k, t, &mut points);
        extra.push((b'0' + t as u8) as char);
    }
    // wind down: anything still waiting runs freely
    let all_done = {
        let mut g = sched.m.lock().unwrap();
        let unfinished = g.finished < n;
        if unfinished && bad.is_none() && poke.is_none() {
            bad = Some("bad:unfinished-threads".into());
        }
        g.free_run = true;
        sched.wake_workers();
        let deadline = Instant::now() + timeout;
        while g.finished < n {
            let now = Instant::now();
            if now >= deadline {
                break;
            }
            g = sched.cv.wait_timeout(g, deadline - now).unwrap().0;
        }
        g.finished == n
    };
    if all_done {
        for h in handles {
            let _ = h.join();
        }
    } else if let Some(b) = bad.as_mut() {
        b.push_str("+stuck"); // threads leaked (blocked inside the real code)
    }
    let o = obs.lock().unwrap();
    let acq: Vec<String> = cfg
        .threads
        .iter()
        .enumerate()
        .filter(|(_, t)| matches!(t, ThreadCfg::Acq { .. }))
        .map(|(i, _)| format!("{}:{}", i, o.acq[i].clone().unwrap_or_else(|| "none".into())))
        .collect();
    let mut line = format!(
        "P={}|A={}|G={}|C={}|O={}",
        points.join(","),
        acq.join(","),
        o.builds.join(","),
        gen.load(Ordering::SeqCst),
        if cfg.no_callbacks { "-".to_string() } else { on_calls.load(Ordering::SeqCst).to_string() }
    );
    if let Some(p) = poke_result {
        line.push_str(&format!("|K={}", p));
    }
    if !extra.is_empty() {
        line.push_str(&format!("|X={}", extra));
    }
    if !o.notes.is_empty() {
        line.push_str(&format!("|N={}", o.notes.join(";")));
    }
    if let Some(b) = bad {
        line = format!("{}|{}", b, line);
    }
    line
}

// ------------------------------------------------------------------------------------------------
// configurations

fn acq(s: &str) -> String {
    format!("A{}", s)
}

fn gen_cfgs(tier: &str) {
    let mut rng = Rng::new(seed_from_env());
    let out = std::io::stdout();
    let mut out = out.lock();
    let plain = "c0x0-";
    // the special acquire is a SET of independent flags: freshness callback answers true x creator
    // fails x what the creator does through the notifier (request(s), switching fast reload)
    let mut variant_store: Vec<String> = vec![];
    for cb in 0..2 {
        for fails in 0..2 {
            for script in ["-", "r", "t", "tr", "rr"] {
                let v = format!("c{}x{}{}", cb, fails, script);
                if v != plain {
                    variant_store.push(v);
                }
            }
        }
        // third creator outcome: it panics (the unwinding poisons the cached_env mutex)
        for script in ["-", "r"] {
            variant_store.push(format!("c{}x2{}", cb, script));
        }
    }
    let variants: Vec<&str> = variant_store.iter().map(|s| s.as_str()).collect();
    let mk = |f: u8, e: u8, acqs: &[&str], nr: usize| {
        let mut s = format!("f{}.e{}", f, e);
        for a in acqs {
            s.push('.');
            s.push_str(&acq(a));
        }
        for _ in 0..nr {
            s.push_str(".R");
        }
        s
    };
    // (1) small plain configurations, every schedule at full hook granularity
    for f in 0..2u8 {
        for na in 1..=2usize {
            for nr in 0..=2usize {
                writeln!(out, "{} all", mk(f, 0, &vec![plain; na], nr)).unwrap();
            }
        }
    }
    // (1g) the same shapes with NO freshness callback and NO on_should_reload callback registered (the
    //      `None` arms of should_reload / request_reload): `g<fast>` instead of `f<fast>`
    for f in 0..2u8 {
        for na in 1..=2usize {
            for nr in 0..=2usize {
                let c = mk(f, 0, &vec![plain; na], nr).replacen('f', "g", 1);
                writeln!(out, "{} upto {} {}", c, if tier == "thorough" { 3000 } else { 250 }, rng.next() >> 16).unwrap();
            }
        }
        for acqs in [vec![plain, "c0x1-", plain], vec!["c0x0r", plain, plain], vec![plain, "c0x2-", plain]] {
            for nr in 0..=1usize {
                let c = mk(f, 1, &acqs, nr).replacen('f', "g", 1);
                writeln!(out, "{} upto {} {}", c, if tier == "thorough" { 6000 } else { 120 }, rng.next() >> 16).unwrap();
            }
        }
    }
    // (2) small configurations with one special acquire (request from inside the creator, failing
    //     creator, freshness callback, creator switching fast reload on), every schedule
    for f in 0..2u8 {
        for v in variants.iter().copied() {
            for nr in 0..=2usize {
                let e = if (tier == "thorough" && v.len() < 7) || nr < 2 { 0 } else { 1 };
                let cap = if tier == "thorough" { 30000 } else { 350 };
                writeln!(out, "{} upto {} {}", mk(f, e, &[v], nr), cap, rng.next() >> 16).unwrap();
                writeln!(out, "{} upto {} {}", mk(f, e, &[v, plain], nr), cap, rng.next() >> 16).unwrap();
                writeln!(out, "{} upto {} {}", mk(f, e, &[plain, v], nr), cap, rng.next() >> 16).unwrap();
            }
        }
    }
    // (2b) three acquires, one of them special (every combination of the flags, every position):
    //      build - special - next is the shortest shape in which a request that arrives during a
    //      rebuild that was triggered by the callback / fails / issues requests can be lost
    if tier != "thorough" {
        for f in 0..2u8 {
            for v in variants.iter().copied() {
                for pos in 0..3 {
                    let mut t = vec![plain; 3];
                    t[pos] = v;
                    for nr in 0..=1usize {
                        writeln!(out, "{} upto 200 {}", mk(f, 1, &t, nr), rng.next() >> 16).unwrap();
                    }
                    // one failing creator among three acquirers + TWO requests (re-armed flag + a request
                    // during the failed build + a request after it)
                    if matches!(v, "c0x1-" | "c0x1r" | "c1x1-" | "c1x1r") {
                        writeln!(out, "{} upto 150 {}", mk(f, 1, &t, 2), rng.next() >> 16).unwrap();
                    }
                }
            }
        }
    }
    // (2c) the rest of the Notifier API as extra threads: set_fast_reload toggled between acquires
    //      while a request is pending, set_callback replacing the freshness callback, requests
    //      through the notifier clone the creator kept
    for f in 0..2u8 {
        let fx = if f == 0 { "F1" } else { "F0" };
        for extra in [
            vec!["R", fx], vec![fx], vec!["R", "F1", "F0"], vec!["R", "C1"], vec!["R", "C0"], vec!["C1"],
            vec!["K"], vec!["R", "K"], vec!["K", fx], vec!["K", "C1"],
        ] {
            for acqs in [vec![plain, plain], vec![plain, "c1x0-"], vec!["c0x0r", plain], vec![plain, "c0x1-"], vec!["c0x0t", plain]] {
                let mut c = mk(f, 0, &acqs, 0);
                for x in &extra {
                    c.push('.');
                    c.push_str(x);
                }
                writeln!(out, "{} upto {} {}", c, if tier == "thorough" { 8000 } else { 120 }, rng.next() >> 16).unwrap();
            }
            for acqs in [vec![plain, plain, plain], vec![plain, "c1x1r", plain], vec![plain, "c1x1-", plain], vec![plain, "c0x1-", plain], vec![plain, "c0x2-", plain]] {
                let mut c = mk(f, 1, &acqs, 0);
                for x in &extra {
                    c.push('.');
                    c.push_str(x);
                }
                writeln!(out, "{} upto {} {}", c, if tier == "thorough" { 8000 } else { 120 }, rng.next() >> 16).unwrap();
            }
        }
    }
    // (3) the big box: up to 3 acquires x up to 3 requests
    let mut tuples: Vec<Vec<&str>> = vec![vec![plain; 3]];
    for v in variants.iter().copied() {
        for pos in 0..3 {
            let mut t = vec![plain; 3];
            t[pos] = v;
            tuples.push(t);
        }
    }
    for t in [
        ["c0x0r", "c0x0r", "c0x0r"],
        ["c0x1-", "c0x1-", "c0x0-"],
        ["c0x1-", "c0x0-", "c0x1-"],
        ["c1x0-", "c0x0r", "c0x0-"],
        ["c0x0r", "c0x1-", "c0x0-"],
        ["c0x0t", "c0x1r", "c0x0-"],
        ["c0x1-", "c0x1r", "c1x0-"],
        ["c0x0t", "c0x0u", "c0x0-"],
        ["c1x0-", "c1x0-", "c1x0-"],
        ["c1x1r", "c1x1r", "c0x0-"],
        ["c0x0-", "c1x1-", "c1x0r"],
        ["c1x1r", "c0x1-", "c0x0-"],
        ["c0x0t", "c1x1r", "c0x0-"],
        ["c0x2-", "c0x0-", "c0x0-"],
        ["c0x0-", "c0x2r", "c0x1-"],
        ["c0x1-", "c0x2-", "c0x0-"],
    ] {
        tuples.push(t.to_vec());
    }
    if tier == "thorough" {
        for f in 0..2u8 {
            for t in &tuples {
                for nr in 0..=3usize {
                    writeln!(out, "{} upto 6000 {}", mk(f, 1, t, nr), rng.next() >> 16).unwrap();
                }
            }
        }
        for f in 0..2u8 {
            for t in &tuples {
                writeln!(out, "{} sample 600 {}", mk(f, 0, t, 3), rng.next() >> 16).unwrap();
                writeln!(out, "{} sample 300 {}", mk(f, 0, t, 2), rng.next() >> 16).unwrap();
            }
        }
    } else {
        // quick: a seeded sample of ~2000 schedules spread over the box (both granularities)
        for f in 0..2u8 {
            for t in &tuples {
                let nr = 1 + rng.below(3) as usize;
                writeln!(out, "{} sample 12 {}", mk(f, 0, t, 3), rng.next() >> 16).unwrap();
                writeln!(out, "{} sample 12 {}", mk(f, 1, t, nr), rng.next() >> 16).unwrap();
            }
        }
    }
}

// ------------------------------------------------------------------------------------------------
// mutex-level probes: things a schedule cannot express because the scheduler never runs a thread
// that the model says is blocked

fn probe() {
    // while a guard is held a second acquire_env does not get past the lock
    let cfg = parse_cfg("f0.e0.Ac0x0-.Ac0x0-").unwrap();
    let cfg3 = parse_cfg("f0.e0.Ac0x0-.Ac0x0-.R").unwrap();
    // thread 0 up to Holding, then thread 1 is released from BeforeLock: it must not get anywhere while
    // the guard is held (bounded wait), and after the wind-down both must have seen the same
    // environment (no request was made).  Every other step is a wait for an arrival that must happen.
    let r = run_schedule_poke(&cfg, "00000", Some(1));
    let blocked = r.starts_with("P=K,Z,B,C,H|") && r.contains("|A=0:g1l1,1:g1l1|") && r.contains("|C=1|") && r.ends_with("|K=blocked");
    println!("probe\tsecond-acquire-blocked-while-guard-held\t{}\t{}", if blocked { "ok" } else { "FAIL" }, r);
    // same just before the creator runs
    let r = run_schedule_poke(&cfg, "000", Some(1));
    let blocked = r.starts_with("P=K,Z,B|") && r.contains("|A=0:g1l1,1:g1l1|") && r.contains("|C=1|") && r.ends_with("|K=blocked");
    println!("probe\tsecond-acquire-blocked-while-creator-runs\t{}\t{}", if blocked { "ok" } else { "FAIL" }, r);
    // a requester is never blocked by a held guard
    let r = run_schedule(&cfg3, "000002201111111");
    let ok = r == "P=K,Z,B,C,H,T,D,D,Q,K,Z,B,C,H,D|A=0:g1l1,1:g2l2|G=1@3,2@12|C=2|O=1";
    println!("probe\trequest-not-blocked-by-guard\t{}\t{}", if ok { "ok" } else { "FAIL" }, r);
    set_yield(None);

    // dead notifiers: every entry point on a handle that outlived its reloader is a no-op
    let r = guarded(|| {
        let kept: Arc<Mutex<Option<minijinja_autoreload::Notifier>>> = Arc::new(Mutex::new(None));
        let k2 = kept.clone();
        let reloader = AutoReloader::new(move |n| {
            *k2.lock().unwrap() = Some(n.clone());
            Ok(Environment::new())
        });
        let outer = reloader.notifier();
        let outer_clone = outer.clone();
        drop(reloader.acquire_env().unwrap());
        let inner = kept.lock().unwrap().clone().unwrap();
        let alive = !outer.is_dead() && !inner.is_dead();
        // the notifier kept by the creator is as good as the reloader's own
        inner.request_reload();
        let calls = Arc::new(AtomicUsize::new(0));
        let c2 = calls.clone();
        inner.set_on_should_reload_callback(move || {
            c2.fetch_add(1, Ordering::SeqCst);
        });
        outer_clone.request_reload();
        drop(reloader);
        let dead = outer.is_dead() && inner.is_dead() && outer_clone.is_dead();
        outer.request_reload();
        inner.request_reload();
        outer.set_fast_reload(true);
        inner.set_callback(|| true);
        outer_clone.set_on_should_reload_callback(|| ());
        (alive, dead, calls.load(Ordering::SeqCst))
    });
    let ok = matches!(r, Ok((true, true, 1)));
    println!("probe\tdead-notifier-is-noop\t{}\t{:?}", if ok { "ok" } else { "FAIL" }, r);

    // a request through the notifier kept from the creator is served like any other
    let r = guarded(|| {
        let kept: Arc<Mutex<Option<minijinja_autoreload::Notifier>>> = Arc::new(Mutex::new(None));
        let k2 = kept.clone();
        let n = Arc::new(AtomicUsize::new(0));
        let n2 = n.clone();
        let reloader = AutoReloader::new(move |no| {
            *k2.lock().unwrap() = Some(no.clone());
            let mut env = Environment::new();
            env.add_global("gen", n2.fetch_add(1, Ordering::SeqCst) + 1);
            Ok(env)
        });
        let g = |r: &AutoReloader| r.acquire_env().unwrap().render_str("{{ gen }}", ()).unwrap();
        let a = g(&reloader);
        let b = g(&reloader);
        kept.lock().unwrap().clone().unwrap().request_reload();
        let c = g(&reloader);
        format!("{}{}{}", a, b, c)
    });
    let ok = r.as_deref() == Ok("112");
    println!("probe\tkept-notifier-request-served\t{}\t{:?}", if ok { "ok" } else { "FAIL" }, r);

    // contention on the NOTIFIER mutex: the freshness callback is user code that runs UNDER it (it
    // "usually stats files"): a request_reload issued meanwhile has to wait and must not be dropped.
    // (the sleep only gives the requester time to reach the mutex; the verdict on the unchanged code
    //  does not depend on it: every wait below is for an event that must happen)
    for fast in [false, true] {
        let r = guarded(|| {
            let n = Arc::new(AtomicUsize::new(0));
            let loads = Arc::new(AtomicUsize::new(0));
            let (n2, l2) = (n.clone(), loads.clone());
            let reloader = Arc::new(AutoReloader::new(move |_| {
                let mut env = Environment::new();
                env.add_global("gen", n2.fetch_add(1, Ordering::SeqCst) + 1);
                let l3 = l2.clone();
                env.set_loader(move |name| {
                    Ok((name == "t").then(|| format!("g{{{{ gen }}}}l{}", l3.fetch_add(1, Ordering::SeqCst) + 1)))
                });
                Ok(env)
            }));
            reloader.notifier().set_fast_reload(fast);
            let gate = Arc::new((Mutex::new(0u8), Condvar::new()));
            let g2 = gate.clone();
            reloader.notifier().set_callback(move || {
                let (m, cv) = &*g2;
                let mut g = m.lock().unwrap();
                if *g == 1 {
                    *g = 2;
                    cv.notify_all();
                    while *g != 3 {
                        g = cv.wait(g).unwrap();
                    }
                }
                false
            });
            let see = |r: &AutoReloader| r.acquire_env().unwrap().get_template("t").unwrap().render(()).unwrap();
            let a = see(&reloader);
            *gate.0.lock().unwrap() = 1;
            let r1 = reloader.clone();
            let t1 = std::thread::spawn(move || r1.acquire_env().unwrap().get_template("t").unwrap().render(()).unwrap());
            {
                let (m, cv) = &*gate;
                let mut g = m.lock().unwrap();
                let deadline = Instant::now() + Duration::from_secs(20);
                while *g != 2 {
                    let now = Instant::now();
                    if now >= deadline {
                        *g = 3;
                        cv.notify_all();
                        return "callback-not-polled".to_string();
                    }
                    g = cv.wait_timeout(g, deadline - now).unwrap().0;
                }
            }
            // the acquirer sits in the freshness callback, holding the notifier mutex
            let no = reloader.notifier();
            let t2 = std::thread::spawn(move || no.request_reload());
            std::thread::sleep(Duration::from_millis(80));
            {
                let (m, cv) = &*gate;
                *m.lock().unwrap() = 3;
                cv.notify_all();
            }
            t2.join().unwrap();
            let b = t1.join().unwrap();
            // the request has returned: the next acquire must serve it
            let c = see(&reloader);
            format!("{} {} {}", a, b, c)
        });
        let want = if fast { "g1l1 g1l1 g1l2" } else { "g1l1 g1l1 g2l2" };
        let ok = r.as_deref() == Ok(want);
        println!("probe\trequest-while-freshness-callback-holds-notifier-mutex-fast{}\t{}\t{:?}", fast as u8, if ok { "ok" } else { "FAIL" }, r);
    }

    // information (outside C20's statement): a PANICKING creator poisons the cached_env mutex
    let reloader = Arc::new(AutoReloader::new(|_| -> Result<Environment<'static>, Error> { panic!("creator panicked") }));
    let first = guarded(|| reloader.acquire_env().map(|_| ()).map_err(|e| format!("{:?}", e.kind())));
    let second = guarded(|| reloader.acquire_env().map(|_| ()).map_err(|e| format!("{:?}", e.kind())));
    let describe = |r: &Result<Result<(), String>, String>| match r {
        Ok(Ok(())) => "ok".to_string(),
        Ok(Err(k)) => format!("error:{}", k),
        Err(m) => format!("panic:{}", m.split(':').next().unwrap_or("").replace('\t', " ")),
    };
    println!("info\tpanicking-creator\tfirst-acquire={}\tnext-acquire={}", describe(&first), describe(&second));
    install_yield();
}

include!("c20_store.inc");
include!("c20_life.inc");

fn main() {
    quiet_panics();
    install_yield();
    let args: Vec<String> = std::env::args().collect();
    match args.get(1).map(|s| s.as_str()) {
        Some("life") => {
            set_yield(None);
            match args.get(2).map(|s| s.as_str()) {
                Some("one") => println!("life\t{}\t{}", args[3], life_run(&args[3])),
                t => life_gen(t.unwrap_or("quick")),
            }
        }
        Some("store") => match args.get(2).map(|s| s.as_str()) {
            Some("one") => println!("store\t{}\t{}", args[3], store_run(&args[3])),
            t => store_gen(t.unwrap_or("quick")),
        },
        Some("gen") => gen_cfgs(args.get(2).map(|s| s.as_str()).unwrap_or("quick")),
        Some("run") => {
            let stdin = std::io::stdin();
            let out = std::io::stdout();
            let mut out = std::io::BufWriter::new(out.lock());
            // every time-out costs seconds: when the real code diverges systematically (a mutant
            // that blocks where the model does not) stop after a few and say so
            // (8 within 40 consecutive schedules: isolated time-outs on a loaded machine do not count)
            let mut recent: std::collections::VecDeque<bool> = Default::default();
            let mut give_up = false;
            for line in stdin.lock().lines() {
                let line = line.unwrap();
                let mut f = line.split('\t');
                let (Some(c), Some(s)) = (f.next(), f.next()) else { continue };
                let poke: Option<usize> = f.next().and_then(|x| x.strip_prefix("poke=")).and_then(|x| x.parse().ok());
                if let Some(t) = poke {
                    let res = match parse_cfg(c) {
                        Some(cfg) => run_schedule_poke(&cfg, s, Some(t)),
                        None => "bad:cfg".to_string(),
                    };
                    writeln!(out, "{}\t{}!{}\t{}", c, s, t, res).unwrap();
                    continue;
                }
                let res = if give_up {
                    "bad:skipped-after-8-timeouts".to_string()
                } else {
                    match parse_cfg(c) {
                        Some(cfg) => run_schedule(&cfg, s),
                        None => "bad:cfg".to_string(),
                    }
                };
                recent.push_back(res.starts_with("bad:timeout"));
                if recent.len() > 40 {
                    recent.pop_front();
                }
                if recent.iter().filter(|x| **x).count() >= 8 {
                    give_up = true;
                }
                writeln!(out, "{}\t{}\t{}", c, s, res).unwrap();
            }
        }
        Some("one") => {
            let c = &args[2];
            let s = &args[3];
            let cfg = parse_cfg(c).expect("bad cfg");
            println!("{}\t{}\t{}", c, s, run_schedule(&cfg, s));
        }
        Some("probe") => probe(),
        _ => {
            eprintln!("usage: c20 gen <quick|thorough> | run | one <cfg> <sched> | probe");
            std::process::exit(2);
        }
    }
}
