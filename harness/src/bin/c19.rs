//! C19 harness: rendering into a failing / short-writing `io::Write`.
//!
//! An instrumented writer (`Probe`) records every `write` call (bytes offered, result) and behaves
//! as a *script* says, call by call: `A` accept all, `S<k>` accept at most k bytes (`S0` = the
//! zero-length write), `H` accept half, `E<kind>.<id>[.<form>]` return an `io::Error` of that kind
//! (kinds bp=BrokenPipe ot=Other wb=WouldBlock in=Interrupted to=TimedOut) built in the way `<form>` says
//! (see `Form`: `s` String payload "inj-<id>" (default), `k` bare kind, `r` raw OS error <id>, `c` the sink's
//! own error type, `mi`/`mu`/`mw`/`mt` a `minijinja::Error` of kind InvalidOperation / UndefinedError /
//! WriteFailure / TemplateNotFound as payload, `mc` one with a source chain, `mx` a WriteFailure whose own
//! source is an io::Error that looks like the sink's, `i` another io::Error as payload); after the script:
//! accept all.
//!
//! For every program (a set of templates + a context) and every API that takes a writer
//!   full         Template::render_captured_to
//!   fmt          the same with a custom formatter installed (`Emit` goes through `Environment::format`)
//!   ufmt / cfmt  the same with a user formatter writing through every `fmt::Write` method / a careless one
//!   block:<b>    State::render_block_to_write on the state of a finished render (ublock: / cblock: with those formatters)
//!   fn:<b>       State::render_block_to_write called from a template function during a render
//! the harness first does a clean run (all chunks = the write calls of that run, W of them), then
//! re-runs with a failure injected at every call k < W (every kind, short writes, zero writes) and
//! with mixed scripts.  Output lines:
//!
//!   prog<TAB>pid api clean ops psyn<TAB>w=<W> bytes=<n> sum=<checksum> route=ok:<writes>:<captures> same=<0|1> …
//!   case<TAB>pid api script<TAB>calls=.. acc=.. sum=.. dig=.. res=.. ops=..<TAB>kind=.. prefix=.. full=.. after=.. fail=.. flush=.. outer=..
//!   null<TAB>expr<i><TAB>new_null=.. writes=.. nondiscard=.. res=..          (Expression::eval runs on Output::null)
//!
//! `ops` = the REAL output operations of the run as logged by `minijinja::verif_hooks::output`
//! (root `Output` only; see `op_tokens`); for every failing run the harness checks that its log
//! is the clean run's log cut at the failing write (`ops=<n>`, else `ops=MISMATCH@i`).
//! `psyn` = for the structured family (`s<seed>_<i>`): the program as a term of the Lean model's
//! structured layer (`-` otherwise).
//!
//! `res`: ok | wf:<kind>:<id>:<form> (ErrorKind::WriteFailure whose source() is an io::Error of that kind,
//! identity and construction — all three read off the returned error) | wfnone (WriteFailure without io
//! source) | other | panic.
//! `src` (oracle field): `same` when the returned error's source() IS the io::Error the sink returned at
//! its first failing call (same kind, same raw OS code, same payload object by address), else what
//! differs (`kind:<K>` `nosource` `notio` `iokind` `raw` `payload`); `osrc`: the same for the error
//! with which the outer render ends (API fn).
//!
//! usage: c19 gen <quick|thorough> | c19 one <pid> <api> <script>
use minijinja::value::{Object, Value};
#[cfg(feature = "hooks")]
use minijinja::verif_hooks::output as vh;

/// The unhooked build (`cargo build --no-default-features`: minijinja compiled WITHOUT
/// `verif_hooks`, i.e. the code real users compile) has no operation log: every log is empty,
/// the sink-level observations (calls, accepted bytes, digest, result, oracle fields) are the same.
#[cfg(not(feature = "hooks"))]
#[allow(dead_code)]
mod vh {
    #[derive(Debug, Clone, PartialEq, Eq)]
    pub enum Target {
        Base,
        Capture(usize),
        Discard(usize),
    }
    #[derive(Debug, Clone, PartialEq)]
    pub enum Event {
        New { out: u64, null: bool },
        WriteStr { out: u64, target: Target, data: String, ok: bool },
        WriteChar { out: u64, target: Target, data: char, ok: bool },
        BeginCapture { out: u64, discard: bool },
        EndCapture { out: u64, value: Option<String>, ptr: usize },
        Emit { out: u64, value: Option<String>, ptr: usize, auto_escape: minijinja::AutoEscape, repr: &'static str, text: Option<String>, default_formatter: bool },
        Enter { out: u64, kind: &'static str },
        Leave { out: u64, kind: &'static str, ok: bool },
    }
    pub fn start() {}
    pub fn stop() -> Vec<Event> {
        vec![]
    }
}

const HOOKED: bool = cfg!(feature = "hooks");
use minijinja::{context, Environment, Error, ErrorKind, State};
use mjh::*;
use std::cell::RefCell;
use std::fmt;
use std::io;
use std::sync::Arc;

// ------------------------------------------------------------------------------------------ probe

#[derive(Clone, Debug, PartialEq)]
enum Beh {
    All,
    Short(usize),
    Half,
    Err(u8, u64, Form), // kind code, id, how the io::Error is built
    Panic,              // the sink panics inside `write`
}

/// how the sink builds the `io::Error` it returns
#[derive(Clone, Copy, Debug, PartialEq)]
enum Form {
    /// `io::Error::new(kind, "inj-<id>")`
    Str,
    /// `io::Error::from(kind)`
    Kind,
    /// `io::Error::from_raw_os_error(id)`
    Raw,
    /// `io::Error::new(kind, SinkErr { id })`
    Custom,
    /// `io::Error::new(kind, minijinja::Error::new(<k>, "inj-<id>"))`
    Engine(ErrorKind),
    /// ... `.with_source(minijinja::Error::new(UndefinedError, ..))`
    EngineChain,
    /// `io::Error::new(kind, Error::new(WriteFailure, "inj-<id>").with_source(io::Error::new(kind, "inj-<id>")))`
    EngineLookalike,
    /// `io::Error::new(kind, io::Error::new(Other, "inj-<id>"))`
    Io,
}

const FORMS: [&str; 11] = ["s", "k", "r", "c", "mi", "mu", "mw", "mt", "mc", "mx", "i"];
const ENGINE_FORMS: [&str; 6] = ["mi", "mu", "mw", "mt", "mc", "mx"];

fn form_name(f: Form) -> &'static str {
    match f {
        Form::Str => "s",
        Form::Kind => "k",
        Form::Raw => "r",
        Form::Custom => "c",
        Form::Engine(ErrorKind::InvalidOperation) => "mi",
        Form::Engine(ErrorKind::UndefinedError) => "mu",
        Form::Engine(ErrorKind::WriteFailure) => "mw",
        Form::Engine(_) => "mt",
        Form::EngineChain => "mc",
        Form::EngineLookalike => "mx",
        Form::Io => "i",
    }
}

fn parse_form(s: &str) -> Option<Form> {
    Some(match s {
        "s" => Form::Str,
        "k" => Form::Kind,
        "r" => Form::Raw,
        "c" => Form::Custom,
        "mi" => Form::Engine(ErrorKind::InvalidOperation),
        "mu" => Form::Engine(ErrorKind::UndefinedError),
        "mw" => Form::Engine(ErrorKind::WriteFailure),
        "mt" => Form::Engine(ErrorKind::TemplateNotFound),
        "mc" => Form::EngineChain,
        "mx" => Form::EngineLookalike,
        "i" => Form::Io,
        _ => return None,
    })
}

/// the sink's own error type
#[derive(Debug)]
struct SinkErr {
    id: u64,
}
impl fmt::Display for SinkErr {
    fn fmt(&self, f: &mut fmt::Formatter<'_>) -> fmt::Result {
        write!(f, "sink error {}", self.id)
    }
}
impl std::error::Error for SinkErr {}

fn build_error(code: u8, id: u64, form: Form) -> io::Error {
    let kind = kind_of(code);
    let msg = format!("inj-{id}");
    match form {
        Form::Str => io::Error::new(kind, msg),
        Form::Kind => io::Error::from(kind),
        Form::Raw => io::Error::from_raw_os_error(id as i32),
        Form::Custom => io::Error::new(kind, SinkErr { id }),
        Form::Engine(k) => io::Error::new(kind, Error::new(k, msg)),
        Form::EngineChain => io::Error::new(kind, Error::new(ErrorKind::InvalidOperation, msg).with_source(Error::new(ErrorKind::UndefinedError, "deep cause"))),
        Form::EngineLookalike => io::Error::new(kind, Error::new(ErrorKind::WriteFailure, msg.clone()).with_source(io::Error::new(kind, msg))),
        Form::Io => io::Error::new(kind, io::Error::new(io::ErrorKind::Other, msg)),
    }
}

/// address of the payload object inside an io::Error (0: none); stable while the error is moved
fn payload_addr(e: &io::Error) -> usize {
    e.get_ref().map(|r| r as *const (dyn std::error::Error + Send + Sync) as *const () as usize).unwrap_or(0)
}

/// what identifies the io::Error the sink handed out
#[derive(Clone, Debug)]
struct Issued {
    kind: io::ErrorKind,
    raw: Option<i32>,
    payload: usize,
}

fn kind_of(code: u8) -> io::ErrorKind {
    match code {
        1 => io::ErrorKind::BrokenPipe,
        2 => io::ErrorKind::Other,
        3 => io::ErrorKind::WouldBlock,
        4 => io::ErrorKind::Interrupted,
        5 => io::ErrorKind::WriteZero,
        _ => io::ErrorKind::TimedOut,
    }
}

fn kind_name(k: io::ErrorKind) -> &'static str {
    match k {
        io::ErrorKind::BrokenPipe => "bp",
        io::ErrorKind::Other => "ot",
        io::ErrorKind::WouldBlock => "wb",
        io::ErrorKind::Interrupted => "in",
        io::ErrorKind::WriteZero => "wz",
        io::ErrorKind::TimedOut => "to",
        _ => "??",
    }
}

fn kind_code(name: &str) -> Option<u8> {
    Some(match name {
        "bp" => 1,
        "ot" => 2,
        "wb" => 3,
        "in" => 4,
        "wz" => 5,
        "to" => 6,
        _ => return None,
    })
}

#[derive(Clone, Debug)]
enum Res {
    Ok(usize),
    Err(u8, u64),
}

#[derive(Default)]
struct Probe {
    script: Vec<Beh>,
    calls: Vec<(usize, Res)>,
    chunks: Vec<Vec<u8>>,
    keep_chunks: bool,
    accepted: Vec<u8>,
    flushes: usize,
    first_fail: Option<String>,
    after_fail: usize,
    /// `flush` returns an error (script token `F`); the engine is not expected to flush at all
    flush_err: bool,
    /// identity of the io::Error returned at the first failing call (None: `write_all`'s own WriteZero)
    issued: Option<Issued>,
}

impl Probe {
    fn new(script: Vec<Beh>, keep_chunks: bool) -> Probe {
        Probe { script, keep_chunks, ..Default::default() }
    }
}

impl io::Write for Probe {
    fn write(&mut self, buf: &[u8]) -> io::Result<usize> {
        let idx = self.calls.len();
        if self.first_fail.is_some() {
            self.after_fail += 1;
        }
        if self.keep_chunks {
            self.chunks.push(buf.to_vec());
        }
        let beh = self.script.get(idx).cloned().unwrap_or(Beh::All);
        match beh {
            Beh::Panic => {
                if self.first_fail.is_none() {
                    self.first_fail = Some(format!("panic@{idx}"));
                }
                // logged like an error so that the digest of the call log has an entry for it
                self.calls.push((buf.len(), Res::Err(2, 999983)));
                panic!("inj-panic");
            }
            Beh::Err(code, id, form) => {
                self.calls.push((buf.len(), Res::Err(code, id)));
                let e = build_error(code, id, form);
                // (a raw OS code decides its kind by itself: the script names the kind it expects)
                let retried = e.kind() == io::ErrorKind::Interrupted;
                if e.kind() != kind_of(code) {
                    self.first_fail.get_or_insert(format!("badscript:{}@{}", kind_name(e.kind()), idx));
                }
                if !retried && self.first_fail.is_none() {
                    self.first_fail = Some(format!("{}:{}:{}@{}", kind_name(kind_of(code)), id, form_name(form), idx));
                    self.issued = Some(Issued { kind: e.kind(), raw: e.raw_os_error(), payload: payload_addr(&e) });
                }
                Err(e)
            }
            other => {
                let n = match other {
                    Beh::All => buf.len(),
                    Beh::Short(k) => k.min(buf.len()),
                    Beh::Half => (buf.len() + 1) / 2,
                    Beh::Err(..) | Beh::Panic => unreachable!(),
                };
                self.calls.push((buf.len(), Res::Ok(n)));
                self.accepted.extend_from_slice(&buf[..n]);
                if n == 0 && !buf.is_empty() && self.first_fail.is_none() {
                    self.first_fail = Some(format!("zero@{idx}"));
                }
                Ok(n)
            }
        }
    }
    fn flush(&mut self) -> io::Result<()> {
        self.flushes += 1;
        if self.flush_err {
            let e = io::Error::new(io::ErrorKind::Other, "inj-424242");
            if self.first_fail.is_none() {
                self.first_fail = Some(format!("flush@{}", self.calls.len()));
                self.issued = Some(Issued { kind: e.kind(), raw: None, payload: payload_addr(&e) });
            }
            return Err(e);
        }
        Ok(())
    }
}

const MODP: u64 = 4294967291;

/// (shadows `mjh::hex`, which formats byte by byte: the operation logs of the big programs are megabytes)
fn hex(bytes: &[u8]) -> String {
    const DIGITS: &[u8; 16] = b"0123456789abcdef";
    let mut s = String::with_capacity(bytes.len() * 2);
    for b in bytes {
        s.push(DIGITS[(b >> 4) as usize] as char);
        s.push(DIGITS[(b & 15) as usize] as char);
    }
    s
}

/// data of an operation token: hex; in the compact form (logs that are only compared with each
/// other, never printed) long data is replaced by its length and a hash
fn data_tok(bytes: &[u8], full: bool) -> String {
    if full || bytes.len() <= 24 {
        hex(bytes)
    } else {
        format!("#{}:{:x}", bytes.len(), bytes.iter().fold(0xcbf29ce484222325u64, |h, b| (h ^ *b as u64).wrapping_mul(0x100000001b3)))
    }
}

/// the compact form of a full token
fn compact_tok(t: &str) -> String {
    let (body, bang) = match t.strip_suffix('!') {
        Some(b) => (b, "!"),
        None => (t, ""),
    };
    match body.split_once(':') {
        Some((head, h)) if h.len() > 48 && (head.starts_with('w') || head.starts_with('c') || head == "e") => format!("{head}:{}{bang}", data_tok(&unhex(h), false)),
        _ => t.to_string(),
    }
}

fn sum_bytes(bs: &[u8]) -> u64 {
    bs.iter().fold(0u64, |s, b| (s * 31 + *b as u64 + 1) % MODP)
}

fn digest(calls: &[(usize, Res)]) -> u64 {
    calls.iter().fold(7u64, |d, (off, res)| {
        let code = match res {
            Res::Ok(n) => 2 * *n as u64,
            Res::Err(k, id) => 2 * (id * 8 + *k as u64) + 1,
        };
        (d * 1000003 + (*off as u64) * 8191 + code) % MODP
    })
}

fn parse_beh(t: &str) -> Option<Beh> {
    if t == "A" {
        Some(Beh::All)
    } else if t == "P" {
        Some(Beh::Panic)
    } else if t == "H" {
        Some(Beh::Half)
    } else if let Some(k) = t.strip_prefix('S') {
        k.parse().ok().map(Beh::Short)
    } else if let Some(r) = t.strip_prefix('E') {
        let mut parts = r.split('.');
        let (k, id) = (parts.next()?, parts.next()?);
        let form = match parts.next() {
            Some(f) => parse_form(f)?,
            None => Form::Str,
        };
        Some(Beh::Err(kind_code(k)?, id.parse().ok()?, form))
    } else {
        None
    }
}

/// `F` as first token: `flush` fails (no `write` behaviour)
fn flush_fails(s: &str) -> bool {
    s == "F" || s.starts_with("F,")
}

fn parse_script(s: &str) -> Option<Vec<Beh>> {
    let mut out = vec![];
    let s = if s == "F" { "-" } else { s.strip_prefix("F,").unwrap_or(s) };
    if s == "-" {
        return Some(out);
    }
    for tok in s.split(',') {
        match tok.split_once('*') {
            Some((b, n)) => {
                let b = parse_beh(b)?;
                for _ in 0..n.parse::<usize>().ok()? {
                    out.push(b.clone());
                }
            }
            None => out.push(parse_beh(tok)?),
        }
    }
    Some(out)
}

// --------------------------------------------------------------------------------------- programs

#[derive(Debug)]
struct Obj;
impl Object for Obj {
    fn render(self: &Arc<Self>, f: &mut fmt::Formatter<'_>) -> fmt::Result {
        use fmt::Write;
        f.write_str("<obj ")?;
        write!(f, "{}", 42)?;
        f.write_char('&')?;
        f.write_char('é')?;
        f.write_str(">")
    }
}

/// writes `k` pieces and then fails by itself (no sink involved)
#[derive(Debug)]
struct ObjErr(usize);
impl Object for ObjErr {
    fn render(self: &Arc<Self>, f: &mut fmt::Formatter<'_>) -> fmt::Result {
        for i in 0..self.0 {
            write!(f, "<p{}>", i)?;
        }
        Err(fmt::Error)
    }
}

/// Latin-1 and other multi-byte characters through `write_char`, bytes through `write_str`
#[derive(Debug)]
struct ObjChars;
impl Object for ObjChars {
    fn render(self: &Arc<Self>, f: &mut fmt::Formatter<'_>) -> fmt::Result {
        use fmt::Write;
        for c in ['a', '\u{80}', 'é', 'ÿ', '<', '\u{100}', '€', '𝄞', '\u{7f}'] {
            f.write_char(c)?;
        }
        f.write_str("ß/")
    }
}

#[derive(Debug)]
struct ObjSeq;
impl Object for ObjSeq {
    fn repr(self: &Arc<Self>) -> minijinja::value::ObjectRepr {
        minijinja::value::ObjectRepr::Seq
    }
    fn get_value(self: &Arc<Self>, key: &Value) -> Option<Value> {
        match key.as_usize()? {
            0 => Some(Value::from("s<0>")),
            1 => Some(Value::from(1.5)),
            2 => Some(Value::from_safe_string("<safe>".into())),
            _ => None,
        }
    }
    fn enumerate(self: &Arc<Self>) -> minijinja::value::Enumerator {
        minijinja::value::Enumerator::Seq(3)
    }
}

#[derive(Debug)]
struct ObjMap;
impl Object for ObjMap {
    fn get_value(self: &Arc<Self>, key: &Value) -> Option<Value> {
        match key.as_str()? {
            "k<" => Some(Value::from("v&")),
            "n" => Some(Value::from(-3)),
            _ => None,
        }
    }
    fn enumerate(self: &Arc<Self>) -> minijinja::value::Enumerator {
        minijinja::value::Enumerator::Str(&["k<", "n"])
    }
}

/// user formatting code that uses every way of writing to a `fmt::Formatter`
#[derive(Debug)]
struct ObjWriter;
impl Object for ObjWriter {
    fn render(self: &Arc<Self>, f: &mut fmt::Formatter<'_>) -> fmt::Result {
        use fmt::Write;
        f.write_str("[s]")?;
        f.write_char('c')?;
        f.write_char('ñ')?;
        write!(f, "literal only")?;
        write!(f, "{}-{}", 1, "two")?;
        f.write_fmt(format_args!("fmt-lit"))?;
        f.write_fmt(format_args!("{:>3}", 9))?;
        f.pad("pad")?;
        write!(f, "{}", UserDisp)
    }
}

/// What an object does after one of its writes failed: 0 stops (`?`), 1 keeps writing and returns
/// the first error at the end, 2 keeps writing and returns Ok, 3 keeps writing and returns the
/// result of its last write, 4 stops but still writes its closing bracket before returning the error.
/// It writes through `write_str`, `write_char`, `write!` with arguments and `pad`.
#[derive(Debug)]
struct ObjCont(u8);
impl Object for ObjCont {
    fn render(self: &Arc<Self>, f: &mut fmt::Formatter<'_>) -> fmt::Result {
        use fmt::Write;
        let mode = self.0;
        let mut first: fmt::Result = Ok(());
        let mut last: fmt::Result = Ok(());
        for i in 0..5 {
            let rv = match i {
                0 => f.write_str("[p0<"),
                1 => f.write_char('ñ'),
                2 => write!(f, "p{}-{}", 2, "x"),
                3 => f.pad("pad"),
                _ => f.write_str("p4"),
            };
            if rv.is_err() {
                match mode {
                    0 => return rv,
                    4 => {
                        user_flag(1);
                        let _ = f.write_str("]");
                        return rv;
                    }
                    _ => user_flag(1),
                }
            }
            first = first.and(rv);
            last = rv;
        }
        let closing = f.write_str("]");
        let ret = match mode {
            1 => first.and(closing),
            2 => Ok(()),
            3 => closing.and(last),
            _ => closing,
        };
        if (first.is_err() || closing.is_err()) && ret.is_ok() {
            user_flag(2);
        }
        ret
    }
}

/// serializing this fails: `Value::from_serialize` turns it into an *invalid* value
struct BadSer;
impl serde::Serialize for BadSer {
    fn serialize<S: serde::Serializer>(&self, _s: S) -> Result<S::Ok, S::Error> {
        Err(serde::ser::Error::custom("inj-bad-value"))
    }
}

struct UserDisp;
impl fmt::Display for UserDisp {
    fn fmt(&self, f: &mut fmt::Formatter<'_>) -> fmt::Result {
        f.write_fmt(format_args!("nested"))?;
        f.pad("p")?;
        f.write_str("<d>")?;
        write!(f, "lit")
    }
}

thread_local! {
    /// which way of writing the user formatter uses for its next call (reset before every render)
    static UCOUNT: std::cell::Cell<usize> = const { std::cell::Cell::new(0) };
    /// what the harness's own user code did in this run: bit 0 = it went on (wrote again, or dropped
    /// the error) after one of its writes had failed; bit 1 = it reported success although one of
    /// its writes had failed.  Without either, "rendering stops" means: the operation log ends at
    /// the failed write.
    static UFLAGS: std::cell::Cell<u8> = const { std::cell::Cell::new(0) };
}

fn user_flag(bit: u8) {
    UFLAGS.with(|f| f.set(f.get() | bit));
}

/// A user formatter (`Environment::set_formatter`) that writes a marker before every value, cycling
/// through every way user code can write to an `Output`: the inherent `write_str`/`write_fmt`
/// (`write!` with a literal only, with arguments, `format_args!`), the `fmt::Write` trait methods
/// (`write_str`, `write_char`, `write_fmt`), padding, nested `Display` impls; `none` is printed as a
/// literal `null`; everything else is then handed to the default formatter.
fn user_formatter(out: &mut minijinja::Output, state: &mut State, value: &Value) -> Result<(), Error> {
    let k = UCOUNT.with(|c| {
        let k = c.get();
        c.set(k + 1);
        k
    });
    match k % 10 {
        0 => write!(out, "lit0")?,
        1 => out.write_fmt(format_args!("lit1"))?,
        2 => fmt::Write::write_fmt(out, format_args!("lit2"))?,
        3 => write!(out, "a{}b", 3)?,
        4 => out.write_str("lit4")?,
        5 => fmt::Write::write_str(out, "lit5")?,
        6 => {
            fmt::Write::write_char(out, 'é')?;
            fmt::Write::write_char(out, 'x')?;
        }
        7 => write!(out, "{:>4}|{:<3}|", 7, "p")?,
        8 => write!(out, "{}", UserDisp)?,
        _ => {
            write!(out, "x")?;
            write!(out, "y")?;
            out.write_fmt(format_args!("z"))?;
        }
    }
    if value.is_none() {
        write!(out, "null")?;
        return Ok(());
    }
    minijinja::escape_formatter(out, state, value)
}

/// A careless user formatter: it drops the errors of its own writes, keeps writing, and reports
/// a failure of the default formatter as an error of its own kind — also as a `WriteFailure` of its
/// own making, with and without an io::Error (not the sink's) as source.
fn careless_formatter(out: &mut minijinja::Output, state: &mut State, value: &Value) -> Result<(), Error> {
    let k = UCOUNT.with(|c| {
        let k = c.get();
        c.set(k + 1);
        k
    });
    let mut dropped = write!(out, "(").is_err();
    if k % 3 == 0 {
        dropped |= out.write_str("m").is_err();
        dropped |= fmt::Write::write_char(out, 'µ').is_err();
    }
    let rv = minijinja::escape_formatter(out, state, value);
    dropped |= write!(out, ")").is_err();
    if dropped || rv.is_err() {
        user_flag(1);
        if k % 6 == 2 || rv.is_ok() {
            user_flag(2);
        }
    }
    match k % 6 {
        0 => rv,
        1 => rv.map_err(|_| Error::new(ErrorKind::InvalidOperation, "user formatter failed")),
        2 => Ok(()),
        3 => rv.map_err(|e| Error::new(ErrorKind::BadSerialization, "wrapped").with_source(e)),
        // errors that look like the engine's own report of a failing writer
        4 => rv.map_err(|_| Error::new(ErrorKind::WriteFailure, "formatter could not write")),
        _ => rv.map_err(|_| Error::new(ErrorKind::WriteFailure, "I/O error during rendering").with_source(io::Error::new(io::ErrorKind::Other, "inj-0"))),
    }
}

/// 0: default formatter, 1: a formatter that only defers to the default one, 2: `user_formatter`,
/// 3: `careless_formatter`
fn fmt_mode(api: &str) -> u8 {
    if api == "fmt" {
        1
    } else if api == "ufmt" || api.starts_with("ublock:") {
        2
    } else if api == "cfmt" || api.starts_with("cblock:") {
        3
    } else {
        0
    }
}

fn is_full(api: &str) -> bool {
    api == "full" || api == "fmt" || api == "ufmt" || api == "cfmt"
}

fn block_of(api: &str) -> Option<&str> {
    api.strip_prefix("block:").or_else(|| api.strip_prefix("ublock:")).or_else(|| api.strip_prefix("cblock:"))
}

fn base_ctx() -> std::collections::BTreeMap<String, Value> {
    let big: Vec<String> = (0..40).map(|i| if i % 7 == 3 { format!("s{i}<&") } else { format!("s{i}") }).collect();
    let bigstr = "lorem <ipsum> & 'dolor' ".repeat(120);
    let tree = Value::from(minijinja::value::Serde(serde_json::json!([
        {"name": "a", "children": [{"name": "b", "children": []}, {"name": "c<", "children": [{"name": "d", "children": []}]}]},
        {"name": "e", "children": []}
    ])));
    let nested = Value::from(minijinja::value::Serde(serde_json::json!({"a": [1, "x<"], "b": {"c": true, "d": null}, "e": 1.5})));
    let mut m = std::collections::BTreeMap::new();
    let mut put = |k: &str, v: Value| {
        m.insert(k.to_string(), v);
    };
    put("name", Value::from("World"));
    put("items", Value::from(vec![1, 2, 3]));
    put("empty", Value::from(Vec::<i32>::new()));
    put("html", Value::from("<b>Tom & \"Jerry\"</b>/'"));
    put("big", Value::from(big));
    put("bigstr", Value::from(bigstr));
    put("nested", nested);
    put("n", Value::from(5));
    put("small", Value::from("123"));
    put("uni", Value::from("žluťoučký 𝄞 kůň"));
    put("tree", tree);
    put("flag", Value::from(true));
    put("obj", Value::from_object(Obj));
    // value kinds
    put("bytes_v", Value::from_bytes(b"by\xfftes<&".to_vec()));
    put("i128_v", Value::from(i128::MIN));
    put("u128_v", Value::from(u128::MAX));
    put("i64min", Value::from(i64::MIN));
    put("u64max", Value::from(u64::MAX));
    put("nan", Value::from(f64::NAN));
    put("inf", Value::from(f64::INFINITY));
    put("ninf", Value::from(f64::NEG_INFINITY));
    put("negf", Value::from(-0.5));
    put("lazy", Value::make_iterable(|| (0..3).map(|i| format!("l<{i}>"))));
    put("obj_e0", Value::from_object(ObjErr(0)));
    put("obj_e1", Value::from_object(ObjErr(1)));
    put("obj_e3", Value::from_object(ObjErr(3)));
    put("obj_chars", Value::from_object(ObjChars));
    put("obj_seq", Value::from_object(ObjSeq));
    put("obj_map", Value::from_object(ObjMap));
    put("obj_w", Value::from_object(ObjWriter));
    for m in 0..5u8 {
        put(&format!("obj_c{m}"), Value::from_object(ObjCont(m)));
    }
    // an invalid value can only be reached through a container (a direct lookup reports its error)
    put("inv_seq", Value::from(vec![Value::from(1), Value::from(minijinja::value::Serde(BadSer)), Value::from("z<")]));
    // one value of every representation, to be printed nested (the `Debug` arms) and one by one
    put(
        "all_kinds",
        Value::from(vec![
            Value::from(()),
            Value::UNDEFINED,
            Value::from(true),
            Value::from(7u64),
            Value::from(-7i64),
            Value::from(2.5),
            Value::from(minijinja::value::Serde(BadSer)),
            Value::from(u128::MAX),
            Value::from(i128::MIN),
            Value::from("a long string that does not fit the inline representation <&>"),
            Value::from("small<"),
            Value::from_bytes(b"b<\xff".to_vec()),
            Value::from_object(Obj),
            Value::from_safe_string("<safe and long enough not to be inline>".into()),
        ]),
    );
    put("safe_html", Value::from_safe_string("<i>safe & sound</i>".into()));
    put("small_safe", Value::from_safe_string("<s>".into()));
    put("neg_str", Value::from("-42"));
    for (k, v) in [("e1", "<a"), ("e2", "a<"), ("e3", "<<"), ("e4", "&"), ("e5", "a&b/c'd\"e>f<"), ("e6", "é<€>𝄞"), ("e7", ""), ("e8", "/"), ("e9", "a long string without any character that needs escaping at all"), ("e10", "x'y'z")] {
        put(k, Value::from(v));
    }
    // 42 kB (quick) / 200 kB (thorough) in one piece when safe; about 500 pieces when escaped
    let huge = "0123456789 abcdefghijklmnopqrstuvwxyz <&> ".repeat(100);
    put("huge_safe", Value::from_safe_string("0123456789 abcdefghijklmnopqrstuvwxyz <&> ".repeat(HUGE_REPEATS.load(std::sync::atomic::Ordering::Relaxed))));
    put("huge", Value::from(huge));
    m
}

/// size of the one-piece value `huge_safe` (in repetitions of a 42 byte pattern); set from the tier
static HUGE_REPEATS: std::sync::atomic::AtomicUsize = std::sync::atomic::AtomicUsize::new(1000);

fn set_tier(tier: &str) {
    HUGE_REPEATS.store(if tier == "thorough" { 4800 } else { 1000 }, std::sync::atomic::Ordering::Relaxed);
}

fn ctx() -> Value {
    static BASE: std::sync::OnceLock<std::collections::BTreeMap<String, Value>> = std::sync::OnceLock::new();
    let mut m = BASE.get_or_init(base_ctx).clone();
    // a one-shot iterator is used up by the render that prints it
    m.insert("oneshot".into(), Value::make_one_shot_iterator(vec!["o<1>".to_string(), "o2".to_string()].into_iter()));
    Value::from(m)
}

/// environment configuration of a program
#[derive(Clone, Default, Debug)]
struct EnvCfg {
    fuel: Option<u64>,
    /// 0 lenient, 1 chainable, 2 semi-strict, 3 strict
    undefined: u8,
    /// templates come from a loader instead of `add_template_owned`
    loader: bool,
    debug_off: bool,
    /// 0 by file name (default), 1 always html, 2 always none, 3 always json, 4 a custom mode
    auto_escape: u8,
    trim_blocks: bool,
    keep_trailing_newline: bool,
}

impl EnvCfg {
    fn tag(&self) -> String {
        format!(
            "fuel{}-undef{}-loader{}-debug{}-ae{}-trim{}-nl{}",
            self.fuel.map(|_| 1).unwrap_or(0),
            self.undefined,
            self.loader as u8,
            !self.debug_off as u8,
            self.auto_escape,
            self.trim_blocks as u8,
            self.keep_trailing_newline as u8
        )
    }
}

struct Prog {
    pid: String,
    templates: Vec<(String, String)>,
    main: String,
    blocks: Vec<String>,
    fn_blocks: Vec<String>,
    /// structured family: wire form of the program as a `Prog` term, expected `flat=` verdict
    psyn: Option<(String, &'static str)>,
    /// structured family: the term of what an API other than the whole render evaluates (`fn:<b>`)
    api_psyn: Vec<(String, String)>,
    cfg: EnvCfg,
    /// also run with the user formatter installed (APIs `ufmt`, `ublock:<b>`)
    user_writer: bool,
}

fn pc(pid: &str, main: &str, templates: &[(&str, &str)], cfg: EnvCfg) -> Prog {
    Prog { cfg, ..p(pid, main, templates, &[], &[]) }
}

fn p(pid: &str, main: &str, templates: &[(&str, &str)], blocks: &[&str], fn_blocks: &[&str]) -> Prog {
    Prog {
        pid: pid.to_string(),
        templates: templates.iter().map(|(a, b)| (a.to_string(), b.to_string())).collect(),
        main: main.to_string(),
        blocks: blocks.iter().map(|s| s.to_string()).collect(),
        fn_blocks: fn_blocks.iter().map(|s| s.to_string()).collect(),
        psyn: None,
        api_psyn: vec![],
        cfg: EnvCfg::default(),
        user_writer: true,
    }
}

fn fixed_programs() -> Vec<Prog> {
    let base = "H{% block title %}base title{% endblock %}M{% block body %}base body {{ name }}{% endblock %}F";
    let mid = "{% extends \"base.txt\" %}{% block body %}mid<{{ super() }}>{% for i in items %}{{ i }}{% endfor %}{% endblock %}";
    let macros = "noise{% macro hello(who) %}Hello {{ who }}!{% endmacro %}{% macro wrap() %}[{{ caller() }}]{% endmacro %}{% set exported = 'exp' %}";
    vec![
        p("f00", "m.txt", &[("m.txt", "Hello {{ name }}!")], &[], &[]),
        p("f01", "m.txt", &[("m.txt", "{% for i in items %}[{{ i }}]{% else %}none{% endfor %}{% for i in empty %}x{% else %}none{{ n }}{% endfor %}")], &[], &[]),
        p("f02", "m.txt", &[("m.txt", "{% macro m(a, b=2) %}<{{ a }}:{{ b }}>{% endmacro %}{% macro w() %}[{{ caller() }}]{% endmacro %}{{ m(1) }}{{ m(name, 3) }}{% call w() %}in {{ name }}{% endcall %}{{ m(1)|upper }}")], &[], &[]),
        p("f03", "m.txt", &[("m.txt", "{% set x %}captured {{ name }}{% endset %}A{{ x }}B{{ x|upper }}{% set y | upper %}filtered {{ n }}{% endset %}{{ y }}{% set z = n + 1 %}{{ z }}")], &[], &[]),
        p("f04", "m.txt", &[("m.txt", "{% filter upper %}abc {{ name }}{% filter replace('A', '4') %}aaa{% endfilter %}{% endfilter %}tail")], &[], &[]),
        p("f05", "m.txt", &[("m.txt", "pre{% include \"inc.txt\" %}post{% include [\"missing\", \"inc.txt\"] %}{% include \"missing\" ignore missing %}{% include \"inc2.txt\" ignore missing %}end"),
                            ("inc.txt", "<inc {{ name }} {% for i in items %}{{ i }}{% endfor %}{% include \"inc2.txt\" %}>"),
                            ("inc2.txt", "(deep {{ n }})")], &[], &[]),
        p("f06", "child.txt", &[("base.txt", base),
                                ("child.txt", "{% extends \"base.txt\" %}ignored {{ name }}{% block title %}child[{{ super() }}]{% endblock %}{% block body %}{{ super()|upper }}+child{% endblock %}")],
          &["title", "body"], &[]),
        p("f07", "leaf.txt", &[("base.txt", base), ("mid.txt", mid),
                               ("leaf.txt", "{% extends \"mid.txt\" %}{% set v = 'vv' %}{% macro mm() %}({{ v }}){% endmacro %}{% block title %}leaf {{ mm() }}{% endblock %}{% block body %}leaf<{{ super() }}>{{ self.title() }}{% endblock %}")],
          &["title", "body"], &[]),
        p("f08", "m.txt", &[("m.txt", "{% for item in tree recursive %}<{{ item.name }}{% if item.children %}{{ loop(item.children) }}{% endif %}>{% endfor %}|{% for item in tree recursive %}({{ item.name }}{% if item.children %}{{ loop(item.children)|upper }}{% endif %}){% endfor %}")], &[], &[]),
        p("f09", "page.html", &[("page.html", "<p>{{ html }}</p>{{ html|safe }}{% autoescape false %}{{ html }}{% endautoescape %}{{ big }}{{ nested }}{{ obj }}{{ uni }}")], &[], &[]),
        p("f10", "m.txt", &[("m.txt", "{{ big }}|{{ bigstr }}|{{ nested }}|{{ big|join(',') }}|{{ obj }}|{{ [name, html, 'q\"uote\\n'] }}")], &[], &[]),
        p("f11", "m.txt", &[("m.txt", "{% autoescape 'json' %}{{ nested }}{{ name }}{{ items }}{% endautoescape %}{% autoescape 'html' %}{{ html }}{{ bigstr }}{% endautoescape %}")], &[], &[]),
        p("f12", "n.html", &[("n.html", "{{ 1 }}{{ 12345678901 }}{{ -5 }}{{ 1.5 }}{{ true }}{{ none }}{{ small }}{{ 99 }}{{ 100 }}{{ 255 }}{{ 1000 }}{{ missing }}{{ items|length }}{{ 170141183460469231731687303715884105727 }}")], &[], &[]),
        p("f13", "m.txt", &[("m.txt", "abc{{ name }}{{ items.foo.bar }}def")], &[], &[]),
        p("f14", "m.txt", &[("m.txt", "a{% include \"bad.txt\" %}b"), ("bad.txt", "x{{ name }}{{ items.foo.bar }}y")], &[], &[]),
        p("f15", "m.txt", &[("m.txt", "{% with a=1, b=name %}{{ a }}{{ b }}{% endwith %}{% if flag %}yes{% else %}no{% endif %}{% raw %}{{ raw }}{% endraw %}{{ '%s-%s'|format(1, 2) }}{% for i in items %}{% if i == 2 %}{% continue %}{% endif %}{{ i }}{% if i == 3 %}{% break %}{% endif %}{% endfor %}")], &[], &[]),
        p("f16", "m.txt", &[("macros.txt", macros),
                            ("m.txt", "{% import \"macros.txt\" as m %}{% from \"macros.txt\" import hello as hi, exported %}{{ m.hello(name) }}{{ hi('x') }}{{ exported }}{% call m.wrap() %}w{% endcall %}")], &[], &[]),
        p("f17", "m.txt", &[("m.txt", "{% for i in items %}{% block row %}<{{ i }}:{{ name }}>{% endblock %}{% endfor %}{% block tail %}T{{ self.row() }}{% endblock %}")], &["row", "tail"], &[]),
        p("f18", "m.txt", &[("m.txt", "{% block a %}A {{ name }} {% for i in items %}{{ i }},{% endfor %}{% endblock %}X{{ emit_block('a') }}Y")], &["a"], &["a"]),
        p("f19", "child.html", &[("base.html", "<html>{% block head %}<title>{{ html }}</title>{% endblock %}<body>{% block body %}{% endblock %}</body></html>"),
                                 ("child.html", "{% extends \"base.html\" %}top level {{ html }}{% set q %}cap{% endset %}{% block body %}<div>{{ html }}{{ q }}{% include \"part.html\" %}</div>{% endblock %}"),
                                 ("part.html", "<i>{{ uni }}</i>{% set k %}k{{ html }}{% endset %}{{ k }}")],
          &["head", "body"], &[]),
        p("f20", "m.txt", &[("m.txt", "héllo €{{ uni }}𝄞{{ 'ß' }}")], &[], &[]),
        p("f21", "m.txt", &[("m.txt", "")], &[], &[]),
        p("f22", "m.txt", &[("m.txt", "{{ '' }}{% if false %}x{% endif %}{% set a %}{% endset %}{{ a }}")], &[], &[]),
        p("f23", "child.txt", &[("base.txt", "B{% block x required %}{% endblock %}E"),
                                ("child.txt", "{% extends \"base.txt\" %}{% block x %}X{{ n }}{% endblock %}")], &["x"], &[]),
        p("f24", "m.txt", &[("m.txt", "{% macro rec(k) %}{{ k }}{% if k > 0 %}{{ rec(k - 1) }}{% endif %}{% endmacro %}{{ rec(4) }}{% set ns = namespace(c=0) %}{% for i in items %}{% set ns.c = ns.c + i %}{% endfor %}{{ ns.c }}{{ items|map('string')|join('/') }}{{ range(3)|list }}")], &[], &[]),
        p("f25", "child.txt", &[("base.txt", base),
                                ("child.txt", "{% extends \"base.txt\" %}{% block body %}x{{ undefined_fn() }}y{% endblock %}")], &["title"], &[]),
        // strings with metacharacters at the borders of the pieces, safe strings, the integer-string fast path
        p("f26", "e.html", &[("e.html", "{{ e1 }}|{{ e2 }}|{{ e3 }}|{{ e4 }}|{{ e5 }}|{{ e6 }}|{{ e7 }}|{{ e8 }}|{{ e9 }}|{{ e10 }}|{{ safe_html }}|{{ small_safe }}|{{ neg_str }}|{{ small }}")], &[], &[]),
        p("f27", "e.txt", &[("e.txt", "{{ e1 }}|{{ e2 }}|{{ e3 }}|{{ e4 }}|{{ e5 }}|{{ e6 }}|{{ e7 }}|{{ e8 }}|{{ e9 }}|{{ e10 }}|{{ safe_html }}|{{ small_safe }}|{{ neg_str }}|{{ small }}")], &[], &[]),
        // every kind of value: plain, html and json auto-escaping
        p("f28", "v.txt", &[("v.txt", "{{ bytes_v }}|{{ i128_v }}|{{ u128_v }}|{{ i64min }}|{{ u64max }}|{{ nan }}|{{ inf }}|{{ ninf }}|{{ negf }}|{{ 255 }}|{{ 256 }}|{{ lazy }}|{{ oneshot }}|{{ obj_chars }}|{{ obj_seq }}|{{ obj_map }}|{{ obj }}|{{ none }}|{{ missing }}|{{ [bytes_v, nan, 'q\"', obj_map] }}|{{ {'a': [1, {'b': lazy}]} }}")], &[], &[]),
        p("f29", "v.html", &[("v.html", "{{ bytes_v }}|{{ i128_v }}|{{ u128_v }}|{{ i64min }}|{{ u64max }}|{{ nan }}|{{ inf }}|{{ ninf }}|{{ negf }}|{{ 255 }}|{{ 256 }}|{{ lazy }}|{{ oneshot }}|{{ obj_chars }}|{{ obj_seq }}|{{ obj_map }}|{{ obj }}|{{ none }}|{{ missing }}|{{ [bytes_v, nan, 'q\"', obj_map] }}|{{ {'a': [1, {'b': lazy}]} }}")], &[], &[]),
        p("f30", "v.json", &[("v.json", "{{ bytes_v }}|{{ i128_v }}|{{ nan }}|{{ lazy }}|{{ obj_seq }}|{{ obj_map }}|{{ e5 }}|{{ safe_html }}|{{ none }}|{{ [1, 'x<', {'k': e6}] }}")], &[], &[]),
        // user formatting code that fails by itself after 0, 1, 3 pieces (plain and escaped)
        p("f31", "o.txt", &[("o.txt", "a{{ obj_e0 }}b")], &[], &[]),
        p("f32", "o.txt", &[("o.txt", "a{{ name }}{{ obj_e1 }}b")], &[], &[]),
        p("f33", "o.txt", &[("o.txt", "{% set x %}cap{% endset %}{{ x }}{{ obj_e3 }}b")], &[], &[]),
        p("f34", "o.html", &[("o.html", "a{{ obj_e3 }}b")], &[], &[]),
        p("f35", "o.txt", &[("o.txt", "a{% include \"i.txt\" %}b"), ("i.txt", "i{{ obj_e1 }}j")], &[], &[]),
        p("f36", "o.txt", &[("o.txt", "a{{ [1, obj_e1, 2] }}b")], &[], &[]),
        // huge strings: one piece when safe, thousands of pieces when escaped
        p("f37", "h.html", &[("h.html", "<{{ huge_safe }}>{{ huge }}.")], &[], &[]),
        p("f38", "h.txt", &[("h.txt", "<{{ huge }}>{{ huge|safe }}{{ huge|upper|length }}.")], &[], &[]),
        // errors after partial output that have nothing to do with the sink
        pc("f39", "m.txt", &[("m.txt", "start{% for i in range(1000) %}[{{ i }}]{% endfor %}end")], EnvCfg { fuel: Some(120), ..Default::default() }),
        pc("f40", "m.txt", &[("m.txt", "a{{ name }}{{ missing }}b")], EnvCfg { undefined: 3, ..Default::default() }),
        pc("f41", "m.txt", &[("m.txt", "a{{ name }}{{ missing.x }}b{{ missing }}c")], EnvCfg { undefined: 1, ..Default::default() }),
        pc("f42", "m.txt", &[("m.txt", "raw text{{ name }}tail")], EnvCfg { auto_escape: 4, ..Default::default() }),
        pc("f43", "m.txt", &[("m.txt", "{{ html }}{% autoescape false %}{{ html }}{% endautoescape %}{{ nested }}")], EnvCfg { auto_escape: 3, ..Default::default() }),
        // loader-backed templates, debug off, whitespace options
        pc("f44", "child.txt", &[("base.txt", base),
                                 ("child.txt", "{% extends \"base.txt\" %}{% block body %}[{{ super() }}]{% include \"inc.txt\" %}{% endblock %}"),
                                 ("inc.txt", "<inc {{ name }}>\n")], EnvCfg { loader: true, debug_off: true, ..Default::default() }),
        pc("f45", "m.html", &[("m.html", "  {% if flag %}\n  x {{ html }}\n  {% endif %}\nlast\n")], EnvCfg { trim_blocks: true, keep_trailing_newline: true, auto_escape: 1, ..Default::default() }),
        p("f47", "w.txt", &[("w.txt", "{{ obj_w }}|{{ none }}|{% set x %}{{ obj_w }}{{ none }}{% endset %}{{ x }}|{% filter upper %}{{ obj_w }}{% endfilter %}{% for i in items %}{{ none }}{{ i }}{% endfor %}")], &[], &[]),
        p("f48", "w.html", &[("w.html", "{{ obj_w }}|{{ none }}|{{ html }}{% include \"wi.html\" %}"), ("wi.html", "{{ none }}<{{ name }}>{{ none }}")], &[], &[]),
        // objects that keep writing after a failed write (see `ObjCont`)
        p("f49", "c.txt", &[("c.txt", "a{{ obj_c0 }}b{{ 42 }}c")], &[], &[]),
        p("f50", "c.txt", &[("c.txt", "a{{ obj_c1 }}b{{ 42 }}c")], &[], &[]),
        p("f51", "c.txt", &[("c.txt", "a{{ obj_c2 }}b{{ 42 }}c")], &[], &[]),
        p("f52", "c.txt", &[("c.txt", "a{{ obj_c3 }}b{{ 42 }}c")], &[], &[]),
        p("f53", "c.txt", &[("c.txt", "a{{ obj_c4 }}b{{ 42 }}c")], &[], &[]),
        p("f54", "c.txt", &[("c.txt", "{% for o in [obj_c1, obj_c2, obj_c3] %}<{{ o }}>{% endfor %}{{ [obj_c2, 1, obj_c1] }}{% include \"ci.txt\" %}"), ("ci.txt", "i{{ obj_c3 }}{% set x %}{{ obj_c2 }}{% endset %}{{ x }}j")], &[], &[]),
        p("f55", "c.html", &[("c.html", "a{{ obj_c1 }}{{ obj_c2 }}b{{ html }}")], &[], &[]),
        // blocks whose objects keep writing after a failed write / report success (block rendering checks the adapter too)
        p("f56", "c.txt", &[("c.txt", "{% block a %}a{{ obj_c2 }}b{{ obj_c1 }}{{ none }}{% endblock %}|{% block b %}{{ obj_c3 }}{{ 42 }}{{ obj_c4 }}{% endblock %}{{ emit_block('a') }}")], &["a", "b"], &["a"]),
        // every representation of a value: nested in a sequence / a map (`Debug` arms) and emitted one by one
        p("f57", "k.txt", &[("k.txt", "{{ all_kinds }}|{{ inv_seq }}|{{ {'m': inv_seq} }}|{% for v in all_kinds[:6] %}{{ v }},{% endfor %}{% for v in all_kinds[7:] %}{{ v }},{% endfor %}{{ inv_seq[1] }}.")], &[], &[]),
        p("f58", "k.html", &[("k.html", "{{ all_kinds }}|{{ inv_seq }}|{% for v in all_kinds[:6] %}{{ v }},{% endfor %}{% for v in all_kinds[7:] %}{{ v }},{% endfor %}{{ inv_seq[1] }}.")], &[], &[]),
        pc("f46", "m.txt", &[("m.txt", "{% for i in range(3) %}{{ i }}{% include \"x.txt\" %}{% endfor %}"), ("x.txt", "({{ loop.index }})")], EnvCfg { fuel: Some(1_000_000), loader: true, ..Default::default() }),
    ]
}

// ----- generator

struct Gen {
    rng: Rng,
    html: bool,
    n_macros: usize,
    n_parts: usize,
    in_macro: bool,
    fresh: usize,
}

const TEXTS: [&str; 14] = [
    "plain text ", "<p>", "</p>\n", "a & b", "  ", "\n", "žlutý €", "x", "0123456789", "{ not a tag }", "'q'", "\"dq\"", "long-ish piece of literal template text, ", "/",
];
const EXPRS: [&str; 44] = [
    "name", "name|upper", "name|lower|title", "html", "html|safe", "html|escape", "items", "items|join(', ')",
    "items|length", "items|first", "items|last", "items|sum", "n", "n + 1", "n * 3", "n / 2", "1.5", "true", "none",
    "nested", "nested.a", "nested.b.c", "big|length", "big[:3]", "small", "uni", "'lit<>'", "42", "-7",
    "123456789012", "missing", "missing|default('dflt')", "name ~ '-' ~ n", "n > 3", "items|map('string')|join('/')",
    "range(4)|list", "'%s!'|format(name)", "obj", "name|tojson", "nested|tojson", "bigstr|length",
    "name|replace('o', '0')", "[name, html]", "{'k': html}",
];
const CONDS: [&str; 6] = ["flag", "not flag", "n > 3", "items", "empty", "missing is defined"];
const ITERS: [&str; 6] = ["items", "range(2)", "empty", "big[:4]", "nested.a", "items|reverse"];
const FILTERS: [&str; 6] = ["upper", "lower", "trim", "replace('a', 'A')", "title", "escape"];

impl Gen {
    fn var(&mut self, locals: &[String]) -> String {
        if !locals.is_empty() && self.rng.chance(1, 2) {
            self.rng.pick(locals).clone()
        } else {
            self.rng.pick(&EXPRS).to_string()
        }
    }

    fn body(&mut self, depth: usize, locals: &mut Vec<String>, allow_include: bool) -> String {
        let mut s = String::new();
        let n = 1 + self.rng.below(4);
        for _ in 0..n {
            s.push_str(&self.stmt(depth, locals, allow_include));
        }
        s
    }

    fn stmt(&mut self, depth: usize, locals: &mut Vec<String>, allow_include: bool) -> String {
        let choice = if depth == 0 { self.rng.below(4) } else { self.rng.below(16) };
        match choice {
            0 | 1 => self.rng.pick(&TEXTS).to_string(),
            2 | 3 | 4 => format!("{{{{ {} }}}}", self.var(locals)),
            5 => {
                let v = format!("v{}", self.fresh);
                self.fresh += 1;
                let it = *self.rng.pick(&ITERS);
                locals.push(v.clone());
                let mut body = self.body(depth - 1, locals, allow_include);
                if self.rng.chance(1, 4) {
                    body.push_str("{{ loop.index }}");
                }
                if self.rng.chance(1, 6) {
                    body.push_str(&format!("{{% if loop.index == 2 %}}{{% {} %}}{{% endif %}}", if self.rng.chance(1, 2) { "break" } else { "continue" }));
                }
                locals.pop();
                let els = if self.rng.chance(1, 3) { format!("{{% else %}}{}", self.body(depth - 1, locals, allow_include)) } else { String::new() };
                format!("{{% for {v} in {it} %}}{body}{els}{{% endfor %}}")
            }
            6 => {
                let c = *self.rng.pick(&CONDS);
                let a = self.body(depth - 1, locals, allow_include);
                let els = if self.rng.chance(1, 2) { format!("{{% else %}}{}", self.body(depth - 1, locals, allow_include)) } else { String::new() };
                format!("{{% if {c} %}}{a}{els}{{% endif %}}")
            }
            7 => {
                let v = format!("s{}", self.fresh);
                self.fresh += 1;
                let body = self.body(depth - 1, locals, allow_include);
                let filt = if self.rng.chance(1, 3) { format!(" | {}", self.rng.pick(&FILTERS)) } else { String::new() };
                let use_ = match self.rng.below(3) {
                    0 => format!("{{{{ {v} }}}}"),
                    1 => format!("{{{{ {v}|upper }}}}[{{{{ {v} }}}}]"),
                    _ => String::new(),
                };
                let r = format!("{{% set {v}{filt} %}}{body}{{% endset %}}{use_}");
                locals.push(v);
                r
            }
            8 => {
                let v = format!("e{}", self.fresh);
                self.fresh += 1;
                let e = self.var(locals);
                let r = format!("{{% set {v} = {e} %}}{{{{ {v} }}}}");
                locals.push(v);
                r
            }
            9 => {
                let f = *self.rng.pick(&FILTERS);
                let body = self.body(depth - 1, locals, allow_include);
                format!("{{% filter {f} %}}{body}{{% endfilter %}}")
            }
            10 if self.n_macros > 0 && !self.in_macro => {
                let i = self.rng.below(self.n_macros as u64);
                let a = self.var(locals);
                let b = self.var(locals);
                match self.rng.below(3) {
                    0 => format!("{{{{ m{i}({a}, {b}) }}}}"),
                    1 => format!("{{{{ m{i}({a})|upper }}}}"),
                    _ => {
                        let body = self.body(depth - 1, locals, false);
                        format!("{{% call w{i}() %}}{body}{{% endcall %}}")
                    }
                }
            }
            11 if allow_include && self.n_parts > 0 => {
                let i = self.rng.below(self.n_parts as u64);
                let ext = if i % 2 == 0 { "txt" } else { "html" };
                match self.rng.below(4) {
                    0 => format!("{{% include \"part{i}.{ext}\" ignore missing %}}"),
                    1 => format!("{{% include [\"nope.txt\", \"part{i}.{ext}\"] %}}"),
                    _ => format!("{{% include \"part{i}.{ext}\" %}}"),
                }
            }
            12 => {
                let on = *self.rng.pick(&["true", "false", "'html'", "'none'"]);
                let body = self.body(depth - 1, locals, allow_include);
                format!("{{% autoescape {on} %}}{body}{{% endautoescape %}}")
            }
            13 => {
                let v = format!("w{}", self.fresh);
                self.fresh += 1;
                let e = self.var(locals);
                locals.push(v.clone());
                let body = self.body(depth - 1, locals, allow_include);
                locals.pop();
                format!("{{% with {v} = {e} %}}{body}{{{{ {v} }}}}{{% endwith %}}")
            }
            14 => "{% raw %}{{ raw }}{% endraw %}".to_string(),
            _ => format!("{{{{ {} }}}}", self.var(locals)),
        }
    }

    fn macros(&mut self) -> String {
        let mut s = String::new();
        self.in_macro = true;
        for i in 0..self.n_macros {
            let mut locals = vec!["a".to_string(), "b".to_string()];
            let body = self.body(1, &mut locals, false);
            s.push_str(&format!("{{% macro m{i}(a, b='d') %}}{body}{{{{ a }}}}{{% endmacro %}}"));
            s.push_str(&format!("{{% macro w{i}() %}}[{{{{ caller() }}}}|{{{{ caller()|upper }}}}]{{% endmacro %}}"));
        }
        self.in_macro = false;
        s
    }
}

fn gen_program(seed: u64, index: u64) -> Prog {
    let rng = Rng::new(seed.wrapping_mul(1000003).wrapping_add(index));
    let mut g = Gen { rng, html: false, n_macros: 0, n_parts: 0, in_macro: false, fresh: 0 };
    g.html = g.rng.chance(1, 2);
    g.n_macros = g.rng.below(3) as usize;
    g.n_parts = g.rng.below(3) as usize;
    let ext = if g.html { "html" } else { "txt" };
    let mut templates = vec![];
    for i in 0..g.n_parts {
        let mut locals = vec![];
        let body = g.body(2, &mut locals, false);
        templates.push((format!("part{i}.{}", if i % 2 == 0 { "txt" } else { "html" }), body));
    }
    let macros = g.macros();
    let mut blocks = vec![];
    let main = format!("main.{ext}");
    if g.rng.chance(2, 5) {
        // inheritance: base (maybe via mid) <- main
        let nb = 1 + g.rng.below(3) as usize;
        let mut base = String::new();
        for i in 0..nb {
            let mut locals = vec![];
            base.push_str(&g.body(1, &mut locals, true));
            let inner = g.body(2, &mut locals, true);
            base.push_str(&format!("{{% block b{i} %}}{inner}{{% endblock %}}"));
            blocks.push(format!("b{i}"));
        }
        base.push_str(*g.rng.pick(&TEXTS));
        templates.push((format!("base.{ext}"), base));
        let mut parent = format!("base.{ext}");
        if g.rng.chance(1, 3) {
            let mut mid = format!("{{% extends \"base.{ext}\" %}}");
            let mut locals = vec![];
            let inner = g.body(2, &mut locals, true);
            mid.push_str(&format!("{{% block b0 %}}mid({{{{ super() }}}}){inner}{{% endblock %}}"));
            templates.push((format!("mid.{ext}"), mid));
            parent = format!("mid.{ext}");
        }
        let mut child = format!("{{% extends \"{parent}\" %}}{macros}");
        let mut locals = vec![];
        child.push_str(&g.body(1, &mut locals, false)); // discarded output
        for i in 0..nb {
            if g.rng.chance(2, 3) {
                let inner = g.body(2, &mut locals, true);
                let sup = match g.rng.below(4) {
                    0 => "{{ super() }}",
                    1 => "{{ super()|upper }}",
                    2 => "{% set sv = super() %}{{ sv }}",
                    _ => "",
                };
                if g.rng.chance(1, 2) {
                    child.push_str(&format!("{{% block b{i} %}}{sup}{inner}{{% endblock %}}"));
                } else {
                    child.push_str(&format!("{{% block b{i} %}}{inner}{sup}{{% endblock %}}"));
                }
            }
        }
        templates.push((main.clone(), child));
    } else {
        let mut locals = vec![];
        let mut src = macros;
        let n = 2 + g.rng.below(3);
        for i in 0..n {
            src.push_str(&g.body(3, &mut locals, true));
            if g.rng.chance(1, 4) {
                let inner = g.body(2, &mut locals, true);
                src.push_str(&format!("{{% block k{i} %}}{inner}{{% endblock %}}"));
                blocks.push(format!("k{i}"));
            }
        }
        templates.push((main.clone(), src));
    }
    // environment configuration: its own random stream, half of the programs keep the default
    let mut crng = Rng::new(seed.wrapping_mul(77003).wrapping_add(index) ^ 0xCF6);
    let cfg = if crng.chance(1, 2) {
        EnvCfg::default()
    } else {
        EnvCfg {
            fuel: if crng.chance(1, 5) { Some(1_000_000) } else if crng.chance(1, 10) { Some(30 + crng.below(300)) } else { None },
            undefined: *crng.pick(&[0u8, 0, 0, 1, 1, 2, 3]),
            loader: crng.chance(1, 4),
            debug_off: crng.chance(1, 4),
            auto_escape: *crng.pick(&[0u8, 0, 0, 1, 2, 3, 4]),
            trim_blocks: crng.chance(1, 5),
            keep_trailing_newline: crng.chance(1, 5),
        }
    };
    Prog { pid: format!("g{seed}_{index}"), templates, main, blocks, fn_blocks: vec![], psyn: None, api_psyn: vec![], cfg, user_writer: false }
}

// ----- structured family: programs generated as terms of the model's `Prog` layer and unparsed

#[derive(Clone, Debug)]
enum PS {
    Text(String),
    Set(usize, Vec<PS>),
    Use(usize, char),
    /// capture the body, emit x(value): `how` selects the template construct
    Filt(char, Vec<PS>, How),
    Include(usize, Vec<PS>),
    Loop(usize, Vec<PS>),
    /// `{{ super() }}` with the parent block's body
    Super(Vec<PS>),
    Discard(Vec<PS>),
    /// `{{ emit_block('<name>') }}`: a template function renders the block (whose content as
    /// rendered is the body) into an `Output` of its own and returns an empty string
    CallFn(String, Vec<PS>),
    Fail,
}

#[derive(Clone, Debug)]
enum How {
    FilterBlock,
    /// `{{ m<i>()|x }}`: the body is rendered on an `Output` of its own
    Macro(usize),
    SuperCaptured,
    /// `{% call wr() %}body{% endcall %}` with `{% macro wr() %}[{{ caller() }}]{% endmacro %}`:
    /// two nested `Output`s of their own
    CallBlock,
}

const STEXTS: [&str; 10] = ["alpha ", "Beta", "<x>", " - ", "MiXed Case", "0", "li\nne", "(", ")", "zz top "];

struct SGen {
    rng: Rng,
    next_var: usize,
    partials: Vec<Vec<PS>>,
    macros: Vec<Vec<PS>>,
    failed: bool,
    call_blocks: usize,
}

impl SGen {
    fn seq(&mut self, depth: usize, visible: &mut Vec<usize>, in_macro: bool, allow_fail: bool) -> Vec<PS> {
        let n = 1 + self.rng.below(4);
        let mut out: Vec<PS> = vec![];
        for _ in 0..n {
            let choice = if depth == 0 { self.rng.below(3) } else { self.rng.below(13) };
            let item = match choice {
                0 | 1 => PS::Text(self.rng.pick(&STEXTS).to_string()),
                2 | 3 if !visible.is_empty() => {
                    let v = *self.rng.pick(visible);
                    PS::Use(v, *self.rng.pick(&['i', 'i', 'u', 'l']))
                }
                4 | 5 if depth > 0 => {
                    let v = self.next_var;
                    self.next_var += 1;
                    let body = self.seq(depth - 1, &mut visible.clone(), in_macro, allow_fail);
                    visible.push(v);
                    PS::Set(v, body)
                }
                6 if depth > 0 => {
                    let body = self.seq(depth - 1, &mut visible.clone(), in_macro, allow_fail);
                    PS::Filt(*self.rng.pick(&['u', 'l']), body, How::FilterBlock)
                }
                7 if depth > 0 && !in_macro => {
                    let body = self.seq(depth - 1, &mut vec![], true, allow_fail);
                    self.macros.push(body.clone());
                    PS::Filt(*self.rng.pick(&['i', 'u', 'l']), body, How::Macro(self.macros.len() - 1))
                }
                8 if depth > 0 && !in_macro => {
                    let body = self.seq(depth - 1, &mut visible.clone(), true, allow_fail);
                    self.partials.push(body.clone());
                    PS::Include(self.partials.len() - 1, body)
                }
                9 if depth > 0 => {
                    let k = 1 + self.rng.below(3) as usize;
                    PS::Loop(k, self.seq(depth - 1, &mut visible.clone(), in_macro, allow_fail))
                }
                11 if depth > 0 && !in_macro => {
                    // the caller body is a closure: it sees the variables of its surroundings
                    let body = self.seq(depth - 1, &mut visible.clone(), true, allow_fail);
                    self.call_blocks += 1;
                    PS::Filt('i', body, How::CallBlock)
                }
                10 if allow_fail && !self.failed && self.rng.chance(1, 6) => {
                    self.failed = true;
                    PS::Fail
                }
                _ => PS::Text(self.rng.pick(&STEXTS).to_string()),
            };
            // contiguous template text is one EmitRaw
            if let (Some(PS::Text(prev)), PS::Text(t)) = (out.last_mut(), &item) {
                prev.push_str(t);
            } else {
                out.push(item);
            }
        }
        out
    }
}

fn unparse(items: &[PS], out: &mut String) {
    for it in items {
        match it {
            PS::Text(t) => out.push_str(t),
            PS::Set(v, body) => {
                out.push_str(&format!("{{% set v{v} %}}"));
                unparse(body, out);
                out.push_str("{% endset %}");
            }
            PS::Use(v, x) => out.push_str(&match x {
                'u' => format!("{{{{ v{v}|upper }}}}"),
                'l' => format!("{{{{ v{v}|lower }}}}"),
                _ => format!("{{{{ v{v} }}}}"),
            }),
            PS::Filt(x, body, how) => {
                let f = match x {
                    'u' => "|upper",
                    'l' => "|lower",
                    _ => "",
                };
                match how {
                    How::FilterBlock => {
                        out.push_str(&format!("{{% filter {} %}}", &f[1..]));
                        unparse(body, out);
                        out.push_str("{% endfilter %}");
                    }
                    How::Macro(i) => out.push_str(&format!("{{{{ m{i}(){f} }}}}")),
                    How::SuperCaptured => out.push_str(&format!("{{{{ super(){f} }}}}")),
                    How::CallBlock => {
                        out.push_str("{% call wr() %}");
                        unparse(body, out);
                        out.push_str("{% endcall %}");
                    }
                }
            }
            PS::Include(i, _) => out.push_str(&format!("{{% include \"inc{i}.txt\" %}}")),
            PS::Loop(k, body) => {
                out.push_str(&format!("{{% for _i in range({k}) %}}"));
                unparse(body, out);
                out.push_str("{% endfor %}");
            }
            PS::Super(_) => out.push_str("{{ super() }}"),
            PS::Discard(_) => unreachable!(),
            PS::CallFn(name, _) => out.push_str(&format!("{{{{ emit_block('{name}') }}}}")),
            PS::Fail => out.push_str("{{ items.foo.bar }}"),
        }
    }
}

fn wire(items: &[PS], toks: &mut Vec<String>) {
    for it in items {
        match it {
            PS::Text(t) => toks.push(format!("T{}", hex(t.as_bytes()))),
            PS::Set(v, body) => {
                toks.push(format!("S{v}("));
                wire(body, toks);
                toks.push(")".into());
            }
            PS::Use(v, x) => toks.push(format!("U{v}{x}")),
            PS::Filt(x, body, how) => match how {
                // an `Output` of its own: `M<x>(` body `)`
                How::Macro(_) => {
                    toks.push(format!("M{x}("));
                    wire(body, toks);
                    toks.push(")".into());
                }
                // the macro `wr` on its own `Output`: "[", the caller body on yet another one, "]"
                How::CallBlock => {
                    toks.push("Mi(".into());
                    toks.push(format!("T{}", hex(b"[")));
                    toks.push("Mi(".into());
                    wire(body, toks);
                    toks.push(")".into());
                    toks.push(format!("T{}", hex(b"]")));
                    toks.push(")".into());
                }
                How::SuperCaptured => {
                    toks.push(format!("F{x}("));
                    toks.push("N1(".into());
                    wire(body, toks);
                    toks.push(")".into());
                    toks.push(")".into());
                }
                How::FilterBlock => {
                    toks.push(format!("F{x}("));
                    wire(body, toks);
                    toks.push(")".into());
                }
            },
            PS::Include(_, body) => {
                toks.push("N0(".into());
                wire(body, toks);
                toks.push(")".into());
            }
            PS::Loop(k, body) => {
                toks.push(format!("L{k}("));
                wire(body, toks);
                toks.push(")".into());
            }
            PS::Super(body) => {
                toks.push("N1(".into());
                wire(body, toks);
                toks.push(")".into());
            }
            PS::Discard(body) => {
                toks.push("D(".into());
                wire(body, toks);
                toks.push(")".into());
            }
            PS::CallFn(_, body) => {
                toks.push("R(".into());
                wire(body, toks);
                toks.push(")".into());
            }
            PS::Fail => toks.push("X".into()),
        }
    }
}

fn gen_structured(seed: u64, index: u64) -> Prog {
    let rng = Rng::new(seed.wrapping_mul(7000003).wrapping_add(index) ^ 0x5EED);
    let mut g = SGen { rng, next_var: 0, partials: vec![], macros: vec![], failed: false, call_blocks: 0 };
    let mut templates: Vec<(String, String)> = vec![];
    let mut fn_blocks: Vec<String> = vec![];
    let mut api_psyn: Vec<(String, String)> = vec![];
    let executed: Vec<PS>;
    let mut main_src = String::new();
    if g.rng.chance(1, 3) {
        // base with blocks <- main.txt
        let nb = 1 + g.rng.below(3) as usize;
        let mut base_src = String::new();
        let mut base_items: Vec<(Vec<PS>, Vec<PS>)> = vec![]; // (text before, parent body)
        for i in 0..nb {
            let before = g.seq(1, &mut vec![], true, false);
            let parent = g.seq(2, &mut vec![], true, false);
            unparse(&before, &mut base_src);
            base_src.push_str(&format!("{{% block b{i} %}}"));
            unparse(&parent, &mut base_src);
            base_src.push_str("{% endblock %}");
            base_items.push((before, parent));
        }
        templates.push(("base.txt".into(), base_src));
        let top = g.seq(2, &mut vec![], false, false);
        let mut overrides: Vec<Option<Vec<PS>>> = vec![];
        let mut child_blocks = String::new();
        for (i, (_, parent)) in base_items.iter().enumerate() {
            if g.rng.chance(2, 3) {
                let mut body = g.seq(2, &mut vec![], false, true);
                match g.rng.below(3) {
                    0 => body.push(PS::Super(parent.clone())),
                    1 => body.insert(0, PS::Filt(*g.rng.pick(&['u', 'l']), parent.clone(), How::SuperCaptured)),
                    _ => {}
                }
                child_blocks.push_str(&format!("{{% block b{i} %}}"));
                unparse(&body, &mut child_blocks);
                child_blocks.push_str("{% endblock %}");
                overrides.push(Some(body));
            } else {
                overrides.push(None);
            }
        }
        main_src.push_str("{% extends \"base.txt\" %}");
        // every other such program ends its top-level code with a template function that renders
        // one of the blocks (as overridden) by itself
        let mut top = top;
        if g.rng.chance(1, 2) {
            let j = g.rng.below(nb as u64) as usize;
            let body = overrides[j].clone().unwrap_or_else(|| base_items[j].1.clone());
            let mut toks = vec![];
            wire(&body, &mut toks);
            fn_blocks.push(format!("b{j}"));
            api_psyn.push((format!("fn:b{j}"), if toks.is_empty() { "-".to_string() } else { toks.join(".") }));
            top.push(PS::CallFn(format!("b{j}"), body));
        }
        let mut top_src = String::new();
        unparse(&top, &mut top_src);
        let mut ex = vec![PS::Discard(top)];
        for ((before, parent), ov) in base_items.into_iter().zip(overrides) {
            ex.extend(before);
            ex.extend(ov.unwrap_or(parent));
        }
        executed = ex;
        // macros are declared before they are used (top-level code and blocks of the child)
        if g.call_blocks > 0 {
            main_src.push_str("{% macro wr() %}[{{ caller() }}]{% endmacro %}");
        }
        for (i, body) in g.macros.iter().enumerate() {
            main_src.push_str(&format!("{{% macro m{i}() %}}"));
            unparse(body, &mut main_src);
            main_src.push_str("{% endmacro %}");
        }
        main_src.push_str(&top_src);
        main_src.push_str(&child_blocks);
    } else {
        let body = g.seq(3, &mut vec![], false, true);
        if g.call_blocks > 0 {
            main_src.push_str("{% macro wr() %}[{{ caller() }}]{% endmacro %}");
        }
        for (i, mbody) in g.macros.iter().enumerate() {
            main_src.push_str(&format!("{{% macro m{i}() %}}"));
            unparse(mbody, &mut main_src);
            main_src.push_str("{% endmacro %}");
        }
        unparse(&body, &mut main_src);
        executed = body;
    }
    for (i, body) in g.partials.iter().enumerate() {
        let mut src = String::new();
        unparse(body, &mut src);
        templates.push((format!("inc{i}.txt"), src));
    }
    templates.push(("main.txt".into(), main_src));
    let mut toks = vec![];
    wire(&executed, &mut toks);
    let w = if toks.is_empty() { "-".to_string() } else { toks.join(".") };
    // a macro / caller body renders into an `Output` of its own (`Prog.own` of the model): nothing of
    // it is among the root's operations, and the flattening of the term says so
    let expect = "same";
    Prog { pid: format!("s{seed}_{index}"), templates, main: "main.txt".into(), blocks: vec![], fn_blocks, psyn: Some((w, expect)), api_psyn, cfg: EnvCfg::default(), user_writer: false }
}

// ------------------------------------------------------------------------------------------ running

thread_local! {
    static FN_PROBE: RefCell<Option<Probe>> = const { RefCell::new(None) };
    static FN_RESULT: RefCell<Option<(String, String, String)>> = const { RefCell::new(None) };
    static FN_REFERENCE: RefCell<Option<Result<String, Error>>> = const { RefCell::new(None) };
    static FN_LOG: RefCell<Vec<vh::Event>> = const { RefCell::new(Vec::new()) };
    /// 0: the function is not under test (it renders the block, output dropped); 1: it renders into
    /// FN_PROBE; 2: it does the plain string render of the block as reference
    static FN_MODE: std::cell::Cell<u8> = const { std::cell::Cell::new(0) };
}

/// template function: renders a block of the running template into the thread-local probe
fn emit_block(state: &mut State, name: String) -> Result<String, Error> {
    match FN_MODE.with(|m| m.get()) {
        1 => {
            let mut probe = FN_PROBE.with(|p| p.borrow_mut().take()).unwrap_or_default();
            vh::start();
            let rv = state.render_block_to_write(&name, &mut probe);
            FN_LOG.with(|l| *l.borrow_mut() = vh::stop());
            let obs = match &rv {
                Ok(()) => ("ok".to_string(), "-".to_string(), "na".to_string()),
                Err(e) => (describe(e), format!("{:?}", e.kind()), source_identity(e, &probe)),
            };
            FN_PROBE.with(|p| *p.borrow_mut() = Some(probe));
            FN_RESULT.with(|r| *r.borrow_mut() = Some(obs));
            rv.map(|_| String::new())
        }
        2 => {
            vh::start();
            let rv = state.render_block(&name);
            FN_LOG.with(|l| *l.borrow_mut() = vh::stop());
            FN_REFERENCE.with(|r| *r.borrow_mut() = Some(rv));
            Ok(String::new())
        }
        _ => state.render_block(&name).map(|_| String::new()),
    }
}

fn make_env(prog: &Prog, formatter: u8) -> Result<Environment<'static>, Error> {
    let mut env = Environment::new();
    let cfg = &prog.cfg;
    // settings first: templates are compiled (syntax, whitespace, initial auto-escape) when added
    env.add_function("emit_block", emit_block);
    match formatter {
        1 => env.set_formatter(|out, state, value| minijinja::escape_formatter(out, state, value)),
        2 => env.set_formatter(user_formatter),
        3 => env.set_formatter(careless_formatter),
        _ => {}
    }
    env.set_fuel(cfg.fuel);
    env.set_undefined_behavior(match cfg.undefined {
        1 => minijinja::UndefinedBehavior::Chainable,
        2 => minijinja::UndefinedBehavior::SemiStrict,
        3 => minijinja::UndefinedBehavior::Strict,
        _ => minijinja::UndefinedBehavior::Lenient,
    });
    if cfg.debug_off {
        env.set_debug(false);
    }
    match cfg.auto_escape {
        1 => env.set_auto_escape_callback(|_| minijinja::AutoEscape::Html),
        2 => env.set_auto_escape_callback(|_| minijinja::AutoEscape::None),
        3 => env.set_auto_escape_callback(|_| minijinja::AutoEscape::Json),
        4 => env.set_auto_escape_callback(|_| minijinja::AutoEscape::Custom("verif")),
        _ => {}
    }
    env.set_trim_blocks(cfg.trim_blocks);
    env.set_keep_trailing_newline(cfg.keep_trailing_newline);
    if cfg.loader {
        let map: std::collections::BTreeMap<String, String> = prog.templates.iter().cloned().collect();
        env.set_loader(move |name| Ok(map.get(name).cloned()));
    } else {
        for (name, src) in &prog.templates {
            env.add_template_owned(name.clone(), src.clone())?;
        }
    }
    Ok(env)
}

/// the opcodes of the compiled templates of a program (root instructions and blocks), `+`-joined
fn opcodes(env: &Environment<'static>, prog: &Prog) -> String {
    let mut set = std::collections::BTreeSet::new();
    for (name, _) in &prog.templates {
        let Ok(tmpl) = env.get_template(name) else { continue };
        let compiled = minijinja::machinery::get_compiled_template(&tmpl);
        for instrs in std::iter::once(&compiled.instructions).chain(compiled.blocks.values()) {
            let mut i = 0;
            while let Some(ins) = instrs.get(i) {
                if let Ok(v) = serde_json::to_value(ins) {
                    if let Some(op) = v.get("op").and_then(|o| o.as_str()) {
                        set.insert(op.to_string());
                    }
                }
                i += 1;
            }
        }
    }
    if set.is_empty() { "-".to_string() } else { set.into_iter().collect::<Vec<_>>().join("+") }
}

fn inj_id(msg: &str) -> u64 {
    match msg.rfind("inj-") {
        Some(i) => msg[i + 4..].chars().take_while(|c| c.is_ascii_digit()).collect::<String>().parse().unwrap_or(u64::MAX),
        None => 0,
    }
}

/// (id, form) of an io::Error, read off the error itself
fn token_of(io: &io::Error) -> (u64, &'static str) {
    if let Some(code) = io.raw_os_error() {
        return (code as u64, "r");
    }
    let Some(p) = io.get_ref() else { return (0, "k") };
    if let Some(c) = p.downcast_ref::<SinkErr>() {
        (c.id, "c")
    } else if let Some(m) = p.downcast_ref::<Error>() {
        let id = inj_id(m.detail().unwrap_or(""));
        let src = std::error::Error::source(m);
        let form = match (m.kind(), src) {
            (ErrorKind::WriteFailure, Some(s)) if s.is::<io::Error>() => "mx",
            (ErrorKind::InvalidOperation, Some(_)) => "mc",
            (ErrorKind::InvalidOperation, None) => "mi",
            (ErrorKind::UndefinedError, None) => "mu",
            (ErrorKind::WriteFailure, None) => "mw",
            (ErrorKind::TemplateNotFound, None) => "mt",
            _ => "m?",
        };
        (id, form)
    } else if let Some(i) = p.downcast_ref::<io::Error>() {
        (inj_id(&i.to_string()), "i")
    } else {
        (inj_id(&p.to_string()), "s")
    }
}

fn describe(e: &Error) -> String {
    if e.kind() == ErrorKind::WriteFailure {
        match std::error::Error::source(e).and_then(|s| s.downcast_ref::<io::Error>()) {
            Some(io) => {
                let (id, form) = token_of(io);
                format!("wf:{}:{}:{}", kind_name(io.kind()), id, form)
            }
            None => "wfnone".to_string(),
        }
    } else {
        "other".to_string()
    }
}

/// Is the `source()` of the returned error THE io::Error the sink returned at its first failing
/// call?  Same kind, same raw OS code, and the same payload object (by address: the payload lives
/// in a box of its own inside the io::Error and does not move when the error is moved).
fn source_identity(e: &Error, probe: &Probe) -> String {
    let Some(fail) = &probe.first_fail else { return "na".to_string() };
    if fail.starts_with("panic@") || fail.starts_with("badscript") {
        return "na".to_string();
    }
    if e.kind() != ErrorKind::WriteFailure {
        return format!("kind:{:?}", e.kind());
    }
    let Some(src) = std::error::Error::source(e) else { return "nosource".to_string() };
    let Some(io) = src.downcast_ref::<io::Error>() else { return "notio".to_string() };
    match &probe.issued {
        // `write_all`'s own error for `Ok(0)`: a constant of std without payload
        None => {
            if io.kind() == io::ErrorKind::WriteZero && io.get_ref().is_none() && io.raw_os_error().is_none() {
                "same".to_string()
            } else {
                "notwritezero".to_string()
            }
        }
        Some(iss) => {
            if io.kind() != iss.kind {
                "iokind".to_string()
            } else if io.raw_os_error() != iss.raw {
                "raw".to_string()
            } else if payload_addr(io) != iss.payload {
                "payload".to_string()
            } else {
                "same".to_string()
            }
        }
    }
}

fn target_code(t: &vh::Target) -> String {
    match t {
        vh::Target::Base => "s".to_string(),
        vh::Target::Capture(d) => format!("k{d}"),
        vh::Target::Discard(d) => format!("d{d}"),
    }
}

/// The operations on the root `Output` (the first one created after the log was started) as
/// tokens: `w<r>:<hex>[!]` write_str, `c<r>:<hex>[!]` write_char (`<r>` = `s` base writer, `k<d>`
/// capture buffer / `d<d>` discard at capture-stack depth d, `!` = returned Err), `b0`/`b1`
/// begin_capture(Capture/Discard), `e:<hex>`/`e-` end_capture → string/undefined, `n0`/`n1` an
/// include/super evaluation starts, `l` it returned Ok, and `m:<i>` / `m?` / `m-`: an `Emit` of
/// the i-th captured value (same shared buffer and content) / of another string / of a non-string.
fn op_tokens(log: &[vh::Event], full: bool) -> Vec<String> {
    let root = log.iter().find_map(|e| match e {
        vh::Event::New { out, .. } => Some(*out),
        _ => None,
    });
    let Some(root) = root else { return vec![] };
    let mut toks = vec![];
    let mut captures: Vec<(usize, Option<String>)> = vec![];
    for ev in log {
        match ev {
            vh::Event::WriteStr { out, target, data, ok } if *out == root => {
                toks.push(format!("w{}:{}{}", target_code(target), data_tok(data.as_bytes(), full), if *ok { "" } else { "!" }));
            }
            vh::Event::WriteChar { out, target, data, ok } if *out == root => {
                toks.push(format!("c{}:{}{}", target_code(target), data_tok(data.to_string().as_bytes(), full), if *ok { "" } else { "!" }));
            }
            vh::Event::BeginCapture { out, discard } if *out == root => toks.push(format!("b{}", *discard as u8)),
            vh::Event::EndCapture { out, value, ptr } if *out == root => {
                captures.push((*ptr, value.clone()));
                toks.push(match value {
                    Some(v) => format!("e:{}", data_tok(v.as_bytes(), full)),
                    None => "e-".to_string(),
                });
            }
            vh::Event::Emit { out, value, ptr, .. } if *out == root => {
                let idx = if *ptr != 0 { captures.iter().rposition(|(p, v)| p == ptr && v == value) } else { None };
                toks.push(match (idx, value) {
                    (Some(i), _) => format!("m:{i}"),
                    (None, Some(_)) => "m?".to_string(),
                    (None, None) => "m-".to_string(),
                });
            }
            vh::Event::Enter { out, kind } if *out == root => toks.push(if *kind == "include" { "n0".into() } else { "n1".into() }),
            vh::Event::Leave { out, ok, .. } if *out == root && *ok => toks.push("l".into()),
            _ => {}
        }
    }
    toks
}

/// `Ok(n)`: `run` is `clean` cut at a failing write (or all of it); n = operations without the `m` marks
fn log_prefix(clean: &[String], run: &[String], panicked: bool) -> Result<usize, usize> {
    // the `m` marks depend on buffer addresses; they are not operations
    let clean: Vec<&String> = clean.iter().filter(|t| !t.starts_with('m')).collect();
    let run: Vec<&String> = run.iter().filter(|t| !t.starts_with('m')).collect();
    for (i, t) in run.iter().enumerate() {
        let same = match clean.get(i) {
            Some(c) => c == t || (i + 1 == run.len() && t.strip_suffix('!') == Some(c.as_str())),
            None => false,
        };
        if !same {
            return Err(i);
        }
    }
    let failed = run.last().map(|t| t.ends_with('!')).unwrap_or(false);
    if panicked {
        // the write during which the sink panicked never returned: it is not in the log, it is
        // the next operation of the clean log and it goes to the base writer
        return match clean.get(run.len()) {
            Some(next) if !failed && (next.starts_with("ws:") || next.starts_with("cs:")) => Ok(run.len() + 1),
            _ => Err(run.len()),
        };
    }
    if !failed && run.len() != clean.len() {
        return Err(run.len());
    }
    Ok(run.len())
}

/// User code may go on after a failed write: then the log continues behind the first failed write,
/// but every later write to the base writer must fail too (the adapter is poisoned).  Returns the
/// log cut behind the first failed write, or the position of a write that succeeded after it.
fn cut_at_first_failure(run: &[String]) -> Result<Vec<String>, usize> {
    match run.iter().position(|t| t.ends_with('!')) {
        None => Ok(run.to_vec()),
        Some(i) => {
            for (j, t) in run.iter().enumerate().skip(i + 1) {
                if (t.starts_with("ws:") || t.starts_with("cs:")) && !t.ends_with('!') {
                    return Err(j);
                }
            }
            Ok(run[..=i].to_vec())
        }
    }
}

/// (used on templates that consist of one `{{ s }}`: all writes of the root output belong to it)
/// one line per `Emit` of the root output that ran to completion: the auto-escape mode, the
/// value's representation, default (`d`) or custom (`c`) formatter, the value's `Display` text,
/// its string content, and the pieces the engine wrote for it
/// the distinct representations of the values the root output's `Emit`s printed (`+`-joined, sorted)
fn emit_reprs(log: &[vh::Event]) -> String {
    let root = log.iter().find_map(|e| match e {
        vh::Event::New { out, .. } => Some(*out),
        _ => None,
    });
    let mut set = std::collections::BTreeSet::new();
    for ev in log {
        if let vh::Event::Emit { out, repr, .. } = ev {
            if Some(*out) == root {
                set.insert(*repr);
            }
        }
    }
    if set.is_empty() { "-".to_string() } else { set.into_iter().collect::<Vec<_>>().join("+") }
}

fn emit_lines(log: &[vh::Event]) -> Vec<String> {
    let root = log.iter().find_map(|e| match e {
        vh::Event::New { out, .. } => Some(*out),
        _ => None,
    });
    let Some(root) = root else { return vec![] };
    let mut lines = vec![];
    let mut cur: Option<(String, Vec<String>, bool)> = None;
    let hexo = |o: &Option<String>| match o {
        Some(t) => format!("={}", hex(t.as_bytes())),
        None => "-".to_string(),
    };
    let finish = |cur: &mut Option<(String, Vec<String>, bool)>, lines: &mut Vec<String>| {
        if let Some((head, pieces, ok)) = cur.take() {
            if ok {
                lines.push(format!("{head}\t{}", if pieces.is_empty() { "-".to_string() } else { pieces.join(",") }));
            }
        }
    };
    for ev in log {
        match ev {
            vh::Event::Emit { out, value, auto_escape, repr, text, default_formatter, .. } if *out == root => {
                finish(&mut cur, &mut lines);
                let ae = match auto_escape {
                    minijinja::AutoEscape::None => "none",
                    minijinja::AutoEscape::Html => "html",
                    minijinja::AutoEscape::Json => "json",
                    _ => "custom",
                };
                cur = Some((format!("{ae} {repr} {} {} {}", if *default_formatter { "d" } else { "c" }, hexo(text), hexo(value)), vec![], true));
            }
            vh::Event::WriteStr { out, data, ok, .. } if *out == root => {
                if let Some(c) = cur.as_mut() {
                    c.1.push(format!("w:{}", hex(data.as_bytes())));
                    c.2 &= *ok;
                }
            }
            vh::Event::WriteChar { out, data, ok, .. } if *out == root => {
                if let Some(c) = cur.as_mut() {
                    c.1.push(format!("c:{}", hex(data.to_string().as_bytes())));
                    c.2 &= *ok;
                }
            }
            vh::Event::New { .. } => {}
            // writes on other outputs (macros, filters) happen while the value is computed, not while it is emitted
            vh::Event::WriteStr { .. } | vh::Event::WriteChar { .. } => {}
            _ => finish(&mut cur, &mut lines),
        }
    }
    finish(&mut cur, &mut lines);
    lines
}

struct Obs {
    probe: Probe,
    res: String,
    kind: String,
    outer: String,
    /// identity of the returned error's source / of the outer render's error's source (see `source_identity`)
    src: String,
    osrc: String,
    ops: Vec<String>,
    /// what the harness's user code did (see `UFLAGS`)
    uflags: u8,
    /// representations of the emitted values (see `emit_reprs`)
    reprs: String,
}

/// run one API of one program against a scripted probe
fn run_api(env: &Environment<'static>, prog: &Prog, api: &str, script: Vec<Beh>, keep_chunks: bool, flush_err: bool) -> Obs {
    let mut probe = Probe::new(script, keep_chunks);
    probe.flush_err = flush_err;
    let mut outer = "-".to_string();
    let mut osrc = "na".to_string();
    UCOUNT.with(|c| c.set(0));
    UFLAGS.with(|f| f.set(0));
    let result: Result<Result<(), Error>, String> = if is_full(api) {
        guarded(|| {
            let tmpl = env.get_template(&prog.main)?;
            vh::start();
            tmpl.render_captured_to(ctx(), &mut probe).map(|_| ())
        })
    } else if let Some(block) = block_of(api) {
        guarded(|| {
            let tmpl = env.get_template(&prog.main)?;
            let mut captured = tmpl.render_captured(ctx())?;
            UCOUNT.with(|c| c.set(0));
            UFLAGS.with(|f| f.set(0));
            captured.with_state_mut(|state| {
                vh::start();
                state.render_block_to_write(block, &mut probe)
            })
        })
    } else if api.starts_with("fn:") {
        FN_PROBE.with(|p| *p.borrow_mut() = Some(std::mem::take(&mut probe)));
        FN_RESULT.with(|r| *r.borrow_mut() = None);
        FN_LOG.with(|l| l.borrow_mut().clear());
        FN_MODE.with(|m| m.set(1));
        let out = guarded(|| {
            let tmpl = env.get_template(&prog.main)?;
            tmpl.render(ctx())
        });
        FN_MODE.with(|m| m.set(0));
        probe = FN_PROBE.with(|p| p.borrow_mut().take()).unwrap_or_default();
        let inner = FN_RESULT.with(|r| r.borrow_mut().take());
        match out {
            Err(p) => Err(p),
            Ok(o) => {
                outer = match &o {
                    Ok(_) => "ok".to_string(),
                    Err(e) => describe(e),
                };
                if let Err(e) = &o {
                    osrc = source_identity(e, &probe);
                }
                match inner {
                    Some((res, kind, src)) => {
                        let log = FN_LOG.with(|l| std::mem::take(&mut *l.borrow_mut()));
                        return Obs { probe, res, kind, outer, src, osrc, ops: op_tokens(&log, keep_chunks), uflags: UFLAGS.with(|f| f.get()), reprs: emit_reprs(&log) };
                    }
                    None => Ok(o.map(|_| ())),
                }
            }
        }
    } else {
        Err("bad api".to_string())
    };
    let (res, kind, src) = match &result {
        Err(_) => ("panic".to_string(), "-".to_string(), "na".to_string()),
        Ok(Ok(())) => ("ok".to_string(), "-".to_string(), "na".to_string()),
        Ok(Err(e)) => (describe(e), format!("{:?}", e.kind()), source_identity(e, &probe)),
    };
    let log = if api.starts_with("fn:") { FN_LOG.with(|l| std::mem::take(&mut *l.borrow_mut())) } else { vh::stop() };
    Obs { probe, res, kind, outer, src, osrc, ops: op_tokens(&log, keep_chunks), uflags: UFLAGS.with(|f| f.get()), reprs: emit_reprs(&log) }
}

/// the string the plain render of the same API returns (None: it fails) and its operation log
fn reference(env: &Environment<'static>, prog: &Prog, api: &str) -> (Option<String>, Vec<String>, bool) {
    let mut fn_mode = false;
    UCOUNT.with(|c| c.set(0));
    let r: Result<Result<String, Error>, String> = if is_full(api) {
        guarded(|| {
            let tmpl = env.get_template(&prog.main)?;
            vh::start();
            tmpl.render(ctx())
        })
    } else if let Some(block) = block_of(api) {
        guarded(|| {
            let tmpl = env.get_template(&prog.main)?;
            let mut captured = tmpl.render_captured(ctx())?;
            UCOUNT.with(|c| c.set(0));
            captured.with_state_mut(|state| {
                vh::start();
                state.render_block(block)
            })
        })
    } else {
        fn_mode = true;
        FN_PROBE.with(|p| *p.borrow_mut() = None);
        FN_REFERENCE.with(|r| *r.borrow_mut() = None);
        FN_LOG.with(|l| l.borrow_mut().clear());
        FN_MODE.with(|m| m.set(2));
        let _ = guarded(|| env.get_template(&prog.main)?.render(ctx()));
        FN_MODE.with(|m| m.set(0));
        match FN_REFERENCE.with(|r| r.borrow_mut().take()) {
            Some(r) => Ok(r),
            None => Err("function not called".to_string()),
        }
    };
    let log = if fn_mode { FN_LOG.with(|l| std::mem::take(&mut *l.borrow_mut())) } else { vh::stop() };
    let ops = op_tokens(&log, true);
    match r {
        Ok(Ok(s)) => (Some(s), ops, false),
        Ok(Err(_)) => (None, ops, false),
        Err(_) => (None, ops, !fn_mode),
    }
}

/// `Environment::render_str` / `render_named_str` against `Template::render` (single-template programs)
fn string_apis(env: &Environment<'static>, prog: &Prog, api: &str, refstr: &Option<String>) -> &'static str {
    if prog.templates.len() != 1 || !(api == "full" || api == "fmt") {
        return "na";
    }
    let src = &prog.templates[0].1;
    // `render_str` names the template "<string>": no auto escaping, like a .txt template
    let a = if prog.main.ends_with(".txt") || prog.cfg.auto_escape != 0 { guarded(|| env.render_str(src, ctx())).ok().and_then(|r| r.ok()) } else { refstr.clone() };
    let b = guarded(|| env.render_named_str(&prog.main, src, ctx())).ok().and_then(|r| r.ok());
    if &a == refstr && &b == refstr { "same" } else { "differ" }
}

fn model_fields(o: &Obs, clean_ops: &[String]) -> String {
    format!(
        "calls={} acc={} sum={} dig={} res={} ops={}",
        o.probe.calls.len(),
        o.probe.accepted.len(),
        sum_bytes(&o.probe.accepted),
        digest(&o.probe.calls),
        o.res,
        match cut_at_first_failure(&o.ops) {
            _ if !HOOKED => "na".to_string(),
            Err(j) => format!("MISMATCH:write-succeeded-after-failure@{j}"),
            Ok(cut) => match log_prefix(clean_ops, &cut, o.probe.first_fail.as_deref().map(|f| f.starts_with("panic@")).unwrap_or(false)) {
                Ok(n) => n.to_string(),
                Err(i) => format!("MISMATCH@{i}"),
            },
        }
    )
}

fn ops_field(ops: &[String]) -> String {
    if ops.is_empty() { "-".to_string() } else { ops.join(",") }
}

/// strip the `ok` marks so that logs of different base writers can be compared
fn plain_tokens(ops: &[String]) -> Vec<&str> {
    ops.iter().filter(|t| !t.starts_with('m')).map(|t| t.strip_suffix('!').unwrap_or(t)).collect()
}

/// "Rendering stops": what the operation log holds behind the first failed write.  `1`: nothing
/// (the engine did nothing more on this output); with user code of the harness that went on after
/// a failed write (`uflags` bit 0) further writes are its doing, and if it reported success (bit 1)
/// the engine cannot know and goes on until its next write.  `0`: the engine itself went on.
fn stop_field(o: &Obs) -> &'static str {
    if !HOOKED {
        return "na";
    }
    let Some(i) = o.ops.iter().position(|t| t.ends_with('!')) else { return "1" };
    let rest = &o.ops[i + 1..];
    let ok = if o.uflags & 2 != 0 {
        true
    } else if o.uflags & 1 != 0 {
        rest.iter().all(|t| t.starts_with('w') || t.starts_with('c'))
    } else {
        rest.is_empty()
    };
    if ok { "1" } else { "0" }
}

fn oracle_fields(o: &Obs, reference: &[u8]) -> String {
    format!(
        "kind={} prefix={} full={} after={} fail={} flush={} outer={} src={} osrc={} stop={} uf={}",
        o.kind,
        reference.starts_with(&o.probe.accepted) as u8,
        (reference == &o.probe.accepted[..]) as u8,
        o.probe.after_fail,
        o.probe.first_fail.clone().unwrap_or_else(|| "none".to_string()),
        o.probe.flushes,
        o.outer,
        o.src,
        o.osrc,
        stop_field(o),
        o.uflags
    )
}

fn script_prefix(k: usize) -> String {
    if k == 0 { String::new() } else { format!("A*{k},") }
}

/// an error token: the kind as asked for, unless the form fixes kind and id by itself
fn err_tok(kind: &str, id: usize, form: &str) -> String {
    match form {
        "s" => format!("E{kind}.{id}"),
        // a bare kind carries no identity
        "k" => format!("E{kind}.0.k"),
        // a raw OS error decides its kind: EPIPE, EAGAIN, EINTR, ETIMEDOUT
        "r" => match kind {
            "bp" => "Ebp.32.r".to_string(),
            "wb" => "Ewb.11.r".to_string(),
            "in" => "Ein.4.r".to_string(),
            _ => "Eto.110.r".to_string(),
        },
        f => format!("E{kind}.{id}.{f}"),
    }
}

fn scripts_for(w: usize, total: usize, rng: &mut Rng, tier: &str, with_panic: bool, all_forms: bool) -> Vec<String> {
    let mut out = vec![];
    let cap = if tier == "thorough" { 160 } else { 36 };
    let mut positions: Vec<usize> = if w <= cap {
        (0..w).collect()
    } else {
        let mut v: Vec<usize> = (0..16).chain(w - 8..w).collect();
        for _ in 0..(cap - 24) {
            v.push(16 + rng.below((w - 24) as u64) as usize);
        }
        v.sort();
        v.dedup();
        v
    };
    positions.dedup();
    // which construction of the io::Error meets which write call differs from program to program
    let salt = rng.below(FORMS.len() as u64) as usize;
    for (pi, &k) in positions.iter().enumerate() {
        let pre = script_prefix(k);
        let id = 100 + k;
        // every kind at every position, the construction of the error rotating through all forms
        for (j, e) in ["bp", "ot", "wb"].iter().enumerate() {
            out.push(format!("{pre}{}", err_tok(e, id, FORMS[(salt + 3 * pi + j) % FORMS.len()])));
        }
        // an error that carries an engine error (it "looks like" an error of the render) at every position
        out.push(format!("{pre}{}", err_tok(["ot", "bp", "wb", "to"][(salt + pi) % 4], id, ENGINE_FORMS[(salt + pi) % ENGINE_FORMS.len()])));
        if all_forms && w <= 16 {
            for (j, f) in FORMS.iter().enumerate() {
                out.push(format!("{pre}{}", err_tok(["ot", "bp", "wb", "to"][(pi + j) % 4], id + 50000, f)));
            }
        }
        // Interrupted is retried whatever the error is made of
        out.push(format!("{pre}{}", err_tok("in", id, FORMS[(salt + pi + 5) % FORMS.len()])));
        out.push(format!("{pre}S1"));
        out.push(format!("{pre}H"));
        out.push(format!("{pre}S0"));
        if with_panic {
            out.push(format!("{pre}P"));
        }
        // the sink keeps failing / fails and works alternately: only the first failure counts
        if k % 2 == 0 {
            out.push(format!("{pre}{}*40", err_tok("wb", id, FORMS[(salt + pi + 7) % FORMS.len()])));
        } else {
            out.push(format!("{pre}{},A,Ebp.{},A,S0,A*3,Ewb.{}", err_tok("ot", id, FORMS[(salt + pi + 2) % FORMS.len()]), id + 10000, id + 20000));
        }
    }
    // the engine does not flush: a sink that fails only in `flush` never fails
    out.push("F".to_string());
    if w > 1 {
        out.push(format!("F,{}S1", script_prefix(w / 2)));
    }
    // a failure scheduled after the last call must not matter
    out.push(format!("{}Ebp.77", script_prefix(w)));
    out.push("Eto.5".to_string());
    out.push(format!("S1*{}", total.min(400)));
    out.push(format!("H*{}", (4 * w).min(400)));
    out.push(format!("Ein.1*3,S2*{}", total.min(200)));
    // mixed scripts: benign behaviours, then a hard failure somewhere
    let n_mixed = if tier == "thorough" { 12 } else { 5 };
    for j in 0..n_mixed {
        let len = rng.below(2 * w as u64 + 2) as usize;
        let mut toks = vec![];
        for _ in 0..len {
            toks.push(match rng.below(6) {
                0 | 1 => "A".to_string(),
                2 => "S1".to_string(),
                3 => "S3".to_string(),
                4 => "H".to_string(),
                _ => err_tok("in", 900 + j, *rng.pick(&FORMS)),
            });
        }
        toks.push(match rng.below(4) {
            0 => err_tok("bp", 500 + j, *rng.pick(&FORMS)),
            1 => err_tok("ot", 500 + j, *rng.pick(&FORMS)),
            2 => err_tok("wb", 500 + j, *rng.pick(&FORMS)),
            _ => "S0".to_string(),
        });
        // a second failure behind the first must never be reached
        toks.push(format!("Eot.{}", 700 + j));
        out.push(toks.join(","));
    }
    out
}

/// the term of the model's structured layer that this API of the program evaluates (`-`: none)
fn psyn_of<'a>(prog: &'a Prog, api: &str) -> &'a str {
    if let Some((_, w)) = prog.api_psyn.iter().find(|(a, _)| a == api) {
        return w.as_str();
    }
    if api.starts_with("fn:") || api.contains("block:") {
        return "-";
    }
    prog.psyn.as_ref().map(|p| p.0.as_str()).unwrap_or("-")
}

fn apis_of(prog: &Prog) -> Vec<String> {
    let mut v = vec!["full".to_string(), "fmt".to_string()];
    if prog.user_writer {
        v.push("ufmt".to_string());
        if prog.pid.starts_with('f') {
            v.push("cfmt".to_string());
        }
    }
    for b in &prog.blocks {
        v.push(format!("block:{b}"));
        if prog.user_writer {
            v.push(format!("ublock:{b}"));
            if prog.pid.starts_with('f') {
                v.push(format!("cblock:{b}"));
            }
        }
    }
    for b in &prog.fn_blocks {
        v.push(format!("fn:{b}"));
    }
    v
}

fn run_program(prog: &Prog, tier: &str, seed: u64, out: &mut impl io::Write, emits: &mut std::collections::BTreeSet<String>, mine: &mut dyn FnMut() -> bool) {
    for api in apis_of(prog) {
        // (shards are made of (program, API) pairs)
        if !mine() {
            continue;
        }
        // the random scripts of a program depend on the seed and the program only (subset runs line up)
        let h = format!("{} {}", prog.pid, api).bytes().fold(0xcbf29ce484222325u64, |h, b| (h ^ b as u64).wrapping_mul(0x100000001b3));
        let rng = &mut Rng::new(seed ^ h);
        let env = match make_env(prog, fmt_mode(&api)) {
            Ok(env) => env,
            Err(e) => {
                writeln!(out, "skip\t{} {}\tcompile:{:?}", prog.pid, api, e.kind()).unwrap();
                continue;
            }
        };
        let clean = run_api(&env, prog, &api, vec![], true, false);
        let _ = &emits;
        let (refstr, plain_ops, plain_panic) = reference(&env, prog, &api);
        // `wfnone`: user formatting code failed by itself (WriteFailure without an io::Error)
        let clean_tag = match clean.res.as_str() {
            "ok" => "ok",
            "wfnone" => "wfnone",
            "panic" => "panic",
            _ => "err",
        };
        // reference bytes: the plain render's string; if the plain render fails, what the clean run delivered
        let refbytes: Vec<u8> = match &refstr {
            Some(s) => s.as_bytes().to_vec(),
            None => clean.probe.accepted.clone(),
        };
        let same = match &refstr {
            Some(s) => (clean.res == "ok" && s.as_bytes() == &clean.probe.accepted[..]) as u8,
            None => (clean.res != "ok" && (clean.res == "panic") == plain_panic) as u8,
        };
        let w = clean.probe.calls.len();
        // the sink calls of a clean run are exactly the non-empty writes routed to the base writer
        let base_chunks: Vec<Vec<u8>> = clean
            .ops
            .iter()
            .filter(|t| t.starts_with("ws:") || t.starts_with("cs:"))
            .map(|t| unhex(&t[3..]))
            .filter(|c| !c.is_empty())
            .collect();
        let n_writes = clean.ops.iter().filter(|t| t.starts_with('w') || t.starts_with('c')).count();
        let n_ends = clean.ops.iter().filter(|t| t.starts_with('e')).count();
        let n_capemit = clean.ops.iter().filter(|t| t.starts_with("m:")).count();
        writeln!(
            out,
            "prog\t{} {} {} {} {}\tw={} bytes={} sum={} route=ok:{}:{} same={} res={} plain={} plainops={} sinkcalls={} strapis={} flat={} capemit={} cfg={} reprs={} ins={}",
            prog.pid,
            api,
            clean_tag,
            ops_field(&clean.ops),
            psyn_of(prog, &api),
            w,
            clean.probe.accepted.len(),
            sum_bytes(&clean.probe.accepted),
            n_writes,
            n_ends,
            same,
            clean.res,
            if refstr.is_some() { "ok" } else if plain_panic { "panic" } else { "err" },
            if !HOOKED { "na" } else if plain_tokens(&plain_ops) == plain_tokens(&clean.ops) { "same" } else { "differ" },
            if !HOOKED { "na" } else if base_chunks == clean.probe.chunks { "same" } else { "differ" },
            string_apis(&env, prog, &api, &refstr),
            if psyn_of(prog, &api) == "-" { "na" } else { prog.psyn.as_ref().map(|p| p.1).unwrap_or("na") },
            n_capemit,
            prog.cfg.tag(),
            if HOOKED { clean.reprs.as_str() } else { "na" },
            opcodes(&env, prog),
        )
        .unwrap();
        // a panicking sink: not through the template function (its probe lives in a thread-local)
        // the logs of the failing runs are only compared with the clean one: compact tokens
        let clean_cmp: Vec<String> = clean.ops.iter().map(|t| compact_tok(t)).collect();
        for script in scripts_for(w, clean.probe.accepted.len(), rng, tier, !api.starts_with("fn:"), prog.pid.starts_with('f')) {
            let o = run_api(&env, prog, &api, parse_script(&script).expect("script"), false, flush_fails(&script));
            writeln!(out, "case\t{} {} {}\t{}\t{}", prog.pid, api, script, model_fields(&o, &clean_cmp), oracle_fields(&o, &refbytes)).unwrap();
        }
    }
}

/// every string over a small alphabet (ordinary, escaped, multi-byte) up to length 5, printed under
/// html, no and json auto-escaping: the pieces the engine writes for each (`emit` lines)
fn run_strings(emits: &mut std::collections::BTreeSet<String>) {
    let mut env = Environment::new();
    for ext in ["html", "txt", "json"] {
        env.add_template_owned(format!("x.{ext}"), "{{ s }}".to_string()).unwrap();
    }
    let alphabet = ['a', '<', '&', 'é', '\''];
    let mut strings: Vec<String> = vec![String::new(), "/".into(), "\"".into(), ">".into(), "12".into(), "-7".into(), "a/b>c\"".into()];
    let mut layer: Vec<String> = vec![String::new()];
    for _ in 0..5 {
        let mut next = vec![];
        for s in &layer {
            for c in alphabet {
                let mut t = s.clone();
                t.push(c);
                next.push(t);
            }
        }
        strings.extend(next.iter().cloned());
        layer = next;
    }
    // longer than the inline small-string capacity: metacharacters at the start, the end, in the middle
    let shorts: Vec<String> = strings.iter().filter(|s| s.chars().count() <= 2).cloned().collect();
    for s in &shorts {
        strings.push(format!("{}{s}", "x".repeat(25)));
        strings.push(format!("{s}{}", "y".repeat(25)));
        strings.push(format!("{}{s}{}{s}", "x".repeat(13), "é".repeat(7)));
    }
    for s in &strings {
        for ext in ["html", "txt", "json"] {
            if ext == "json" && s.chars().count() > 3 {
                continue;
            }
            for safe in [false, true] {
                if safe && s.chars().count() > 2 {
                    continue;
                }
                let v = if safe { Value::from_safe_string(s.clone()) } else { Value::from(s.clone()) };
                let tmpl = env.get_template(&format!("x.{ext}")).unwrap();
                vh::start();
                let _ = tmpl.render(context! { s => v });
                emits.extend(emit_lines(&vh::stop()));
            }
        }
    }
}

/// every value of the context printed alone under no, html and json auto-escaping, with the default
/// and with a custom formatter (`emit` lines)
fn run_values(emits: &mut std::collections::BTreeSet<String>) {
    let mut keys: Vec<String> = base_ctx().keys().cloned().collect();
    keys.push("oneshot".into());
    keys.push("missing".into());
    for formatter in [false, true] {
        let mut env = Environment::new();
        if formatter {
            env.set_formatter(|out, state, value| minijinja::escape_formatter(out, state, value));
        }
        for key in &keys {
            for ext in ["html", "txt", "json"] {
                if key.starts_with("huge") && ext == "json" {
                    continue;
                }
                let name = format!("{key}.{ext}");
                env.add_template_owned(name.clone(), format!("{{{{ {key} }}}}")).unwrap();
                let tmpl = env.get_template(&name).unwrap();
                vh::start();
                let _ = guarded(|| tmpl.render(ctx()));
                emits.extend(emit_lines(&vh::stop()));
            }
        }
    }
}

const NULL_EXPRS: [&str; 8] = [
    "name|upper", "items|join(',')", "[name, html]|string", "'%s'|format(obj)", "mac('x')", "nested|tojson", "(name ~ html)|escape", "items|map('string')|list|string",
];

/// `Expression::eval` evaluates on `Output::null()`: whatever is written during the evaluation
/// (macros called from the expression render into their own buffer) never reaches a writer
fn run_null(out: &mut impl io::Write) {
    let mut env = Environment::new();
    env.add_template_owned("mac.txt".to_string(), "{% macro mac(a) %}<{{ a }}>{% endmacro %}".to_string()).unwrap();
    let tmpl = env.get_template("mac.txt").unwrap();
    let captured = tmpl.render_captured(ctx()).unwrap();
    let mac = captured.state().lookup("mac").unwrap_or_default();
    for (i, e) in NULL_EXPRS.iter().enumerate() {
        let mac = mac.clone();
        vh::start();
        let r = guarded(|| {
            let expr = env.compile_expression(e)?;
            expr.eval(context! { mac => mac, ..ctx() })
        });
        let log = vh::stop();
        let root = log.iter().find_map(|ev| match ev {
            vh::Event::New { out, null } => Some((*out, *null)),
            _ => None,
        });
        let (mut writes, mut nondiscard, mut other_outputs) = (0, 0, 0);
        for ev in &log {
            match ev {
                vh::Event::WriteStr { out: o, target, .. } | vh::Event::WriteChar { out: o, target, .. } => {
                    if Some(*o) == root.map(|r| r.0) {
                        writes += 1;
                        if !matches!(target, vh::Target::Discard(_)) {
                            nondiscard += 1;
                        }
                    } else {
                        other_outputs += 1;
                    }
                }
                _ => {}
            }
        }
        writeln!(
            out,
            "null\texpr{i}\tnew_null={} writes={} nondiscard={} elsewhere={} res={}",
            root.map(|r| r.1 as u8).unwrap_or(2),
            writes,
            nondiscard,
            other_outputs,
            match &r {
                Ok(Ok(_)) => "ok",
                Ok(Err(_)) => "err",
                Err(_) => "panic",
            }
        )
        .unwrap();
    }
}

fn find_program(pid: &str) -> Option<Prog> {
    if let Some(r) = pid.strip_prefix('g') {
        let (seed, index) = r.split_once('_')?;
        Some(gen_program(seed.parse().ok()?, index.parse().ok()?))
    } else if let Some(r) = pid.strip_prefix('s') {
        let (seed, index) = r.split_once('_')?;
        Some(gen_structured(seed.parse().ok()?, index.parse().ok()?))
    } else {
        fixed_programs().into_iter().find(|p| p.pid == pid)
    }
}

fn main() {
    quiet_panics();
    let args: Vec<String> = std::env::args().collect();
    let stdout = io::stdout();
    let mut out = io::BufWriter::new(stdout.lock());
    use io::Write;
    match args.get(1).map(|s| s.as_str()) {
        Some("gen") => {
            let tier = args.get(2).map(|s| s.as_str()).unwrap_or("quick").to_string();
            set_tier(&tier);
            let seed = seed_from_env();
            // `sub`: every fixed program and a third of the generated ones (the unhooked build);
            // `shard=i/n`: only the programs whose running number is i modulo n (the check runs the
            // shards in parallel; no emit stream); `emits`: only the null/emit streams
            let flags: Vec<&str> = args.iter().skip(3).map(|s| s.as_str()).collect();
            let sub = flags.contains(&"sub");
            let emits_only = flags.contains(&"emits");
            let shard: Option<(usize, usize)> = flags.iter().find_map(|f| {
                let (i, n) = f.strip_prefix("shard=")?.split_once('/')?;
                Some((i.parse().ok()?, n.parse().ok()?))
            });
            let mut emits = std::collections::BTreeSet::new();
            let mut counter = 0usize;
            let mut mine = || {
                let c = counter;
                counter += 1;
                !emits_only && shard.map(|(i, n)| c % n == i).unwrap_or(true)
            };
            for prog in fixed_programs() {
                run_program(&prog, &tier, seed, &mut out, &mut emits, &mut mine);
            }
            let n = if tier == "thorough" { 1500 } else { 180 } / if sub { 3 } else { 1 };
            for i in 0..n {
                let mut prog = gen_program(seed, i);
                // the third of the generated programs that the unhooked build runs too
                prog.user_writer = i < (if tier == "thorough" { 1500 } else { 180 }) / 3;
                run_program(&prog, &tier, seed, &mut out, &mut emits, &mut mine);
            }
            let n = if tier == "thorough" { 1500 } else { 150 } / if sub { 3 } else { 1 };
            for i in 0..n {
                let prog = gen_structured(seed, i);
                run_program(&prog, &tier, seed, &mut out, &mut emits, &mut mine);
            }
            if HOOKED && (emits_only || shard.is_none()) {
                run_null(&mut out);
                run_strings(&mut emits);
                run_values(&mut emits);
            }
            for (i, e) in emits.iter().enumerate() {
                writeln!(out, "emit\te{i} {e}").unwrap();
            }
        }
        Some("one") => {
            let (pid, api, script) = (&args[2], &args[3], &args[4]);
            // (replay: `./check C19 --tier <tier> --replay <file>` passes the tier in the environment)
            set_tier(&std::env::var("VERIF_TIER").unwrap_or_default());
            let prog = find_program(pid).expect("unknown program id");
            for (name, src) in &prog.templates {
                writeln!(out, "# template {name}: {src:?}").unwrap();
            }
            let env = make_env(&prog, fmt_mode(api)).expect("compile");
            let clean = run_api(&env, &prog, api, vec![], true, false);
            let (refstr, _, _) = reference(&env, &prog, api);
            writeln!(out, "# plain render: {:?}", refstr).unwrap();
            let refbytes: Vec<u8> = match &refstr {
                Some(s) => s.as_bytes().to_vec(),
                None => clean.probe.accepted.clone(),
            };
            let clean_tag = match clean.res.as_str() {
                "ok" => "ok",
                "wfnone" => "wfnone",
                "panic" => "panic",
                _ => "err",
            };
            writeln!(
                out,
                "prog\t{} {} {} {} {}\tw={} res={}",
                prog.pid,
                api,
                clean_tag,
                ops_field(&clean.ops),
                psyn_of(&prog, api),
                clean.probe.calls.len(),
                clean.res
            )
            .unwrap();
            let o = run_api(&env, &prog, api, parse_script(script).expect("script"), true, flush_fails(script));
            writeln!(out, "# operations of this run: {}", ops_field(&o.ops)).unwrap();
            for (i, ((off, res), chunk)) in o.probe.calls.iter().zip(o.probe.chunks.iter()).enumerate() {
                writeln!(out, "# call {i}: offered {off} {:?} -> {res:?}", String::from_utf8_lossy(chunk)).unwrap();
            }
            writeln!(out, "# delivered: {:?}", String::from_utf8_lossy(&o.probe.accepted)).unwrap();
            writeln!(out, "case\t{} {} {}\t{}\t{}", prog.pid, api, script, model_fields(&o, &clean.ops), oracle_fields(&o, &refbytes)).unwrap();
        }
        _ => {
            eprintln!("usage: c19 gen <quick|thorough> | c19 one <pid> <api> <script>");
            std::process::exit(2);
        }
    }
}
