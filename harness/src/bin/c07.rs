//! C07 harness: Value order / equality / hash laws and the collection filters built on them.
//!
//! Streams printed by `gen <tier>` (one `case<TAB>result` line each):
//!
//!   val <i> <enc>          kind + same-instance reflexivity (`a == a`, `a.cmp(a)`, clone)
//!   pair <i> <j>           `A[i].cmp(B[j])`, `A[i] == B[j]`, hash(A[i]) == hash(B[j])   → `L|E|G 0|1 0|1`
//!                          (A and B are two independently built instances of the zoo, so object
//!                          identity never short-cuts a comparison)
//!   tpl <i> <j>            the template operators on the same pair: `a < b`, `a == b`, `a in [b]`,
//!                          `a in {b: 1}`, `{b: 1}[a] is defined`, `a <= b`, `a > b`, and the two map forms with a second entry   → nine 0/1/e flags
//!   flist <form> <word>    every collection filter with every keyword option on one input list; the
//!                          laws are evaluated here, directly on the outputs   → `ok <n>` or `FAIL …`
//!   batch/slicef <len> <count> <fill>   run lengths of `batch` / `slice`   → `ok:l1,l2,…`, `err:Kind`, `panic`
//!   lk <backing> <n> <key enc> <probe enc>   a map of `n` entries holding `key` (→ 777) probed with `probe`
//!                          through EVERY lookup entry point (see `LK_ENTRIES`)   → `<k==p> <flag per entry>`
//!                          (`1` found, `0` not found, `-` entry point not applicable, `e` error, `P` panic)
//!
//! Value encoding (no blanks): `u` undefined, `n` none, `t`/`f`, `U64.<dec>`, `I64.<dec>`, `U128.<dec>`,
//! `I128.<dec>`, `F.<16 hex digits of the bit pattern>`, `Ss.`/`Sn.`/`Sf.<hex utf8>` (small / Arc / safe
//! string), `Y.<hex>` bytes, `[..]` list, `(..)` tuple, `<..>` sized iterable, `<?..>` unsized iterable,
//! `{k:v,..}` map in insertion order, `P.<hex>` plain object rendering as that text.
//!
//! usage: c07 gen <quick|thorough> | c07 one <case fields…> | c07 zoo
use minijinja::value::{Enumerator, Kwargs, Object, ObjectRepr, Tuple, Value};
use minijinja::{context, Environment, State};
use mjh::*;
use std::cmp::Ordering;
use std::collections::hash_map::DefaultHasher;
use std::fmt;
use std::hash::{Hash, Hasher};
use std::io::Write;
use std::sync::Arc;

// ------------------------------------------------------------------------------------------ specs

#[derive(Clone, Debug, PartialEq)]
enum S {
    Undef,
    None,
    Bool(bool),
    U64(u64),
    I64(i64),
    U128(u128),
    I128(i128),
    F(u64),
    Str(String, u8), // 0 small/auto (&str), 1 Arc<str> (normal), 2 safe
    Bytes(Vec<u8>),
    Seq(Vec<S>),
    Tuple(Vec<S>),
    Iter(Vec<S>, bool), // sized?
    Map(Vec<(S, S)>),
    Plain(String),
    /// one-shot iterator (`make_one_shot_iterator`): consumed by the first walk, so it is rebuilt for every operation
    Once(Vec<S>),
    /// user-defined map object (`ObjectRepr::Map`): keeps insertion order, looks keys up with `==`
    OMap(Vec<(S, S)>),
    /// user-defined sequence object (`ObjectRepr::Seq`, `Enumerator::Seq`)
    OSeq(Vec<S>),
    /// user-defined plain object with `custom_cmp`: ordered by the number alone, rendered zero-padded
    /// followed by a tag the comparison ignores (so `custom_cmp` is not what the rendering says)
    Ver(u32, String),
    /// an invalid value (`Value::from(Error)`)
    Inv(String),
    /// user object with a chosen repr (s/m/i), enumerator variant, size-hint honesty class and
    /// optional `enumerator_len` override: `cfg` = 4 chars, see `HintObj`
    Hint(String, Vec<(S, S)>),
    /// the silent undefined (`(1 if false)` evaluated through the expression API)
    USilent,
    /// a `namespace(..)` object (Map repr, `Enumerator::Values` of its keys in key order); string keys only
    Ns(Vec<(S, S)>),
}

#[derive(Debug)]
struct OMapObj(Vec<(Value, Value)>);
impl Object for OMapObj {
    fn repr(self: &Arc<Self>) -> ObjectRepr {
        ObjectRepr::Map
    }
    fn get_value(self: &Arc<Self>, key: &Value) -> Option<Value> {
        self.0.iter().find(|(k, _)| k == key).map(|(_, v)| v.clone())
    }
    fn enumerate(self: &Arc<Self>) -> Enumerator {
        Enumerator::Values(self.0.iter().map(|(k, _)| k.clone()).collect())
    }
}

#[derive(Debug)]
struct OSeqObj(Vec<Value>);
impl Object for OSeqObj {
    fn repr(self: &Arc<Self>) -> ObjectRepr {
        ObjectRepr::Seq
    }
    fn get_value(self: &Arc<Self>, key: &Value) -> Option<Value> {
        self.0.get(key.as_usize()?).cloned()
    }
    fn enumerate(self: &Arc<Self>) -> Enumerator {
        Enumerator::Seq(self.0.len())
    }
}

#[derive(Debug)]
struct VerObj(u32, String);
impl Object for VerObj {
    fn repr(self: &Arc<Self>) -> ObjectRepr {
        ObjectRepr::Plain
    }
    fn enumerate(self: &Arc<Self>) -> Enumerator {
        Enumerator::NonEnumerable
    }
    fn custom_cmp(self: &Arc<Self>, other: &minijinja::value::DynObject) -> Option<Ordering> {
        let other = other.downcast_ref::<Self>()?;
        Some(self.0.cmp(&other.0))
    }
    fn render(self: &Arc<Self>, f: &mut fmt::Formatter<'_>) -> fmt::Result {
        write!(f, "ver{:06}{}", self.0, self.1)
    }
}


/// iterator wrapper that reports a chosen size hint
struct HintIter<I> {
    inner: I,
    hint: (usize, Option<usize>),
}
impl<I: Iterator> Iterator for HintIter<I> {
    type Item = I::Item;
    fn next(&mut self) -> Option<I::Item> {
        self.inner.next()
    }
    fn size_hint(&self) -> (usize, Option<usize>) {
        self.hint
    }
}
impl<I: DoubleEndedIterator> DoubleEndedIterator for HintIter<I> {
    fn next_back(&mut self) -> Option<I::Item> {
        self.inner.next_back()
    }
}

/// A user object for every enumerator variant and size-hint honesty class.
/// cfg[0] repr: `s` Seq, `m` Map, `i` Iterable;
/// cfg[1] enumerator: `q` Seq(n), `v` Values, `t` Iter, `r` RevIter, `k` KeyValueIter, `j` RevKeyValueIter, `e` Empty,
///        `n` NonEnumerable;
/// cfg[2] size hint of the iterator (all within the `Iterator` contract lower ≤ count ≤ upper):
///        `x` exact (n, Some(n)), `u` (0, None), `b` (lower < n, Some(upper > n)), `p` (0, Some(n)), `l` (n-1, None);
/// cfg[3] `o` = `enumerator_len` overridden with the true count, `d` = the trait's default.
/// Map reprs hold (key, value) pairs and look keys up with `==`; the others hold the keys as items.
#[derive(Debug)]
struct HintObj {
    cfg: [u8; 4],
    pairs: Vec<(Value, Value)>,
}
impl HintObj {
    fn hint(&self) -> (usize, Option<usize>) {
        let n = self.pairs.len();
        match self.cfg[2] {
            b'x' => (n, Some(n)),
            b'u' => (0, None),
            b'b' => (n.saturating_sub(1), Some(n + 2)),
            b'p' => (0, Some(n)),
            _ => (n.saturating_sub(1), None),
        }
    }
}
impl Object for HintObj {
    fn repr(self: &Arc<Self>) -> ObjectRepr {
        match self.cfg[0] {
            b's' => ObjectRepr::Seq,
            b'm' => ObjectRepr::Map,
            _ => ObjectRepr::Iterable,
        }
    }
    fn get_value(self: &Arc<Self>, key: &Value) -> Option<Value> {
        if self.cfg[0] == b'm' {
            self.pairs.iter().find(|(k, _)| k == key).map(|(_, v)| v.clone())
        } else {
            self.pairs.get(key.as_usize()?).map(|(k, _)| k.clone())
        }
    }
    fn enumerate(self: &Arc<Self>) -> Enumerator {
        let keys: Vec<Value> = self.pairs.iter().map(|(k, _)| k.clone()).collect();
        let hint = self.hint();
        match self.cfg[1] {
            b'q' => Enumerator::Seq(keys.len()),
            b'v' => Enumerator::Values(keys),
            b't' => Enumerator::Iter(Box::new(HintIter { inner: keys.into_iter(), hint })),
            b'r' => Enumerator::RevIter(Box::new(HintIter { inner: keys.into_iter(), hint })),
            b'k' => Enumerator::KeyValueIter(Box::new(HintIter { inner: self.pairs.clone().into_iter(), hint })),
            b'j' => Enumerator::RevKeyValueIter(Box::new(HintIter { inner: self.pairs.clone().into_iter(), hint })),
            b'e' => Enumerator::Empty,
            _ => Enumerator::NonEnumerable,
        }
    }
    fn enumerator_len(self: &Arc<Self>) -> Option<usize> {
        if self.cfg[3] == b'o' {
            Some(if self.cfg[1] == b'e' { 0 } else { self.pairs.len() })
        } else {
            // the trait's default body (`self.enumerate().query_len()`): reached through a delegating object
            DefaultLen(self.clone()).default_len()
        }
    }
}

/// reaches the default body of `Object::enumerator_len` for the enumerator of another object
#[derive(Debug)]
struct DefaultLen(Arc<HintObj>);
impl Object for DefaultLen {
    fn enumerate(self: &Arc<Self>) -> Enumerator {
        self.0.enumerate()
    }
}
impl DefaultLen {
    fn default_len(self) -> Option<usize> {
        Arc::new(self).enumerator_len()
    }
}

fn has_invalid(s: &S) -> bool {
    match s {
        S::Inv(_) => true,
        S::Seq(xs) | S::Tuple(xs) | S::Iter(xs, _) | S::OSeq(xs) | S::Once(xs) => xs.iter().any(has_invalid),
        S::Map(ps) | S::OMap(ps) | S::Hint(_, ps) | S::Ns(ps) => ps.iter().any(|(k, v)| has_invalid(k) || has_invalid(v)),
        _ => false,
    }
}

fn volatile(s: &S) -> bool {
    match s {
        S::Once(_) => true,
        S::Seq(xs) | S::Tuple(xs) | S::Iter(xs, _) | S::OSeq(xs) => xs.iter().any(volatile),
        S::Map(ps) | S::OMap(ps) | S::Hint(_, ps) | S::Ns(ps) => ps.iter().any(|(k, v)| volatile(k) || volatile(v)),
        _ => false,
    }
}

#[derive(Debug)]
struct PlainObj(String);
impl Object for PlainObj {
    fn repr(self: &Arc<Self>) -> ObjectRepr {
        ObjectRepr::Plain
    }
    fn enumerate(self: &Arc<Self>) -> Enumerator {
        Enumerator::NonEnumerable
    }
    fn render(self: &Arc<Self>, f: &mut fmt::Formatter<'_>) -> fmt::Result {
        f.write_str(&self.0)
    }
}

fn build(s: &S) -> Value {
    match s {
        S::Undef => Value::UNDEFINED,
        S::None => Value::from(()),
        S::Bool(b) => Value::from(*b),
        S::U64(x) => Value::from(*x),
        S::I64(x) => Value::from(*x),
        S::U128(x) => Value::from(*x),
        S::I128(x) => Value::from(*x),
        S::F(bits) => Value::from(f64::from_bits(*bits)),
        S::Str(t, 0) => Value::from(t.as_str()),
        S::Str(t, 1) => Value::from(Arc::<str>::from(t.as_str())),
        S::Str(t, _) => Value::from_safe_string(t.clone()),
        S::Bytes(b) => Value::from_bytes(b.clone()),
        S::Seq(xs) => Value::from(xs.iter().map(build).collect::<Vec<Value>>()),
        S::Tuple(xs) => Value::from_object(Tuple::new(xs.iter().map(build).collect())),
        S::Iter(xs, sized) => {
            let v: Vec<Value> = xs.iter().map(build).collect();
            if *sized {
                Value::make_object_iterable(v, |v| Box::new(v.iter().cloned()))
            } else {
                Value::make_object_iterable(v, |v| Box::new(v.iter().filter(|_| true).cloned()))
            }
        }
        // a template map literal / `from_pairs` builds the engine's own map type
        // (BTreeMap, or IndexMap under `preserve_order`) by inserting the pairs in this order
        S::Map(ps) => Value::from_pairs(ps.iter().map(|(k, v)| (build(k), build(v)))),
        S::Plain(t) => Value::from_object(PlainObj(t.clone())),
        S::Once(xs) => Value::make_one_shot_iterator(xs.iter().map(build).collect::<Vec<Value>>().into_iter()),
        S::OMap(ps) => Value::from_object(OMapObj(ps.iter().map(|(k, v)| (build(k), build(v))).collect())),
        S::OSeq(xs) => Value::from_object(OSeqObj(xs.iter().map(build).collect())),
        S::Ver(n, t) => Value::from_object(VerObj(*n, t.clone())),
        S::Inv(msg) => Value::from(minijinja::Error::new(minijinja::ErrorKind::InvalidOperation, msg.clone())),
        S::Hint(cfg, ps) => {
            let c = cfg.as_bytes();
            Value::from_object(HintObj { cfg: [c[0], c[1], c[2], c[3]], pairs: ps.iter().map(|(k, v)| (build(k), build(v))).collect() })
        }
        S::USilent => {
            let env = Environment::new();
            env.compile_expression("(1 if false)").unwrap().eval(()).unwrap()
        }
        S::Ns(ps) => {
            // the engine's own `namespace(dict)` function builds the object
            let env = Environment::new();
            let d = Value::from_pairs(ps.iter().map(|(k, v)| (build(k), build(v))));
            env.compile_expression("namespace(d)").unwrap().eval(context! { d => d }).unwrap()
        }
    }
}

fn enc(s: &S) -> String {
    fn list(xs: &[S]) -> String {
        xs.iter().map(enc).collect::<Vec<_>>().join(",")
    }
    match s {
        S::Undef => "u".into(),
        S::None => "n".into(),
        S::Bool(true) => "t".into(),
        S::Bool(false) => "f".into(),
        S::U64(x) => format!("U64.{x}"),
        S::I64(x) => format!("I64.{x}"),
        S::U128(x) => format!("U128.{x}"),
        S::I128(x) => format!("I128.{x}"),
        S::F(b) => format!("F.{b:016x}"),
        S::Str(t, 0) => format!("Ss.{}", hex(t.as_bytes())),
        S::Str(t, 1) => format!("Sn.{}", hex(t.as_bytes())),
        S::Str(t, _) => format!("Sf.{}", hex(t.as_bytes())),
        S::Bytes(b) => format!("Y.{}", hex(b)),
        S::Seq(xs) => format!("[{}]", list(xs)),
        S::Tuple(xs) => format!("({})", list(xs)),
        S::Iter(xs, true) => format!("<{}>", list(xs)),
        S::Iter(xs, false) => format!("<?{}>", list(xs)),
        S::Map(ps) => format!(
            "{{{}}}",
            ps.iter().map(|(k, v)| format!("{}:{}", enc(k), enc(v))).collect::<Vec<_>>().join(",")
        ),
        S::Plain(t) => format!("P.{}", hex(t.as_bytes())),
        S::Once(xs) => format!("<!{}>", list(xs)),
        S::OMap(ps) => format!(
            "{{={}}}",
            ps.iter().map(|(k, v)| format!("{}:{}", enc(k), enc(v))).collect::<Vec<_>>().join(",")
        ),
        S::OSeq(xs) => format!("[={}]", list(xs)),
        S::Ver(n, t) => format!("C.{n}_{t}"),
        S::Inv(m) => format!("X.{}", hex(m.as_bytes())),
        S::Hint(cfg, ps) => {
            if cfg.starts_with('m') {
                format!("{{@{cfg}|{}}}", ps.iter().map(|(k, v)| format!("{}:{}", enc(k), enc(v))).collect::<Vec<_>>().join(","))
            } else {
                format!("[@{cfg}|{}]", ps.iter().map(|(k, _)| enc(k)).collect::<Vec<_>>().join(","))
            }
        }
        S::USilent => "us".into(),
        S::Ns(ps) => format!(
            "{{#{}}}",
            ps.iter().map(|(k, v)| format!("{}:{}", enc(k), enc(v))).collect::<Vec<_>>().join(",")
        ),
    }
}

/// parser for the encoding (replay)
fn dec(src: &str) -> S {
    fn items(b: &[u8], i: &mut usize, close: u8) -> Vec<S> {
        let mut out = vec![];
        if b[*i] == close {
            *i += 1;
            return out;
        }
        loop {
            out.push(go(b, i));
            let c = b[*i];
            *i += 1;
            if c == close {
                return out;
            }
            assert_eq!(c, b',');
        }
    }
    fn atom<'a>(b: &'a [u8], i: &mut usize) -> &'a str {
        let st = *i;
        while *i < b.len() && !b",:]})>".contains(&b[*i]) {
            *i += 1;
        }
        std::str::from_utf8(&b[st..*i]).unwrap()
    }
    fn go(b: &[u8], i: &mut usize) -> S {
        match b[*i] {
            b'[' => {
                *i += 1;
                if b[*i] == b'@' {
                    let cfg = std::str::from_utf8(&b[*i + 1..*i + 5]).unwrap().to_string();
                    *i += 6;
                    return S::Hint(cfg, items(b, i, b']').into_iter().map(|k| (k, S::None)).collect());
                }
                if b[*i] == b'=' {
                    *i += 1;
                    S::OSeq(items(b, i, b']'))
                } else {
                    S::Seq(items(b, i, b']'))
                }
            }
            b'(' => {
                *i += 1;
                S::Tuple(items(b, i, b')'))
            }
            b'<' => {
                *i += 1;
                if b[*i] == b'!' {
                    *i += 1;
                    return S::Once(items(b, i, b'>'));
                }
                let sized = if b[*i] == b'?' {
                    *i += 1;
                    false
                } else {
                    true
                };
                S::Iter(items(b, i, b'>'), sized)
            }
            b'{' => {
                *i += 1;
                let omap = b[*i] == b'=';
                if omap {
                    *i += 1;
                }
                let ns = b[*i] == b'#';
                if ns {
                    *i += 1;
                }
                let mut hint_cfg: Option<String> = None;
                if b[*i] == b'@' {
                    hint_cfg = Some(std::str::from_utf8(&b[*i + 1..*i + 5]).unwrap().to_string());
                    *i += 6;
                }
                let mk = move |ps: Vec<(S, S)>| match &hint_cfg {
                    Some(c) => S::Hint(c.clone(), ps),
                    None => if ns { S::Ns(ps) } else if omap { S::OMap(ps) } else { S::Map(ps) },
                };
                let mut ps = vec![];
                if b[*i] == b'}' {
                    *i += 1;
                    return mk(ps);
                }
                loop {
                    let k = go(b, i);
                    assert_eq!(b[*i], b':');
                    *i += 1;
                    let v = go(b, i);
                    ps.push((k, v));
                    let c = b[*i];
                    *i += 1;
                    if c == b'}' {
                        return mk(ps);
                    }
                    assert_eq!(c, b',');
                }
            }
            _ => {
                let a = atom(b, i);
                let (tag, rest) = a.split_once('.').unwrap_or((a, ""));
                let txt = |h: &str| String::from_utf8(unhex(h)).unwrap();
                match tag {
                    "u" => S::Undef,
                    "us" => S::USilent,
                    "C" => {
                        let (n, t) = rest.split_once('_').unwrap_or((rest, ""));
                        S::Ver(n.parse().unwrap(), t.to_string())
                    }
                    "X" => S::Inv(txt(rest)),
                    "n" => S::None,
                    "t" => S::Bool(true),
                    "f" => S::Bool(false),
                    "U64" => S::U64(rest.parse().unwrap()),
                    "I64" => S::I64(rest.parse().unwrap()),
                    "U128" => S::U128(rest.parse().unwrap()),
                    "I128" => S::I128(rest.parse().unwrap()),
                    "F" => S::F(u64::from_str_radix(rest, 16).unwrap()),
                    "Ss" => S::Str(txt(rest), 0),
                    "Sn" => S::Str(txt(rest), 1),
                    "Sf" => S::Str(txt(rest), 2),
                    "Y" => S::Bytes(unhex(rest)),
                    "P" => S::Plain(txt(rest)),
                    _ => panic!("bad atom {a}"),
                }
            }
        }
    }
    let mut i = 0;
    let s = go(src.as_bytes(), &mut i);
    assert_eq!(i, src.len(), "trailing input in {src}");
    s
}

// ------------------------------------------------------------------------------------------ zoo

fn fbits(x: f64) -> S {
    S::F(x.to_bits())
}

fn int_reprs(v: i128, hi: Option<u128>, out: &mut Vec<S>) {
    // v as a signed value when hi is None, otherwise the unsigned value `hi` (≥ 2^127)
    match hi {
        Some(u) => {
            out.push(S::U128(u));
        }
        None => {
            if v >= 0 && v <= u64::MAX as i128 {
                out.push(S::U64(v as u64));
            }
            if v >= i64::MIN as i128 && v <= i64::MAX as i128 {
                out.push(S::I64(v as i64));
            }
            if v >= 0 {
                out.push(S::U128(v as u128));
            }
            out.push(S::I128(v));
        }
    }
}

fn s0(t: &str) -> S {
    S::Str(t.into(), 0)
}
fn i(x: i64) -> S {
    S::I64(x)
}

fn zoo(thorough: bool) -> Vec<S> {
    let mut z = vec![S::Undef, S::None, S::Bool(false), S::Bool(true)];
    let p = |k: u32| 1i128 << k;
    let mut ints: Vec<i128> = vec![
        0, 1, -1, 2, p(31), -p(31), p(53) - 1, p(53), p(53) + 1, -p(53), -(p(53) + 1),
        p(63) - 1025, p(63) - 1024, p(63) - 513, p(63) - 512, p(63) - 511, p(63) - 1, p(63), p(63) + 1,
        p(63) + 1024, p(63) + 1025, -p(63) + 1, -p(63), -p(63) - 1, -p(63) - 1025,
        p(64) - 2048, p(64) - 1025, p(64) - 1024, p(64) - 1, p(64), p(64) + 1, p(64) + 2049, -p(64),
        p(126), i128::MAX - (p(73) - 1), i128::MAX - p(72), i128::MAX - p(72) + 1, i128::MAX - 1, i128::MAX,
        i128::MIN, i128::MIN + 1, i128::MIN + p(73),
    ];
    if thorough {
        for k in [8u32, 16, 24, 32, 52, 54, 62, 65, 100, 120] {
            ints.extend([p(k) - 1, p(k), p(k) + 1, -p(k) - 1, -p(k), -p(k) + 1]);
        }
    }
    for v in ints {
        int_reprs(v, None, &mut z);
    }
    let q = |k: u32| 1u128 << k;
    for u in [q(127), q(127) + 1, q(127) + q(74), q(127) + q(73), q(127) + q(73) + 1, u128::MAX - q(75), u128::MAX - q(74),
        u128::MAX - q(74) + 1, u128::MAX - 1, u128::MAX]
    {
        int_reprs(0, Some(u), &mut z);
    }
    let two = |k: i32| 2f64.powi(k);
    let mut floats = vec![
        0.0, -0.0, 1.0, -1.0, 0.5, -0.5, 1.5, -1.5, 2.0, 2.5, two(31), two(53) - 1.0, two(53), two(53) + 2.0, -two(53),
        two(63) - 1024.0, two(63), two(63) + 2048.0, -two(63), -two(63) - 2048.0, two(64) - 2048.0, two(64), two(64) + 4096.0, -two(64),
        two(126), two(127) - two(74), two(127), two(127) + two(75), -two(127), -two(127) - two(75), -two(127) + two(74),
        two(128) - two(75), two(128), two(128) + two(76), -two(128), 1e300, -1e300, f64::MAX, f64::MIN_POSITIVE, 5e-324, -5e-324,
        f64::INFINITY, f64::NEG_INFINITY,
    ];
    if thorough {
        for k in [8, 16, 24, 32, 52, 54, 62, 65, 100, 120] {
            floats.extend([two(k), -two(k), two(k) + two(k - 52), two(k) - two(k - 53)]);
        }
    }
    for f in floats {
        z.push(fbits(f));
    }
    z.push(S::F(0x7ff8_0000_0000_0000)); // NaN
    z.push(S::F(0xfff8_0000_0000_0000)); // -NaN
    z.push(S::F(0x7ff8_0000_0000_0001)); // NaN with payload
    z.push(S::F(0x7ff0_0000_0000_0001)); // signalling NaN

    let s22 = "abcdefghijklmnopqrstuv"; // 22 bytes: still a small string
    let s23 = "abcdefghijklmnopqrstuvw";
    for t in ["", "a", "A", "b", "ab", "aa", "é", "1", "True", s22, s23] {
        z.push(S::Str(t.into(), 0));
        z.push(S::Str(t.into(), 1));
        if thorough || t.len() < 3 {
            z.push(S::Str(t.into(), 2));
        }
    }
    // string contents x representations: NULs (leading / middle / trailing / repeated), strings that are prefixes
    // of each other, and the lengths around the inline-buffer limit (21 / 22 / 23 bytes, with and without a
    // trailing NUL or a multi-byte character across the limit): every text as `&str` (inline when it fits),
    // `Arc<str>` (heap) and — a few in quick, all in thorough — safe string
    let s21 = &s22[..21];
    let edge_texts: Vec<String> = vec![
        "\0".into(), "a\0".into(), "\0a".into(), "a\0b".into(), "a\0\0".into(), "ab\0".into(), "abc".into(), "abcd".into(),
        s21.into(), format!("{s21}\0"), format!("{s22}\0"), format!("{}\0\0", &s22[..20]), format!("{s21}é"), format!("{}é", &s22[..20]),
        // other control bytes, DEL, and 2 / 3 / 4-byte characters behind a common prefix
        "a\x01".into(), "a\x7f".into(), "a\u{80}".into(), "a\u{800}".into(), "a\u{10000}".into(), "\0\0".into(), format!("{s22}\x01"),
    ];
    for (n, t) in edge_texts.iter().enumerate() {
        z.push(S::Str(t.clone(), 0));
        z.push(S::Str(t.clone(), 1));
        if thorough || n % 4 == 1 {
            z.push(S::Str(t.clone(), 2));
        }
    }
    for b in [&b""[..], b"a", b"ab", b"\xff", b"\x00", b"a\x00"] {
        z.push(S::Bytes(b.to_vec()));
    }
    let nan = S::F(0x7ff8_0000_0000_0000);
    let lists: Vec<Vec<S>> = vec![
        vec![], vec![i(1)], vec![i(1), i(2)], vec![i(2), i(1)], vec![fbits(1.0)], vec![S::Bool(true)], vec![nan.clone()],
        vec![s0("a")], vec![S::Str("a".into(), 1)], vec![S::Seq(vec![i(1)])], vec![S::Seq(vec![i(1)]), S::Seq(vec![i(2)])],
        vec![S::Seq(vec![i(1), i(2)])], vec![S::None], vec![S::Undef], vec![i(1), s0("a")], vec![S::U64(1 << 63)],
        vec![S::I64(i64::MAX)], vec![fbits(two(63))], vec![i(1), i(2), i(3)], vec![S::U64(0), S::I64(-1)],
        vec![S::Tuple(vec![i(1)])], vec![S::Map(vec![(s0("a"), i(1))])],
    ];
    for l in &lists {
        z.push(S::Seq(l.clone()));
    }
    for l in lists.iter().take(if thorough { 22 } else { 8 }) {
        z.push(S::Tuple(l.clone()));
        z.push(S::Iter(l.clone(), true));
        z.push(S::Iter(l.clone(), false));
    }
    z.push(S::Tuple(vec![i(1), i(2), i(3)]));
    let m = |ps: Vec<(S, S)>| S::Map(ps);
    let maps = vec![
        m(vec![]),
        m(vec![(s0("a"), i(1))]),
        m(vec![(s0("a"), i(1)), (s0("b"), i(2))]),
        m(vec![(s0("b"), i(2)), (s0("a"), i(1))]),
        m(vec![(s0("a"), i(2)), (s0("b"), i(1))]),
        m(vec![(S::Str("a".into(), 1), S::U64(1))]),
        m(vec![(i(1), s0("x"))]),
        m(vec![(S::Bool(true), s0("x"))]),
        m(vec![(fbits(1.0), s0("x"))]),
        m(vec![(s0("a"), fbits(1.0))]),
        m(vec![(s0("a"), nan.clone())]),
        m(vec![(i(1), i(1)), (S::Bool(true), i(2))]),
        m(vec![(S::Bool(true), i(2)), (i(1), i(1))]),
        m(vec![(i(1), i(2))]),
        m(vec![(s0("a"), m(vec![(s0("b"), i(1))]))]),
        m(vec![(S::Seq(vec![i(1)]), i(2))]),
        m(vec![(s0("A"), i(1))]),
        m(vec![(i(2), s0("x")), (i(1), s0("y")), (s0("a"), S::None)]),
        m(vec![(s0("a"), S::None), (i(1), s0("y")), (i(2), s0("x"))]),
        m(vec![(S::I64(i64::MAX), i(1)), (fbits(two(63)), i(2)), (S::U64(1 << 63), i(3))]),
        m(vec![(S::U64(1 << 63), i(3)), (fbits(two(63)), i(2)), (S::I64(i64::MAX), i(1))]),
    ];
    z.extend(maps);
    z.push(S::Plain("x".into()));
    z.push(S::Plain("y".into()));
    z.push(S::Plain("".into()));
    // nestings
    z.push(S::Seq(vec![m(vec![(s0("a"), S::Seq(vec![i(1), S::Tuple(vec![i(2)])]))])]));
    z.push(S::Seq(vec![m(vec![(s0("a"), S::Seq(vec![i(1), S::Tuple(vec![fbits(2.0)])]))])]));
    z.push(S::Tuple(vec![S::Seq(vec![i(1)]), m(vec![(s0("a"), S::Tuple(vec![i(1)]))])]));
    z.push(m(vec![(s0("k"), S::Seq(vec![S::Iter(vec![i(1)], true)]))]));
    z.push(m(vec![(s0("k"), S::Seq(vec![S::Seq(vec![i(1)])]))]));
    z.push(S::Seq(vec![S::Plain("x".into())]));
    // more kinds: silent undefined, one-shot iterators, user objects of every repr, custom_cmp, invalid values
    z.push(S::USilent);
    z.push(S::Once(vec![]));
    z.push(S::Once(vec![i(1), i(2)]));
    z.push(S::Once(vec![fbits(1.0), S::U64(2)]));
    z.push(S::Seq(vec![S::Once(vec![i(1)])]));
    z.push(S::OSeq(vec![]));
    z.push(S::OSeq(vec![i(1), i(2)]));
    z.push(S::OSeq(vec![S::OSeq(vec![s0("a")])]));
    z.push(S::OMap(vec![]));
    z.push(S::OMap(vec![(s0("a"), i(1)), (s0("b"), i(2))]));
    z.push(S::OMap(vec![(s0("b"), i(2)), (s0("a"), i(1))]));
    z.push(S::OMap(vec![(i(2), s0("x")), (i(1), s0("y"))]));
    z.push(m(vec![(S::OMap(vec![(s0("a"), i(1))]), i(5))]));
    z.push(m(vec![(m(vec![(s0("a"), i(1))]), i(5))]));
    z.push(m(vec![(S::OSeq(vec![i(1)]), i(2))]));
    z.push(S::Ver(9, "z".into()));
    z.push(S::Ver(10, "a".into()));
    z.push(S::Ver(10, "b".into()));
    z.push(S::Ver(11, "".into()));
    z.push(S::Seq(vec![S::Ver(10, "a".into())]));
    z.push(S::Seq(vec![S::Ver(10, "b".into())]));
    z.push(S::Inv("boom".into()));
    z.push(S::Inv("bang".into()));
    z.push(S::Seq(vec![S::Inv("boom".into())]));
    z.push(S::Bytes(b"A".to_vec()));
    z.push(S::U128(u128::MAX));
    z.push(S::I128(i128::MIN));
    z.push(m(vec![(fbits(-0.0), i(1))]));
    z.push(m(vec![(fbits(0.0), i(1))]));
    z.push(m(vec![(S::F(0x7ff8_0000_0000_0000), i(1))]));
    // keys that are Equal under Ord (one entry, first spelling of the key, last value) / only under ==
    z.push(m(vec![(S::F(0x7ff8_0000_0000_0000), i(1)), (S::F(0x7ff8_0000_0000_0000), i(2))]));
    z.push(m(vec![(i(1), i(1)), (fbits(1.0), i(2))]));
    z.push(m(vec![(fbits(1.0), i(1)), (S::U64(1), i(2))]));
    // namespace objects (a map object that keeps its keys in key order whatever the insertion order)
    z.push(S::Ns(vec![]));
    z.push(S::Ns(vec![(s0("a"), i(1)), (s0("b"), i(2))]));
    z.push(S::Ns(vec![(s0("b"), i(2)), (s0("a"), i(1))]));
    z.push(S::Ns(vec![(s0("a"), fbits(1.0)), (S::Str("b".into(), 1), S::U64(2))]));
    z.push(S::Ns(vec![(s0("a"), i(2)), (s0("b"), i(1))]));
    z.push(S::Seq(vec![S::Ns(vec![(s0("a"), i(1))])]));
    z.push(m(vec![(S::Ns(vec![(s0("a"), i(1))]), i(5))]));
    z
}

// ------------------------------------------------------------------------------------------ pairs

fn hash_of(v: &Value) -> u64 {
    let mut h = DefaultHasher::new();
    v.hash(&mut h);
    h.finish()
}

fn ord_char(o: Ordering) -> char {
    match o {
        Ordering::Less => 'L',
        Ordering::Equal => 'E',
        Ordering::Greater => 'G',
    }
}

fn kind_name(v: &Value) -> String {
    format!("{:?}", v.kind())
}

fn run_val(a: &Value) -> String {
    guarded(|| {
        let c = a.clone();
        format!(
            "{} len={} selfeq={} selfcmp={} cloneeq={} clonecmp={} clonehash={} ilen={} icount={} truthy={}",
            kind_name(a),
            if a.kind() == minijinja::value::ValueKind::Map { a.len().map_or("?".to_string(), |n| n.to_string()) } else { "-".to_string() },
            (a == a) as u8,
            ord_char(a.cmp(a)),
            (*a == c) as u8,
            ord_char(a.cmp(&c)),
            (hash_of(a) == hash_of(&c)) as u8,
            // the reported length, the number of items a walk yields, truthiness
            if a.as_object().is_some() { a.len().map_or("-".to_string(), |n| n.to_string()) } else { "-".to_string() },
            if a.as_object().is_some() { a.try_iter().map(|it| it.count().to_string()).unwrap_or("-".to_string()) } else { "-".to_string() },
            a.is_true() as u8
        )
    })
    .unwrap_or_else(|_| "panic".into())
}

#[allow(dead_code)]
fn run_pair(a: &Value, b: &Value) -> String {
    run_pair_s(None, a, b)
}

/// one-shot iterators are consumed by the first walk: with the specs given, values holding one are
/// rebuilt for every operation (each operation then sees what a template would see on first use)
fn run_pair_s(specs: Option<(&S, &S)>, a: &Value, b: &Value) -> String {
    let fresh = |_which: u8| -> (Value, Value) {
        match specs {
            Some((sa, sb)) if volatile(sa) || volatile(sb) => (build(sa), build(sb)),
            _ => (a.clone(), b.clone()),
        }
    };
    let (a0, b0) = fresh(0);
    let c = guarded(|| ord_char(a0.cmp(&b0)).to_string()).unwrap_or_else(|_| "P".into());
    let (a1, b1) = fresh(1);
    let e = guarded(|| ((a1 == b1) as u8).to_string()).unwrap_or_else(|_| "P".into());
    let (a2, b2) = fresh(2);
    let h = guarded(|| ((hash_of(&a2) == hash_of(&b2)) as u8).to_string()).unwrap_or_else(|_| "P".into());
    // the derived operators of PartialOrd / PartialEq must agree with cmp / eq
    let (a3, b3) = fresh(3);
    let po = guarded(|| {
        let pc = a3.partial_cmp(&b3);
        (pc.map(ord_char), a3 < b3, a3 != b3)
    });
    let extra = match (po, c.as_str(), e.as_str()) {
        (Err(_), "P", _) => "",
        (Err(_), _, _) => " partial-ord-panics",
        (Ok((pc, lt, ne)), cs, es) => {
            if volatile_pair(specs) {
                ""
            } else if pc.map(|x| x.to_string()).as_deref() != Some(cs) && cs != "P" {
                " partial-cmp-differs"
            } else if (lt as u8 == 1) != (cs == "L") && cs != "P" {
                " lt-differs"
            } else if es != "P" && (ne as u8).to_string() == es {
                " ne-differs"
            } else {
                ""
            }
        }
    };
    format!("{c} {e} {h}{extra}")
}

fn volatile_pair(specs: Option<(&S, &S)>) -> bool {
    specs.map_or(false, |(a, b)| volatile(a) || volatile(b))
}

const TPLS: [&str; 11] = [
    "{{ 1 if a < b else 0 }}",
    "{{ 1 if a == b else 0 }}",
    "{{ 1 if a in [b] else 0 }}",
    "{{ 1 if a in {b: 1} else 0 }}",
    "{{ 1 if {b: 1}[a] is defined else 0 }}",
    "{{ 1 if a <= b else 0 }}",
    "{{ 1 if a > b else 0 }}",
    "{{ 1 if a in {b: 1, '~sentinel~': 2} else 0 }}",
    "{{ 1 if {b: 1, '~sentinel~': 2}[a] is defined else 0 }}",
    "{{ 1 if ([a, b]|unique(case_sensitive=true)|list|length) == 1 else 0 }}",
    "{{ 1 if ([a]|select('eq', b)|list|length) == 1 else 0 }}",
];

fn tpl_env() -> Environment<'static> {
    let mut env = Environment::new();
    // the Python-style methods of minijinja-contrib (`d.get(k)`, `d.keys()`, `d.items()`, `xs.count(x)`)
    env.set_unknown_method_callback(minijinja_contrib::pycompat::unknown_method_callback);
    for (k, t) in TPLS.iter().enumerate() {
        env.add_template_owned(format!("t{k}"), t.to_string()).unwrap();
    }
    env
}

fn run_tpl(env: &Environment, a: &Value, b: &Value) -> String {
    let mut out = String::new();
    for k in 0..TPLS.len() {
        let r = guarded(|| {
            let t = env.get_template(&format!("t{k}")).unwrap();
            match t.render(context! { a => a.clone(), b => b.clone() }) {
                Ok(s) => s,
                Err(_) => "e".into(),
            }
        })
        .unwrap_or_else(|_| "P".into());
        out.push_str(&r);
    }
    out
}

// ------------------------------------------------------------------------------------------ filters

/// alphabet of the filter inputs: ties between distinguishable values (1 / 1.0 / true-ish, "a" / "A")
fn alphabet() -> Vec<S> {
    vec![i(1), fbits(1.0), S::U64(2), s0("a"), s0("A"), s0("b"), S::None]
}

/// second alphabet: strings next to bytes that are / are not UTF-8 (case folding must not treat bytes as text)
fn alphabet_b() -> Vec<S> {
    vec![s0("c"), S::Bytes(b"b".to_vec()), S::Bytes(vec![0x61, 0xff]), s0("B"), i(1), S::Bytes(b"C".to_vec()), s0("b")]
}

/// third alphabet: the kinds the other two lack as list items (undefined, bool next to the number it equals,
/// list / tuple / map / plain object items)
fn alphabet_c() -> Vec<S> {
    vec![S::Undef, S::Bool(true), i(1), S::Seq(vec![i(1)]), S::Tuple(vec![i(1)]), S::Map(vec![(s0("a"), i(1))]), S::Plain("p".into())]
}

/// characters of the `chars` form (a string as filter input stands for the list of its characters)
/// strings that differ in what holds them and in trailing / embedded control bytes: inline `a`, inline and heap
/// `a\0`, `a\0\0`, `a\x01`, the safe string `a`, and `A\0` (a case-insensitive tie with `a\0`)
fn alphabet_d() -> Vec<S> {
    vec![s0("a"), s0("a\0"), S::Str("a\0".into(), 1), s0("a\0\0"), s0("a\x01"), S::Str("a".into(), 2), s0("A\0")]
}
const CHARS: [char; 7] = ['b', 'a', 'B', 'é', '1', ' ', 'A'];

fn word_list_in(word: &str, alt: bool) -> Vec<S> {
    let al = if alt { alphabet_b() } else { alphabet() };
    word.bytes().map(|c| al[(c - b'0') as usize].clone()).collect()
}

#[allow(dead_code)]
fn word_list(word: &str) -> Vec<S> {
    let al = alphabet();
    word.bytes().map(|c| al[(c - b'0') as usize].clone()).collect()
}

/// identity of a value for permutation / stability checks: its debug rendering plus integer-ness
fn ident(v: &Value) -> String {
    format!("{:?}/{:?}/{}{}", v, v.kind(), v.is_integer(), if v.is_safe() { "/safe" } else { "" })
}

fn lower_key(v: &Value, cs: bool) -> Value {
    if !cs && v.kind() == minijinja::value::ValueKind::String {
        if let Some(s) = v.as_str() {
            return Value::from(s.to_ascii_lowercase());
        }
    }
    v.clone()
}

/// the order the filter promises, evaluated with the engine's own `Value::cmp`
fn key_cmp(a: &Value, b: &Value, cs: bool) -> Ordering {
    lower_key(a, cs).cmp(&lower_key(b, cs))
}

fn kw(pairs: &[(&'static str, Value)]) -> Kwargs {
    Kwargs::from_iter(pairs.iter().map(|(k, v)| (*k, v.clone())))
}

fn to_vec(v: &Value) -> Result<Vec<Value>, String> {
    v.try_iter().map(|it| it.collect()).map_err(|e| format!("notiter:{:?}", e.kind()))
}

struct FilterCheck<'a, 's, 'e> {
    state: &'a mut State<'s, 'e>,
    fails: Vec<String>,
    n: usize,
}

impl<'a, 's, 'e> FilterCheck<'a, 's, 'e> {
    fn apply(&mut self, name: &str, input: &Value, args: &[Value]) -> Result<Value, String> {
        self.n += 1;
        let state = &mut *self.state;
        let r = guarded(|| {
            let mut all = vec![input.clone()];
            all.extend(args.iter().cloned());
            state.apply_filter(name, &all)
        });
        match r {
            Err(_) => Err("panic".into()),
            Ok(Err(e)) => Err(format!("err:{:?}:{}", e.kind(), e.detail().unwrap_or("").replace(' ', "_"))),
            Ok(Ok(v)) => Ok(v),
        }
    }
    fn fail(&mut self, filter: &str, law: &str, detail: String) {
        self.fails.push(format!("{filter}:{law} {detail}"));
    }
}

fn get_k(v: &Value, wrapped: bool) -> Value {
    if wrapped {
        v.get_attr("k").unwrap_or(Value::UNDEFINED)
    } else {
        v.clone()
    }
}

/// `ys` must be the stable sort of `xs` under `key_cmp` (descending when rev): permutation, ordered,
/// and equal-key items in input order
fn check_sorted(fc: &mut FilterCheck, filter: &str, xs: &[Value], ys: &[Value], wrapped: bool, cs: bool, rev: bool, opts: &str) {
    check_sorted_by(fc, filter, xs, ys, &|v| get_k(v, wrapped), cs, rev, opts)
}

fn check_sorted_by(fc: &mut FilterCheck, filter: &str, xs: &[Value], ys: &[Value], keyf: &dyn Fn(&Value) -> Value, cs: bool, rev: bool, opts: &str) {
    let mut a: Vec<String> = xs.iter().map(ident).collect();
    let mut b: Vec<String> = ys.iter().map(ident).collect();
    a.sort();
    b.sort();
    if a != b {
        fc.fail(filter, "perm", format!("{opts} out={:?}", ys));
        return;
    }
    for w in ys.windows(2) {
        let o = key_cmp(&keyf(&w[0]), &keyf(&w[1]), cs);
        let bad = if rev { o == Ordering::Less } else { o == Ordering::Greater };
        if bad {
            fc.fail(filter, "sorted", format!("{opts} out={:?}", ys));
            return;
        }
    }
    // stability: within every class of equal keys the items appear in input order
    for x in xs {
        let kx = keyf(x);
        let cls_in: Vec<String> = xs.iter().filter(|y| key_cmp(&keyf(y), &kx, cs) == Ordering::Equal).map(ident).collect();
        let cls_out: Vec<String> = ys.iter().filter(|y| key_cmp(&keyf(y), &kx, cs) == Ordering::Equal).map(ident).collect();
        if cls_in != cls_out {
            fc.fail(filter, if rev { "stable-reverse" } else { "stable" }, format!("{opts} out={:?}", ys));
            return;
        }
    }
}

fn is_subsequence(sub: &[String], sup: &[String]) -> bool {
    let mut it = sup.iter();
    sub.iter().all(|x| it.any(|y| y == x))
}

fn check_filters_on(fc: &mut FilterCheck, xs_spec: &[S], form: &str) {
    let wrapped = form == "wrap";
    // the input container
    let mut items: Vec<Value> = if wrapped {
        xs_spec
            .iter()
            .enumerate()
            .map(|(idx, s)| Value::from_pairs([("k", build(s)), ("id", Value::from(idx))]))
            .collect()
    } else {
        xs_spec.iter().map(build).collect()
    };
    let input = match form {
        // a map as filter input stands for the list of its keys (in its own iteration order)
        "keys" => {
            let m = Value::from_pairs(items.iter().cloned().enumerate().map(|(p, k)| (k, Value::from(p))));
            items = m.try_iter().map(|it| it.collect()).unwrap_or_default();
            m
        }
        "oseq" => Value::from_object(OSeqObj(items.clone())),
        // a string as filter input stands for the list of its characters
        "chars" => Value::from(items.iter().map(|v| v.to_string()).collect::<String>()),
        "iter" => {
            let v = items.clone();
            Value::make_object_iterable(v, |v| Box::new(v.iter().filter(|_| true).cloned()))
        }
        "sized" => {
            let v = items.clone();
            Value::make_object_iterable(v, |v| Box::new(v.iter().cloned()))
        }
        "tuple" => Value::from_object(Tuple::new(items.clone())),
        "deque" => Value::from(items.iter().cloned().collect::<std::collections::VecDeque<Value>>()),
        _ => Value::from(items.clone()),
    };
    let idents: Vec<String> = items.iter().map(ident).collect();
    let t = Value::from(true);

    // ---- sort
    for cs in [false, true] {
        for rev in [false, true] {
            let mut kws: Vec<(&'static str, Value)> = vec![];
            if cs {
                kws.push(("case_sensitive", t.clone()));
            }
            if rev {
                kws.push(("reverse", t.clone()));
            }
            if wrapped {
                kws.push(("attribute", Value::from("k")));
            }
            let opts = format!("cs={} rev={} attr={}", cs as u8, rev as u8, wrapped as u8);
            match fc.apply("sort", &input, &[Value::from(kw(&kws))]).and_then(|v| to_vec(&v)) {
                Ok(ys) => check_sorted(fc, "sort", &items, &ys, wrapped, cs, rev, &opts),
                Err(e) => fc.fail("sort", &e, opts),
            }
            if wrapped {
                // composite key "k, id" is a total refinement without ties (ids differ): the result is the one
                // strictly ascending (descending with reverse) arrangement; a composite key is compared as a
                // list, so no case folding inside it
                let kws2: Vec<(&'static str, Value)> =
                    vec![("attribute", Value::from("k, id")), ("case_sensitive", Value::from(cs)), ("reverse", Value::from(rev))];
                let opts2 = format!("attr=k,id rev={}", rev as u8);
                match fc.apply("sort", &input, &[Value::from(kw(&kws2))]).and_then(|v| to_vec(&v)) {
                    Ok(ys) => {
                        let comp = |v: &Value| Value::from(vec![get_k(v, true), v.get_attr("id").unwrap_or(Value::UNDEFINED)]);
                        let mut a: Vec<String> = items.iter().map(ident).collect();
                        let mut b: Vec<String> = ys.iter().map(ident).collect();
                        a.sort();
                        b.sort();
                        if a != b {
                            fc.fail("sort", "multi-perm", format!("{opts2} out={:?}", ys));
                        } else if ys.windows(2).any(|w| comp(&w[0]).cmp(&comp(&w[1])) != if rev { Ordering::Greater } else { Ordering::Less }) {
                            fc.fail("sort", "multi-sorted", format!("{opts2} out={:?}", ys));
                        }
                    }
                    Err(e) => fc.fail("sort", &e, opts2),
                }
            }
        }
    }

    // ---- sort `[item, position]` pairs by the index path "0"
    if !wrapped && form == "plain" {
        let pairs: Vec<Value> = items.iter().enumerate().map(|(p, v)| Value::from(vec![v.clone(), Value::from(p)])).collect();
        for cs in [false, true] {
            for rev in [false, true] {
                let kws: Vec<(&'static str, Value)> =
                    vec![("case_sensitive", Value::from(cs)), ("reverse", Value::from(rev)), ("attribute", Value::from("0"))];
                let opts = format!("cs={} rev={} attr=0", cs as u8, rev as u8);
                match fc.apply("sort", &Value::from(pairs.clone()), &[Value::from(kw(&kws))]).and_then(|v| to_vec(&v)) {
                    Ok(ys) => check_sorted_by(fc, "sort", &pairs, &ys, &|v| v.get_item_by_index(0).unwrap_or(Value::UNDEFINED), cs, rev, &opts),
                    Err(e) => fc.fail("sort", &e, opts),
                }
            }
        }
    }

    // ---- sort by a dotted attribute path on items some of which lack it (missing → undefined)
    if wrapped && !xs_spec.is_empty() {
        let keys: Vec<Value> = xs_spec
            .iter()
            .enumerate()
            .map(|(p, sp)| if p % 3 == 2 || p % 5 == 4 { Value::UNDEFINED } else { build(sp) })
            .collect();
        let nested: Vec<Value> = xs_spec
            .iter()
            .enumerate()
            .map(|(p, sp)| {
                if p % 3 == 2 {
                    Value::from_pairs([("id", Value::from(p))])
                } else if p % 5 == 4 {
                    Value::from_pairs([("a", Value::from(7)), ("id", Value::from(p))])
                } else {
                    Value::from_pairs([("a", Value::from_pairs([("b", build(sp))])), ("id", Value::from(p))])
                }
            })
            .collect();
        for cs in [false, true] {
            for rev in [false, true] {
                let kws: Vec<(&'static str, Value)> =
                    vec![("case_sensitive", Value::from(cs)), ("reverse", Value::from(rev)), ("attribute", Value::from("a.b"))];
                let opts = format!("cs={} rev={} attr=a.b", cs as u8, rev as u8);
                match fc.apply("sort", &Value::from(nested.clone()), &[Value::from(kw(&kws))]).and_then(|v| to_vec(&v)) {
                    Ok(ys) => {
                        let ids: Vec<usize> = ys.iter().map(|y| y.get_attr("id").ok().and_then(|v| v.as_usize()).unwrap_or(usize::MAX)).collect();
                        let mut seen = ids.clone();
                        seen.sort();
                        if seen != (0..nested.len()).collect::<Vec<_>>() {
                            fc.fail("sort", "path-perm", format!("{opts} ids={:?}", ids));
                            continue;
                        }
                        let mut ok = true;
                        let mut stable = true;
                        for w in ids.windows(2) {
                            let o = key_cmp(&keys[w[0]], &keys[w[1]], cs);
                            if if rev { o == Ordering::Less } else { o == Ordering::Greater } {
                                ok = false;
                            }
                            if o == Ordering::Equal && w[0] > w[1] {
                                stable = false;
                            }
                        }
                        if !ok {
                            fc.fail("sort", "path-sorted", format!("{opts} ids={:?}", ids));
                        } else if !stable {
                            fc.fail("sort", "path-stable", format!("{opts} ids={:?}", ids));
                        }
                    }
                    Err(e) => fc.fail("sort", &e, opts),
                }
            }
        }
    }

    // ---- groupby by a dotted path with a default for the items that lack it
    if wrapped && !xs_spec.is_empty() {
        // (`default=none` is the same as no default: the kwarg is an `Option<Value>`)
        let dflt_arg = build(&xs_spec[0]);
        let dflt = if dflt_arg.is_none() { Value::UNDEFINED } else { dflt_arg.clone() };
        let keys: Vec<Value> = xs_spec
            .iter()
            .enumerate()
            .map(|(p, sp)| if p % 3 == 2 || p % 5 == 4 { dflt.clone() } else { let v = build(sp); if v.is_undefined() { dflt.clone() } else { v } })
            .collect();
        let nested: Vec<Value> = xs_spec
            .iter()
            .enumerate()
            .map(|(p, sp)| {
                if p % 3 == 2 {
                    Value::from_pairs([("id", Value::from(p))])
                } else if p % 5 == 4 {
                    Value::from_pairs([("a", Value::from(7)), ("id", Value::from(p))])
                } else {
                    Value::from_pairs([("a", Value::from_pairs([("b", build(sp))])), ("id", Value::from(p))])
                }
            })
            .collect();
        for cs in [false, true] {
            let kws: Vec<(&'static str, Value)> = vec![("case_sensitive", Value::from(cs)), ("default", dflt_arg.clone())];
            let opts = format!("cs={} attr=a.b default", cs as u8);
            match fc.apply("groupby", &Value::from(nested.clone()), &[Value::from("a.b"), Value::from(kw(&kws))]).and_then(|v| to_vec(&v)) {
                Ok(groups) => {
                    let mut ids: Vec<usize> = vec![];
                    let mut groupers: Vec<Value> = vec![];
                    let mut bad: Option<&str> = None;
                    for g in &groups {
                        let gv = to_vec(g).unwrap_or_default();
                        if gv.len() != 2 {
                            bad = Some("path-shape");
                            break;
                        }
                        let members = to_vec(&gv[1]).unwrap_or_default();
                        if members.is_empty() {
                            bad = Some("path-empty-group");
                        }
                        for mbr in &members {
                            let id = mbr.get_attr("id").ok().and_then(|v| v.as_usize()).unwrap_or(usize::MAX);
                            if id >= keys.len() || key_cmp(&keys[id], &gv[0], cs) != Ordering::Equal {
                                bad = Some("path-member-key");
                            }
                            ids.push(id);
                        }
                        if groupers.iter().any(|o| key_cmp(o, &gv[0], cs) == Ordering::Equal) {
                            bad = Some("path-key-in-two-groups");
                        }
                        groupers.push(gv[0].clone());
                    }
                    let mut seen = ids.clone();
                    seen.sort();
                    if bad.is_none() && seen != (0..nested.len()).collect::<Vec<_>>() {
                        bad = Some("path-partition");
                    }
                    if bad.is_none() && ids.windows(2).any(|w| {
                        let o = key_cmp(&keys[w[0]], &keys[w[1]], cs);
                        o == Ordering::Greater || (o == Ordering::Equal && w[0] > w[1])
                    }) {
                        bad = Some("path-stable-sorted");
                    }
                    if let Some(b) = bad {
                        fc.fail("groupby", b, format!("{opts} ids={:?}", ids));
                    }
                }
                Err(e) => fc.fail("groupby", &e, opts),
            }
        }
    }

    // ---- unique
    for cs in [false, true] {
        let mut kws: Vec<(&'static str, Value)> = vec![];
        if cs {
            kws.push(("case_sensitive", t.clone()));
        }
        if wrapped {
            kws.push(("attribute", Value::from("k")));
        }
        let opts = format!("cs={} attr={}", cs as u8, wrapped as u8);
        match fc.apply("unique", &input, &[Value::from(kw(&kws))]).and_then(|v| to_vec(&v)) {
            Ok(ys) => {
                let out: Vec<String> = ys.iter().map(ident).collect();
                // expected: the first occurrence of every key class, in input order
                let mut exp: Vec<String> = vec![];
                let mut seen: Vec<Value> = vec![];
                for x in &items {
                    let k = get_k(x, wrapped);
                    if !seen.iter().any(|s| key_cmp(s, &k, cs) == Ordering::Equal) {
                        seen.push(k);
                        exp.push(ident(x));
                    }
                }
                if !is_subsequence(&out, &idents) {
                    fc.fail("unique", "subsequence", format!("{opts} out={:?}", ys));
                } else if ys.iter().enumerate().any(|(p, y)| {
                    ys[..p].iter().any(|z| key_cmp(&get_k(z, wrapped), &get_k(y, wrapped), cs) == Ordering::Equal)
                }) {
                    fc.fail("unique", "nodup", format!("{opts} out={:?}", ys));
                } else if out != exp {
                    fc.fail("unique", "first-occurrence", format!("{opts} out={:?}", ys));
                }
            }
            Err(e) => fc.fail("unique", &e, opts),
        }
    }

    // ---- groupby (needs an attribute)
    if wrapped {
        for cs in [false, true] {
            let kws: Vec<(&'static str, Value)> = vec![("case_sensitive", Value::from(cs))];
            let opts = format!("cs={}", cs as u8);
            match fc.apply("groupby", &input, &[Value::from("k"), Value::from(kw(&kws))]).and_then(|v| to_vec(&v)) {
                Ok(groups) => {
                    let mut flat: Vec<Value> = vec![];
                    let mut groupers: Vec<Value> = vec![];
                    let mut bad = None;
                    for g in &groups {
                        let gv = match to_vec(g) {
                            Ok(x) if x.len() == 2 => x,
                            _ => {
                                bad = Some("shape");
                                break;
                            }
                        };
                        let members = match to_vec(&gv[1]) {
                            Ok(m) => m,
                            Err(_) => {
                                bad = Some("shape");
                                break;
                            }
                        };
                        if members.is_empty() {
                            bad = Some("empty-group");
                        }
                        for mbr in &members {
                            if key_cmp(&get_k(mbr, true), &gv[0], cs) != Ordering::Equal {
                                bad = Some("member-key");
                            }
                        }
                        if groupers.iter().any(|o| key_cmp(o, &gv[0], cs) == Ordering::Equal) {
                            bad = Some("key-in-two-groups");
                        }
                        groupers.push(gv[0].clone());
                        flat.extend(members);
                    }
                    if let Some(b) = bad {
                        fc.fail("groupby", b, format!("{opts} out={:?}", groups));
                    } else {
                        // the concatenation of the groups is the stable sort by key
                        check_sorted(fc, "groupby", &items, &flat, true, cs, false, &opts);
                    }
                }
                Err(e) => fc.fail("groupby", &e, opts),
            }
        }
    }

    // ---- reverse / first / last / min / max / list
    match fc.apply("reverse", &input, &[]).and_then(|v| to_vec(&v)) {
        Ok(ys) => {
            let mut r: Vec<String> = ys.iter().map(ident).collect();
            r.reverse();
            if r != idents {
                fc.fail("reverse", "is-reversal", format!("out={:?}", ys));
            }
        }
        Err(e) => fc.fail("reverse", &e, String::new()),
    }
    match fc.apply("reverse", &input, &[]).and_then(|v| fc.apply("reverse", &v, &[])).and_then(|v| to_vec(&v)) {
        Ok(ys) => {
            if ys.iter().map(ident).collect::<Vec<_>>() != idents {
                fc.fail("reverse", "involution", format!("out={:?}", ys));
            }
        }
        Err(e) => fc.fail("reverse", &e, "twice".into()),
    }
    match fc.apply("first", &input, &[]) {
        Ok(v) => {
            let exp = items.first().map(ident).unwrap_or_else(|| ident(&Value::UNDEFINED));
            if ident(&v) != exp {
                fc.fail("first", "is-first", format!("out={:?}", v));
            }
        }
        Err(e) => fc.fail("first", &e, String::new()),
    }
    match fc.apply("last", &input, &[]) {
        Ok(v) => {
            let exp = items.last().map(ident).unwrap_or_else(|| ident(&Value::UNDEFINED));
            if ident(&v) != exp {
                fc.fail("last", "is-last", format!("out={:?}", v));
            }
        }
        // (`last` promises an answer for sequences, iterables and strings only)
        Err(e) if form == "keys" && e != "panic" => {}
        Err(e) => fc.fail("last", &e, String::new()),
    }
    for (name, want) in [("min", Ordering::Greater), ("max", Ordering::Less)] {
        match fc.apply(name, &input, &[]) {
            Ok(v) => {
                if items.is_empty() {
                    if !v.is_undefined() {
                        fc.fail(name, "empty", format!("out={:?}", v));
                    }
                } else if !idents.contains(&ident(&v)) {
                    fc.fail(name, "member", format!("out={:?}", v));
                } else if items.iter().any(|x| v.cmp(x) == want) {
                    fc.fail(name, "bound", format!("out={:?}", v));
                }
            }
            Err(e) => fc.fail(name, &e, String::new()),
        }
    }

    // ---- batch / slice: concatenation and run lengths
    let n = items.len();
    let fill = Value::from("FILL");
    for count in [1usize, 2, 3, 4, 5, 6, 7] {
        for with_fill in [false, true] {
            let mut args = vec![Value::from(count)];
            if with_fill {
                args.push(fill.clone());
            }
            let opts = format!("count={count} fill={}", with_fill as u8);
            // batch
            match fc.apply("batch", &input, &args).and_then(|v| to_vec(&v)) {
                Ok(runs) => {
                    let runs: Vec<Vec<Value>> = runs.iter().map(|r| to_vec(r).unwrap_or_default()).collect();
                    let flat: Vec<String> = runs.iter().flatten().map(ident).collect();
                    let body = &flat[..flat.len().min(n)];
                    let pad = &flat[flat.len().min(n)..];
                    let lens: Vec<usize> = runs.iter().map(|r| r.len()).collect();
                    let want_runs = (n + count - 1) / count;
                    if body != &idents[..] {
                        fc.fail("batch", "concat", format!("{opts} out={:?}", runs));
                    } else if pad.iter().any(|p| *p != ident(&fill)) || (!with_fill && !pad.is_empty()) {
                        fc.fail("batch", "fill", format!("{opts} out={:?}", runs));
                    } else if lens.len() != want_runs
                        || lens.iter().enumerate().any(|(k, l)| {
                            let full = *l == count;
                            let last = k + 1 == lens.len();
                            if with_fill { !full } else { !(full || (last && *l == n - count * k && *l > 0)) }
                        })
                    {
                        fc.fail("batch", "lengths", format!("{opts} lens={:?}", lens));
                    }
                }
                Err(e) => fc.fail("batch", &e, opts.clone()),
            }
            // slice
            match fc.apply("slice", &input, &args).and_then(|v| to_vec(&v)) {
                Ok(runs) => {
                    let runs: Vec<Vec<Value>> = runs.iter().map(|r| to_vec(r).unwrap_or_default()).collect();
                    // with a fill value the short runs end in one filler
                    let extra = n % count;
                    let mut flat: Vec<String> = vec![];
                    let mut lens: Vec<usize> = vec![];
                    let mut fill_ok = true;
                    for (k, r) in runs.iter().enumerate() {
                        let mut r: Vec<String> = r.iter().map(ident).collect();
                        if with_fill && k >= extra {
                            if r.pop() != Some(ident(&fill)) {
                                fill_ok = false;
                            }
                        }
                        lens.push(r.len());
                        flat.extend(r);
                    }
                    let mx = lens.iter().max().copied().unwrap_or(0);
                    let mn = lens.iter().min().copied().unwrap_or(0);
                    if flat != idents {
                        fc.fail("slice", "concat", format!("{opts} out={:?}", runs));
                    } else if !fill_ok {
                        fc.fail("slice", "fill", format!("{opts} out={:?}", runs));
                    } else if runs.len() != count || mx - mn > 1 || lens.windows(2).any(|w| w[0] < w[1]) {
                        fc.fail("slice", "lengths", format!("{opts} lens={:?}", lens));
                    }
                }
                Err(e) => fc.fail("slice", &e, opts),
            }
        }
    }
}

/// dictsort over maps built from the word (keys = alphabet items, values = positions / reversed)
fn check_dictsort(fc: &mut FilterCheck, xs_spec: &[S]) {
    let n = xs_spec.len();
    let pairs: Vec<(Value, Value)> = xs_spec.iter().enumerate().map(|(p, s)| (build(s), Value::from((n - p) % 3))).collect();
    let input = Value::from_pairs(pairs.iter().cloned());
    let t = Value::from(true);
    // what the map really holds, in its iteration order
    let held: Vec<(Value, Value)> = match input.as_object().and_then(|o| o.try_iter_pairs()) {
        Some(it) => it.collect(),
        None => return,
    };
    let held_items: Vec<Value> = held.iter().map(|(k, v)| Value::from_object(Tuple::new(vec![k.clone(), v.clone()]))).collect();
    for cs in [false, true] {
        for rev in [false, true] {
            for by_value in [false, true] {
                let mut kws: Vec<(&'static str, Value)> = vec![];
                if cs {
                    kws.push(("case_sensitive", t.clone()));
                }
                if rev {
                    kws.push(("reverse", t.clone()));
                }
                if by_value {
                    kws.push(("by", Value::from("value")));
                }
                let opts = format!("cs={} rev={} by_value={}", cs as u8, rev as u8, by_value as u8);
                match fc.apply("dictsort", &input, &[Value::from(kw(&kws))]).and_then(|v| to_vec(&v)) {
                    Ok(ys) => {
                        // reuse the sort check on [k, v] pairs keyed by position 0 / 1
                        let keyed = |v: &Value| -> Value {
                            let kv = to_vec(v).unwrap_or_default();
                            kv.get(by_value as usize).cloned().unwrap_or(Value::UNDEFINED)
                        };
                        let xs2: Vec<Value> = held_items.clone();
                        let mut a: Vec<String> = xs2.iter().map(ident).collect();
                        let mut b: Vec<String> = ys.iter().map(ident).collect();
                        let (a0, b0) = (a.clone(), b.clone());
                        a.sort();
                        b.sort();
                        if a != b {
                            fc.fail("dictsort", "perm", format!("{opts} out={:?}", ys));
                            continue;
                        }
                        let mut ok = true;
                        for w in ys.windows(2) {
                            let o = key_cmp(&keyed(&w[0]), &keyed(&w[1]), cs);
                            if if rev { o == Ordering::Less } else { o == Ordering::Greater } {
                                ok = false;
                            }
                        }
                        if !ok {
                            fc.fail("dictsort", "sorted", format!("{opts} out={:?}", ys));
                            continue;
                        }
                        for x in &xs2 {
                            let kx = keyed(x);
                            let ci: Vec<&String> = xs2.iter().zip(&a0).filter(|(y, _)| key_cmp(&keyed(y), &kx, cs) == Ordering::Equal).map(|(_, s)| s).collect();
                            let co: Vec<&String> = ys.iter().zip(&b0).filter(|(y, _)| key_cmp(&keyed(y), &kx, cs) == Ordering::Equal).map(|(_, s)| s).collect();
                            if ci != co {
                                fc.fail("dictsort", "stable", format!("{opts} out={:?}", ys));
                                break;
                            }
                        }
                    }
                    Err(e) => fc.fail("dictsort", &e, opts),
                }
            }
        }
    }
}

fn run_flist(env: &Environment<'static>, form: &str, word: &str) -> String {
    // forms ending in `B` / `C` draw from the second / third alphabet
    let alt = form.ends_with('B');
    let xs = if form.ends_with('C') {
        let al = alphabet_c();
        word.bytes().map(|c| al[(c - b'0') as usize].clone()).collect()
    } else if form.ends_with('D') {
        let al = alphabet_d();
        word.bytes().map(|c| al[(c - b'0') as usize].clone()).collect()
    } else if form == "chars" {
        word.bytes().map(|c| S::Str(CHARS[(c - b'0') as usize].to_string(), 0)).collect()
    } else {
        word_list_in(word, alt)
    };
    let form = form.trim_end_matches('B').trim_end_matches('C').trim_end_matches('D');
    let tmpl = env.template_from_str("").unwrap();
    let mut state = tmpl.new_state();
    let mut fc = FilterCheck { state: &mut state, fails: vec![], n: 0 };
    if form == "dict" {
        check_dictsort(&mut fc, &xs);
    } else {
        check_filters_on(&mut fc, &xs, form);
    }
    if fc.fails.is_empty() {
        format!("ok {}", fc.n)
    } else {
        format!("FAIL {} {}", fc.n, fc.fails.join(" || "))
    }
}

/// run lengths of batch / slice for a list 0..len (compared with the Lean model)
fn run_runs(env: &Environment<'static>, which: &str, len: usize, count: &str, fill: bool) -> String {
    let input = Value::from((0..len as i64).collect::<Vec<_>>());
    let count_v: Value = match count.parse::<u64>() {
        Ok(c) => Value::from(c),
        Err(_) => Value::from(count.parse::<i128>().unwrap()),
    };
    let mut args = vec![input, count_v];
    if fill {
        args.push(Value::from(-1i64));
    }
    let r = guarded(|| {
        let tmpl = env.template_from_str("").unwrap();
        let mut state = tmpl.new_state();
        state.apply_filter(if which == "batch" { "batch" } else { "slice" }, &args)
    });
    match r {
        Err(_) => "panic".into(),
        Ok(Err(e)) => format!("err:{:?}", e.kind()),
        Ok(Ok(v)) => {
            let runs = to_vec(&v).unwrap_or_default();
            let txt: Vec<String> = runs
                .iter()
                .map(|r| to_vec(r).unwrap_or_default().iter().map(|x| x.to_string()).collect::<Vec<_>>().join("."))
                .collect();
            format!("ok:{}", txt.join(","))
        }
    }
}

// ------------------------------------------------------------------------------------------ lookups

/// every way to ask a map for a key.  All of them must answer "some key of the map is == probe".
const LK_ENTRIES: [&str; 21] = [
    "get_item", "subscript", "in", "iter-keys", "items", "dictsort", "get_attr", "dot", "get_path", "map-attr",
    "selectattr", "rejectattr", "groupby", "sort-attr", "unique-attr", "get_item_by_index", "context-var",
    "py-get", "py-keys", "py-items", "attr-filter",
];
/// the map types behind the `lk` cases
const LK_BACKINGS: [&str; 13] = ["vm", "hm", "bts", "hms", "arc", "obj", "ser", "sts", "hsts", "ctx", "mrg", "mrg2", "ns"];
/// entry counts on both sides of the small-map scans (`<= 8` for `&'static str` keys, `<= 12` for value keys)
const LK_SIZES: [usize; 7] = [1, 2, 8, 9, 12, 13, 20];

#[derive(Debug)]
struct StrObj(Vec<(String, Value)>);
impl Object for StrObj {
    fn repr(self: &Arc<Self>) -> ObjectRepr {
        ObjectRepr::Map
    }
    // a strict user object: only string values are keys; `get_value_by_str` is the trait's default
    fn get_value(self: &Arc<Self>, key: &Value) -> Option<Value> {
        if key.kind() != minijinja::value::ValueKind::String {
            return None;
        }
        let k = key.as_str()?;
        self.0.iter().find(|(n, _)| n == k).map(|(_, v)| v.clone())
    }
    fn enumerate(self: &Arc<Self>) -> Enumerator {
        Enumerator::Values(self.0.iter().map(|(n, _)| Value::from(n.as_str())).collect())
    }
}

fn lk_keys() -> Vec<S> {
    let s23 = "abcdefghijklmnopqrstuvw";
    vec![
        s0("abc"), S::Str("abc".into(), 1), S::Str("abc".into(), 2), S::Bytes(b"abc".to_vec()), s0("a b"), s0("1"),
        S::Bytes(b"1".to_vec()), i(1), S::U64(1), fbits(1.0), S::Bool(true), S::None, s0(""), S::Bytes(vec![]),
        s0("True"), S::Str(s23.into(), 0), S::Bytes(s23.as_bytes().to_vec()), S::Bytes(vec![0xff]), i(0), S::Bool(false),
        // a string with a trailing NUL, inline and on the heap: `abc` is a prefix of it
        s0("abc\0"), S::Str("abc\0".into(), 1),
    ]
}

fn is_ident(s: &str) -> bool {
    !s.is_empty()
        && s.chars().all(|c| c.is_ascii_alphanumeric() || c == '_')
        && !s.chars().next().unwrap().is_ascii_digit()
        && !["true", "True", "false", "False", "none", "None", "in", "is", "not", "and", "or", "if", "else", "loop", "self"].contains(&s)
}

fn lk_map(backing: &str, n: usize, k: &Value, marker: Value) -> Option<Value> {
    use std::collections::{BTreeMap, HashMap};
    let fill = |i: usize| format!("~f{i}");
    match backing {
        "vm" => {
            let mut ps = vec![(k.clone(), marker)];
            ps.extend((1..n).map(|i| (Value::from(fill(i)), Value::from(i))));
            Some(Value::from_pairs(ps))
        }
        "hm" => {
            let mut m: HashMap<Value, Value> = HashMap::new();
            m.insert(k.clone(), marker);
            for i in 1..n {
                m.insert(Value::from(fill(i)), Value::from(i));
            }
            Some(Value::from(m))
        }
        _ => {
            if k.kind() != minijinja::value::ValueKind::String {
                return None;
            }
            let ks = k.as_str()?.to_string();
            match backing {
                "bts" => {
                    let mut m: BTreeMap<String, Value> = BTreeMap::new();
                    m.insert(ks, marker);
                    for i in 1..n {
                        m.insert(fill(i), Value::from(i));
                    }
                    Some(Value::from(m))
                }
                "hms" => {
                    let mut m: HashMap<String, Value> = HashMap::new();
                    m.insert(ks, marker);
                    for i in 1..n {
                        m.insert(fill(i), Value::from(i));
                    }
                    Some(Value::from(m))
                }
                "arc" => {
                    let mut m: BTreeMap<Arc<str>, Value> = BTreeMap::new();
                    m.insert(Arc::from(ks.as_str()), marker);
                    for i in 1..n {
                        m.insert(Arc::from(fill(i).as_str()), Value::from(i));
                    }
                    Some(Value::from(m))
                }
                "obj" => {
                    let mut v = vec![(ks, marker)];
                    v.extend((1..n).map(|i| (fill(i), Value::from(i))));
                    Some(Value::from_object(StrObj(v)))
                }
                "ser" => {
                    let mut m: BTreeMap<String, i64> = BTreeMap::new();
                    m.insert(ks, marker.as_i64().unwrap_or(777));
                    for i in 1..n {
                        m.insert(fill(i), i as i64);
                    }
                    Some(Value::from(minijinja::value::Serde(&m)))
                }
                // maps keyed by `&'static str` (their own `Object` impl with its own small-map scan)
                "sts" => {
                    let mut m: BTreeMap<&'static str, Value> = BTreeMap::new();
                    m.insert(leak(&ks), marker);
                    for i in 1..n {
                        m.insert(leak(&fill(i)), Value::from(i));
                    }
                    Some(Value::from_object(m))
                }
                "hsts" => {
                    let mut m: HashMap<&'static str, Value> = HashMap::new();
                    m.insert(leak(&ks), marker);
                    for i in 1..n {
                        m.insert(leak(&fill(i)), Value::from(i));
                    }
                    Some(Value::from_object(m))
                }
                // what the `context!` macro builds (its expansion calls exactly these functions)
                "ctx" => {
                    let mut c = minijinja::__context::make();
                    minijinja::__context::add(&mut c, leak(&ks), marker);
                    for i in 1..n {
                        minijinja::__context::add(&mut c, leak(&fill(i)), Value::from(i));
                    }
                    Some(minijinja::__context::build(c))
                }
                // `context! { ..a, ..b }` / `merge_maps`: the key sits in the first or in the last of three maps
                "mrg" | "mrg2" => {
                    let mut with_key: BTreeMap<String, Value> = BTreeMap::new();
                    with_key.insert(ks, marker);
                    let mut rest: BTreeMap<String, Value> = BTreeMap::new();
                    for i in 1..n {
                        rest.insert(fill(i), Value::from(i));
                    }
                    let empty: BTreeMap<String, Value> = BTreeMap::new();
                    let parts = if backing == "mrg" {
                        vec![Value::from(with_key), Value::from(rest), Value::from(empty)]
                    } else {
                        vec![Value::from(empty), Value::from(rest), Value::from(with_key)]
                    };
                    Some(minijinja::value::merge_maps(parts))
                }
                // the engine's `namespace(..)` object
                "ns" => {
                    let mut ps = vec![(Value::from(ks), marker)];
                    ps.extend((1..n).map(|i| (Value::from(fill(i)), Value::from(i))));
                    let env = Environment::new();
                    env.compile_expression("namespace(d)").ok()?.eval(context! { d => Value::from_pairs(ps) }).ok()
                }
                _ => None,
            }
        }
    }
}

/// a `&'static str` for the maps keyed by one (a few hundred short strings per run)
fn leak(s: &str) -> &'static str {
    Box::leak(s.to_string().into_boxed_str())
}

fn flag(r: Result<Result<bool, ()>, String>) -> char {
    match r {
        Err(_) => 'P',
        Ok(Err(())) => 'e',
        Ok(Ok(true)) => '1',
        Ok(Ok(false)) => '0',
    }
}

fn render_flag(env: &Environment<'static>, src: &str, ctx: Value) -> char {
    flag(guarded(|| match env.render_str(src, ctx) {
        Ok(s) => Ok(s == "1"),
        Err(_) => Err(()),
    }))
}

fn run_lk(env: &Environment<'static>, backing: &str, n: usize, ks: &S, ps: &S) -> Option<String> {
    let k = build(ks);
    let p = build(ps);
    let marker = Value::from(777i64);
    let m = lk_map(backing, n, &k, marker.clone())?;
    let expected = guarded(|| k == p).unwrap_or(false);
    let is_marker = |v: &Value| v.as_i64() == Some(777);
    let p_is_string = p.kind() == minijinja::value::ValueKind::String;
    let pstr: Option<String> = if p_is_string { p.as_str().map(|x| x.to_string()) } else { None };
    // dotted paths treat all-digit parts as indexes and split at dots: attribute names proper only
    let attr_name: Option<String> = pstr.clone().filter(|t| t.parse::<usize>().is_err() && !t.contains('.') && !t.contains(','));
    let mut out = String::new();
    for entry in LK_ENTRIES {
        let c = match entry {
            "get_item" => flag(guarded(|| m.get_item(&p).map(|v| is_marker(&v)).map_err(|_| ()))),
            "subscript" => render_flag(env, "{{ 1 if m[p] == 777 else 0 }}", context! { m => m.clone(), p => p.clone() }),
            "in" => render_flag(env, "{{ 1 if p in m else 0 }}", context! { m => m.clone(), p => p.clone() }),
            "iter-keys" => flag(guarded(|| m.try_iter().map(|mut it| it.any(|x| x == p)).map_err(|_| ()))),
            "items" => render_flag(
                env,
                "{% set ns = namespace(f=0) %}{% for a, b in m|items %}{% if a == p and b == 777 %}{% set ns.f = 1 %}{% endif %}{% endfor %}{{ ns.f }}",
                context! { m => m.clone(), p => p.clone() },
            ),
            "dictsort" => render_flag(
                env,
                "{% set ns = namespace(f=0) %}{% for a, b in m|dictsort %}{% if a == p and b == 777 %}{% set ns.f = 1 %}{% endif %}{% endfor %}{{ ns.f }}",
                context! { m => m.clone(), p => p.clone() },
            ),
            "get_attr" => match &pstr {
                Some(t) => flag(guarded(|| m.get_attr(t).map(|v| is_marker(&v)).map_err(|_| ()))),
                None => '-',
            },
            "py-get" => render_flag(env, "{{ 1 if m.get(p) == 777 else 0 }}", context! { m => m.clone(), p => p.clone() }),
            "py-keys" => render_flag(env, "{{ 1 if p in (m.keys()|list) else 0 }}", context! { m => m.clone(), p => p.clone() }),
            "py-items" => render_flag(
                env,
                "{% set ns = namespace(f=0) %}{% for a, b in m.items() %}{% if a == p and b == 777 %}{% set ns.f = 1 %}{% endif %}{% endfor %}{{ ns.f }}",
                context! { m => m.clone(), p => p.clone() },
            ),
            "attr-filter" => render_flag(env, "{{ 1 if (m|attr(p)) == 777 else 0 }}", context! { m => m.clone(), p => p.clone() }),
            "dot" => match &pstr {
                Some(t) if is_ident(t) => render_flag(env, &format!("{{{{ 1 if m.{t} == 777 else 0 }}}}"), context! { m => m.clone() }),
                _ => '-',
            },
            "context-var" => match &pstr {
                // the map itself as the render context: a bare variable is an attribute lookup on it
                Some(t) if is_ident(t) && t != "m" && t != "p" => render_flag(env, &format!("{{{{ 1 if {t} == 777 else 0 }}}}"), m.clone()),
                _ => '-',
            },
            "get_item_by_index" => match p.as_usize() {
                Some(ix) if p.is_integer() && ix < 100 => flag(guarded(|| m.get_item_by_index(ix).map(|v| is_marker(&v)).map_err(|_| ()))),
                _ => '-',
            },
            _ => match &attr_name {
                None => '-',
                Some(t) => {
                    let ctx = context! { m => m.clone(), a => t.clone(),
                        other => Value::from_pairs([(Value::from(t.as_str()), Value::from(500i64))]) };
                    match entry {
                        "get_path" => render_flag(env, "{{ 1 if ([m]|map(attribute=a)|first) == 777 else 0 }}", ctx),
                        "map-attr" => render_flag(env, "{{ 1 if ([m]|map(attribute=a, default=0)|first) == 777 else 0 }}", ctx),
                        "selectattr" => render_flag(env, "{{ 1 if ([m]|selectattr(a)|list|length) == 1 else 0 }}", ctx),
                        "rejectattr" => render_flag(env, "{{ 1 if ([m]|rejectattr(a)|list|length) == 0 else 0 }}", ctx),
                        "groupby" => render_flag(env, "{{ 1 if ([m]|groupby(a, default=0)|first|first) == 777 else 0 }}", ctx),
                        // `other` really has the attribute (500): `m` sorts after it iff it has it too (777), before it if undefined
                        "sort-attr" => render_flag(env, "{{ 1 if ([m, other]|sort(attribute=a)|last) == m else 0 }}", ctx),
                        // two copies of `m` and `other`: with the attribute there are two key classes, else `m` is undefined
                        "unique-attr" => render_flag(env, "{{ 1 if ([m, other, m]|unique(attribute=a)|map(attribute=a)|list) == [777, 500] else 0 }}", ctx),
                        _ => '?',
                    }
                }
            },
        };
        out.push(c);
    }
    Some(format!("{} {}", expected as u8, out))
}

// ------------------------------------------------------------------------------------------ reverse / first / last on every enumerator shape

#[derive(Debug)]
struct StrKeysObj;
impl Object for StrKeysObj {
    fn repr(self: &Arc<Self>) -> ObjectRepr {
        ObjectRepr::Map
    }
    fn get_value(self: &Arc<Self>, key: &Value) -> Option<Value> {
        match key.as_str()? {
            "alpha" => Some(Value::from(1)),
            "beta" => Some(Value::from(2)),
            "gamma" => Some(Value::from(3)),
            _ => None,
        }
    }
    fn enumerate(self: &Arc<Self>) -> Enumerator {
        Enumerator::Str(&["alpha", "beta", "gamma"])
    }
}

#[derive(Debug)]
struct EmptyObj;
impl Object for EmptyObj {
    fn repr(self: &Arc<Self>) -> ObjectRepr {
        ObjectRepr::Seq
    }
    fn enumerate(self: &Arc<Self>) -> Enumerator {
        Enumerator::Empty
    }
}

const REV_SHAPES: [&str; 21] = [
    "vec", "tuple", "iter", "sized", "once", "deque", "llist", "bset", "hset", "vmap", "hmap", "bstrmap", "hstrmap", "omap",
    "oseq", "strkeys", "empty", "plain", "string", "safestring", "bytes",
];

/// the built-in shapes plus user objects (`h<cfg>`, see `HintObj`) of every repr × enumerator variant, with an
/// exact size hint and, for the iterator-backed variants, with no size hint
fn rev_shapes() -> Vec<String> {
    let mut out: Vec<String> = REV_SHAPES.iter().map(|s| s.to_string()).collect();
    for (r, vars) in [("s", "qvtrkje"), ("m", "kjvtre"), ("i", "vtrkje")] {
        for v in vars.chars() {
            out.push(format!("h{r}{v}xd"));
            if "trkj".contains(v) {
                out.push(format!("h{r}{v}ud"));
            }
        }
    }
    out
}

/// the enumerator variant behind each shape: Seq, Iter, RevIter, KeyValueIter, RevKeyValueIter, Values, Str, Empty,
/// NonEnumerable, plus the string / bytes special cases of `reverse` / `first` / `last`
fn rev_container(shape: &str, items: &[Value], word: &str) -> Value {
    use std::collections::{BTreeMap, BTreeSet, HashMap, HashSet, LinkedList, VecDeque};
    let v = items.to_vec();
    match shape {
        "vec" => Value::from(v),
        "tuple" => Value::from_object(Tuple::new(v)),
        "iter" => Value::make_object_iterable(v, |v| Box::new(v.iter().filter(|_| true).cloned())),
        "sized" => Value::make_object_iterable(v, |v| Box::new(v.iter().cloned())),
        "once" => Value::make_one_shot_iterator(v.into_iter()),
        "deque" => Value::from(v.into_iter().collect::<VecDeque<Value>>()),
        "llist" => Value::from_object(v.into_iter().collect::<LinkedList<Value>>()),
        "bset" => Value::from_object(v.into_iter().collect::<BTreeSet<Value>>()),
        "hset" => Value::from_object(v.into_iter().collect::<HashSet<Value>>()),
        "vmap" => Value::from_pairs(v.into_iter().enumerate().map(|(p, k)| (k, Value::from(p)))),
        "hmap" => Value::from(v.into_iter().enumerate().map(|(p, k)| (k, Value::from(p))).collect::<HashMap<Value, Value>>()),
        "bstrmap" => Value::from(word.chars().enumerate().map(|(p, c)| (format!("k{c}{p}"), Value::from(p))).collect::<BTreeMap<String, Value>>()),
        "hstrmap" => Value::from(word.chars().enumerate().map(|(p, c)| (format!("k{c}{p}"), Value::from(p))).collect::<HashMap<String, Value>>()),
        "omap" => Value::from_object(OMapObj(v.into_iter().enumerate().map(|(p, k)| (Value::from(format!("{p}:{k:?}")), Value::from(p))).collect())),
        "oseq" => Value::from_object(OSeqObj(v)),
        "strkeys" => Value::from_object(StrKeysObj),
        "empty" => Value::from_object(EmptyObj),
        h if h.len() == 5 && h.starts_with('h') => {
            let c = h.as_bytes();
            Value::from_object(HintObj { cfg: [c[1], c[2], c[3], c[4]], pairs: v.into_iter().enumerate().map(|(p, k)| (k, Value::from(p))).collect() })
        }
        "plain" => Value::from_object(PlainObj(word.to_string())),
        "string" => Value::from(word.chars().map(|c| char::from(b'a' + (c as u8 - b'0'))).collect::<String>() + "é"),
        "safestring" => Value::from_safe_string(word.chars().map(|c| char::from(b'a' + (c as u8 - b'0'))).collect::<String>()),
        _ => Value::from_bytes(word.bytes().collect()),
    }
}

fn run_rev(env: &Environment<'static>, shape: &str, word: &str) -> String {
    let items: Vec<Value> = word_list_in(word, false).iter().map(build).collect();
    // one instance (hash based collections iterate in an order of their own), except for the one-shot iterator
    let proto = rev_container(shape, &items, word);
    let mk = || if shape == "once" { rev_container(shape, &items, word) } else { proto.clone() };
    let tmpl = env.template_from_str("").unwrap();
    let mut state = tmpl.new_state();
    let mut fc = FilterCheck { state: &mut state, fails: vec![], n: 0 };
    // the reference order: what iterating the value itself yields (chars for strings, bytes have no iteration)
    let c0 = mk();
    let base: Option<Vec<String>> = if shape == "bytes" {
        None
    } else if let Some(sv) = c0.as_str().filter(|_| c0.kind() == minijinja::value::ValueKind::String) {
        Some(sv.chars().map(|ch| ident(&Value::from(ch))).collect())
    } else {
        c0.try_iter().ok().map(|it| it.map(|x| ident(&x)).collect())
    };
    let strlike = shape == "string" || shape == "safestring";
    let as_list = |v: &Value| -> Result<Vec<String>, String> {
        if let Some(sv) = v.as_str().filter(|_| v.kind() == minijinja::value::ValueKind::String) {
            Ok(sv.chars().map(|ch| ident(&Value::from(ch))).collect())
        } else {
            to_vec(v).map(|xs| xs.iter().map(ident).collect())
        }
    };
    match &base {
        None => {
            // not iterable (plain object) or bytes: `reverse` of bytes reverses the bytes, anything else must be an error, never a panic
            match fc.apply("reverse", &mk(), &[]) {
                Ok(v) if shape == "bytes" => {
                    let mut b: Vec<u8> = word.bytes().collect();
                    b.reverse();
                    if v.as_bytes() != Some(&b[..]) {
                        fc.fail("reverse", "bytes", format!("out={:?}", v));
                    }
                    match fc.apply("reverse", &v, &[]) {
                        Ok(w) if w.as_bytes() == Some(word.as_bytes()) => {}
                        other => fc.fail("reverse", "involution", format!("out={:?}", other)),
                    }
                }
                Ok(v) => fc.fail("reverse", "not-iterable-but-ok", format!("out={:?}", v)),
                Err(e) if e == "panic" => fc.fail("reverse", "panic", String::new()),
                Err(_) => {}
            }
            for name in ["first", "last"] {
                if let Err(e) = fc.apply(name, &mk(), &[]) {
                    if e == "panic" {
                        fc.fail(name, "panic", String::new());
                    }
                }
            }
        }
        Some(base) => {
            let mut rbase = base.clone();
            rbase.reverse();
            match fc.apply("reverse", &mk(), &[]).and_then(|v| as_list(&v)) {
                Ok(r) => {
                    if r != rbase {
                        fc.fail("reverse", "is-reversal", format!("base={:?} out={:?}", base, r));
                    }
                }
                Err(e) => fc.fail("reverse", &e, String::new()),
            }
            match fc.apply("reverse", &mk(), &[]).and_then(|v| fc.apply("reverse", &v, &[])).and_then(|v| as_list(&v)) {
                Ok(r) => {
                    if &r != base {
                        fc.fail("reverse", "involution", format!("base={:?} out={:?}", base, r));
                    }
                }
                Err(e) => fc.fail("reverse", &e, "twice".into()),
            }
            // a reversed view can be walked twice
            if shape != "once" {
                if let Ok(v) = fc.apply("reverse", &mk(), &[]) {
                    let a = as_list(&v);
                    let b2 = as_list(&v);
                    if a != b2 {
                        fc.fail("reverse", "second-walk-differs", format!("first={:?} second={:?}", a, b2));
                    }
                }
            }
            let undef = ident(&Value::UNDEFINED);
            match fc.apply("first", &mk(), &[]) {
                Ok(v) => {
                    if &ident(&v) != base.first().unwrap_or(&undef) {
                        fc.fail("first", "is-first", format!("base={:?} out={:?}", base, v));
                    }
                }
                Err(e) => fc.fail("first", &e, String::new()),
            }
            match fc.apply("last", &mk(), &[]) {
                Ok(v) => {
                    let got = if strlike && !v.is_undefined() { ident(&Value::from(v.as_str().unwrap_or("?"))) } else { ident(&v) };
                    let want = if strlike { base.last().map(|_| ident(&Value::from(c0.as_str().unwrap().chars().last().unwrap().to_string()))).unwrap_or(undef.clone()) } else { base.last().cloned().unwrap_or(undef.clone()) };
                    // maps are not sequences: `last` only promises an answer for sequences, iterables and strings
                    let is_seqlike = matches!(mk().kind(), minijinja::value::ValueKind::Seq | minijinja::value::ValueKind::Iterable | minijinja::value::ValueKind::String);
                    if is_seqlike && got != want {
                        fc.fail("last", "is-last", format!("base={:?} out={:?}", base, v));
                    }
                }
                Err(e) => {
                    let is_map = mk().kind() == minijinja::value::ValueKind::Map;
                    if e == "panic" || !is_map {
                        fc.fail("last", &e, String::new());
                    }
                }
            }
            match fc.apply("list", &mk(), &[]).and_then(|v| as_list(&v)) {
                Ok(r) => {
                    if &r != base {
                        fc.fail("list", "is-iteration-order", format!("base={:?} out={:?}", base, r));
                    }
                }
                Err(e) => fc.fail("list", &e, String::new()),
            }
            match fc.apply("length", &mk(), &[]) {
                Ok(v) => {
                    if v.as_usize() != Some(base.len()) {
                        fc.fail("length", "is-count", format!("base={:?} out={:?}", base, v));
                    }
                }
                Err(e) => {
                    // iterables of unknown length have no length
                    let unknown = shape == "iter" || shape == "once" || (shape.len() == 5 && shape.starts_with('h') && &shape[3..4] == "u");
                    if e == "panic" || !unknown {
                        fc.fail("length", &e, String::new());
                    }
                }
            }
        }
    }
    if fc.fails.is_empty() { format!("ok {}", fc.n) } else { format!("FAIL {} {}", fc.n, fc.fails.join(" || ")) }
}

// ------------------------------------------------------------------------------------------ size hints

/// user objects of every repr × enumerator variant × size-hint class × with/without `enumerator_len`
/// override, holding {} / {a:1} / {a:1,b:2} (or [] / [a] / [a,b]), next to plain maps / lists with the
/// same and with sub- and super-sets of the content
fn hint_zoo() -> Vec<S> {
    let contents: Vec<Vec<(S, S)>> = vec![vec![], vec![(s0("a"), i(1))], vec![(s0("a"), i(1)), (s0("b"), i(2))]];
    let mut z: Vec<S> = vec![];
    for c in &contents {
        z.push(S::Map(c.clone()));
        z.push(S::OMap(c.clone()));
        z.push(S::Seq(c.iter().map(|(k, _)| k.clone()).collect()));
        z.push(S::Iter(c.iter().map(|(k, _)| k.clone()).collect(), false));
        z.push(S::Tuple(c.iter().map(|(k, _)| k.clone()).collect()));
    }
    z.push(S::Map(vec![(s0("a"), i(1)), (s0("b"), i(3))]));
    z.push(S::Map(vec![(s0("b"), i(2))]));
    let combos: [(&str, &str); 3] = [("s", "qvtre"), ("m", "kjvtre"), ("i", "vtre")];
    for (r, vars) in combos {
        for v in vars.chars() {
            let hints = if "trkj".contains(v) { "xubpl" } else { "x" };
            for h in hints.chars() {
                for o in ["d", "o"] {
                    for c in &contents {
                        if v == 'e' && !c.is_empty() {
                            continue;
                        }
                        let c2: Vec<(S, S)> = if r == "m" { c.clone() } else { c.iter().map(|(k, _)| (k.clone(), S::None)).collect() };
                        z.push(S::Hint(format!("{r}{v}{h}{o}"), c2));
                    }
                }
            }
        }
    }
    // the trait's defaults: Map repr that does not enumerate (what `impl Object for T {}` gives)
    z.push(S::Hint("mnxd".into(), vec![]));
    z.push(S::Hint("mnxd".into(), vec![(s0("a"), i(1))]));
    z
}

// ------------------------------------------------------------------------------------------ random nested values

fn rand_scalar(rng: &mut Rng) -> S {
    let ints: [i128; 14] = [0, 1, -1, 2, 255, 1 << 31, (1 << 53) + 1, (1 << 63) - 1, 1 << 63, (1 << 64) - 1, 1 << 64,
        -(1 << 63), i128::MAX, i128::MIN];
    match rng.below(12) {
        0 => S::None,
        1 => S::Undef,
        2 => S::Bool(rng.chance(1, 2)),
        3 | 4 => {
            let v = if rng.chance(1, 3) { (rng.next() as i64 >> rng.below(60)) as i128 } else { *rng.pick(&ints) };
            let mut reprs = vec![];
            int_reprs(v, None, &mut reprs);
            rng.pick(&reprs).clone()
        }
        5 => S::U128(u128::MAX - rng.below(3) as u128),
        6 | 7 => {
            let fl: [f64; 12] = [0.0, -0.0, 1.0, -1.0, 0.5, 2.0, 9007199254740992.0, 9223372036854775808.0,
                18446744073709551616.0, f64::INFINITY, f64::NEG_INFINITY, 1.7014118346046923e38];
            if rng.chance(1, 4) { S::F(rng.next()) } else if rng.chance(1, 8) { S::F(0x7ff8_0000_0000_0000) } else { fbits(*rng.pick(&fl)) }
        }
        8 | 9 => {
            let t = *rng.pick(&["", "a", "A", "b", "ab", "é", "1", "abcdefghijklmnopqrstuvwxyz", "a\0", "\0", "ab\0", "a\0b",
                "abcdefghijklmnopqrstu", "abcdefghijklmnopqrstuv", "abcdefghijklmnopqrstu\0", "abcdefghijklmnopqrstuvw"]);
            S::Str(t.into(), rng.below(3) as u8)
        }
        10 => S::Bytes(rng.pick(&[&b""[..], b"a", b"ab", b"\xff"]).to_vec()),
        _ => S::Plain(rng.pick(&["x", "y"]).to_string()),
    }
}

fn rand_key(rng: &mut Rng) -> S {
    loop {
        let k = rand_scalar(rng);
        if !matches!(k, S::Plain(_)) {
            return k;
        }
    }
}

fn rand_value(rng: &mut Rng, depth: u32) -> S {
    if depth == 0 || rng.chance(2, 5) {
        return rand_scalar(rng);
    }
    let n = rng.below(4) as usize;
    let kids = |rng: &mut Rng| (0..n).map(|_| rand_value(rng, depth - 1)).collect::<Vec<_>>();
    match rng.below(8) {
        0 | 1 => S::Seq(kids(rng)),
        2 => S::Tuple(kids(rng)),
        3 => S::Iter(kids(rng), rng.chance(1, 2)),
        4 => S::OSeq(kids(rng)),
        5 => S::Once(kids(rng)),
        6 => {
            // a user map object must not hold two keys that are `==` (its lookups go by `==`)
            let mut ps: Vec<(S, S)> = vec![];
            for _ in 0..n {
                let k = rand_key(rng);
                let kv = build(&k);
                if kv == kv && !ps.iter().any(|(q, _)| build(q) == kv) {
                    ps.push((k, rand_value(rng, depth - 1)));
                }
            }
            S::OMap(ps)
        }
        _ => {
            // no two keys that are `==` without being `Equal` (a bool next to the number it equals): under
            // IndexMap such a map's lookups depend on the hash table layout (the recorded Bool~Number finding)
            let mut ps: Vec<(S, S)> = vec![];
            for _ in 0..n {
                let k = rand_key(rng);
                let kv = build(&k);
                if !ps.iter().any(|(q, _)| {
                    let qv = build(q);
                    qv == kv && qv.cmp(&kv) != Ordering::Equal
                }) {
                    ps.push((k, rand_value(rng, depth - 1)));
                }
            }
            S::Map(ps)
        }
    }
}

/// a batch: random values plus mutated copies (same shape, one leaf or one container kind changed),
/// so that `Equal` / `==` pairs and near misses are frequent
fn rand_batch(rng: &mut Rng, n: usize) -> Vec<S> {
    fn mutate(rng: &mut Rng, s: &S) -> S {
        match s {
            S::Seq(xs) if !xs.is_empty() && rng.chance(1, 2) => {
                let mut ys = xs.clone();
                let k = rng.below(ys.len() as u64) as usize;
                ys[k] = mutate(rng, &ys[k]);
                S::Seq(ys)
            }
            S::Seq(xs) => match rng.below(4) {
                0 => S::Iter(xs.clone(), true),
                1 => S::OSeq(xs.clone()),
                2 => S::Tuple(xs.clone()),
                _ => S::Once(xs.clone()),
            },
            S::Iter(xs, _) | S::OSeq(xs) | S::Once(xs) => S::Seq(xs.clone()),
            S::Map(ps) => {
                let mut qs = ps.clone();
                qs.reverse();
                let ks: Vec<Value> = qs.iter().map(|(k, _)| build(k)).collect();
                let distinct = ks.iter().enumerate().all(|(a, k)| k == k && ks[..a].iter().all(|o| o != k));
                if distinct && rng.chance(1, 2) { S::OMap(qs) } else { S::Map(qs) }
            }
            S::OMap(ps) => S::Map(ps.clone()),
            S::I64(x) => match rng.below(4) {
                0 => S::I128(*x as i128),
                1 => fbits(*x as f64),
                2 if *x >= 0 => S::U64(*x as u64),
                _ => S::I64(x.wrapping_add(1)),
            },
            S::U64(x) => if rng.chance(1, 2) { S::U128(*x as u128) } else { fbits(*x as f64) },
            S::Str(t, f) => S::Str(t.clone(), (f + 1) % 3),
            S::F(b) => if rng.chance(1, 2) { S::F(b ^ 0x8000_0000_0000_0000) } else { S::F(*b) },
            other => other.clone(),
        }
    }
    let mut out: Vec<S> = vec![];
    while out.len() < n {
        let v = rand_value(rng, 4);
        out.push(v.clone());
        if out.len() < n && rng.chance(2, 3) {
            out.push(mutate(rng, &v));
        }
        if out.len() < n && rng.chance(1, 4) {
            out.push(v);
        }
    }
    out
}

// ------------------------------------------------------------------------------------------ filters against the model

/// alphabet of the model-compared filter stream (letters `0`-`9`, `a`-`c`); pairwise distinct `ident`s
fn alphabet2() -> Vec<S> {
    vec![
        i(1), fbits(1.0), S::U64(2), s0("a"), s0("A"), s0("b"), S::None, S::F(0x7ff8_0000_0000_0000), fbits(-0.0), i(0),
        S::Seq(vec![i(1)]), S::Bytes(b"a".to_vec()), S::U128(u128::MAX), S::Str("a".into(), 2),
        // integers for `sum` (letters e-h): -3, 2^64, i64::MAX, i128::MAX
        i(-3), S::I128(1 << 64), S::I64(i64::MAX), S::I128(i128::MAX),
    ]
}
/// `d` (the safe string "a") only occurs in wrapped items: as a plain item it is `==`, `Equal` and
/// rendered like the letter `3`, so only an id can tell the two apart
const LETTERS: &str = "0123456789abcdefgh";
const PLAIN_LETTERS: &str = "0123456789abc";

fn letter_of(v: &Value, idents: &[String]) -> String {
    let id = ident(v);
    match idents.iter().position(|x| *x == id) {
        Some(p) => LETTERS[p..p + 1].to_string(),
        None => "?".into(),
    }
}

fn fv_words(max_len: usize, distinct: bool) -> Vec<String> {
    let mut out = vec![String::new()];
    let mut cur = vec![String::new()];
    for _ in 0..max_len {
        let mut next = vec![];
        for w in &cur {
            for c in PLAIN_LETTERS.chars() {
                if distinct && w.contains(c) {
                    continue;
                }
                next.push(format!("{w}{c}"));
            }
        }
        out.extend(next.iter().cloned());
        cur = next;
    }
    out
}

/// position of the word in an `fv` case (an empty word is written `-`)
fn fv_word_index(kind: &str) -> usize {
    match kind {
        "sort" | "dictsort" | "sel" => 4,
        "unique" | "groupby" | "sortm" => 3,
        "cin" => 2,
        "min" | "max" | "lit" => 1,
        _ => usize::MAX,
    }
}

fn fv_run_case(fv: &Fv, case: &str) -> String {
    let mut f: Vec<&str> = case.split(' ').collect();
    let wi = fv_word_index(f[0]);
    if f.len() > wi && f[wi] == "-" {
        f[wi] = "";
    }
    fv.run(&f)
}

struct Fv<'e> {
    env: &'e Environment<'static>,
    al: Vec<S>,
    idents: Vec<String>,
}

impl<'e> Fv<'e> {
    fn items(&self, word: &str, wrap: bool) -> Vec<Value> {
        word.chars()
            .enumerate()
            .map(|(idx, c)| {
                let v = build(&self.al[LETTERS.find(c).unwrap()]);
                if wrap { Value::from_pairs([("k", v), ("id", Value::from(idx)), ("g", Value::from(idx % 3))]) } else { v }
            })
            .collect()
    }
    fn show(&self, vs: &[Value], wrap: bool) -> String {
        if wrap {
            vs.iter().map(|v| v.get_attr("id").map(|x| x.to_string()).unwrap_or("?".into())).collect::<Vec<_>>().join(".")
        } else {
            vs.iter().map(|v| letter_of(v, &self.idents)).collect::<Vec<_>>().join("")
        }
    }
    fn apply(&self, name: &str, args: &[Value]) -> Result<Value, String> {
        let env = self.env;
        let r = guarded(|| {
            let tmpl = env.template_from_str("").unwrap();
            let mut state = tmpl.new_state();
            state.apply_filter(name, args)
        });
        match r {
            Err(_) => Err("panic".into()),
            Ok(Err(e)) => Err(format!("err:{:?}", e.kind())),
            Ok(Ok(v)) => Ok(v),
        }
    }
    fn list_out(&self, r: Result<Value, String>, wrap: bool) -> String {
        match r.and_then(|v| to_vec(&v)) {
            Ok(vs) => format!("ok:{}", self.show(&vs, wrap)),
            Err(e) => e,
        }
    }
    fn run(&self, f: &[&str]) -> String {
        let b = |x: &str| x == "1";
        match f[0] {
            // fv sort <cs> <rev> <plain|wrap> <word>
            "sort" => {
                let wrap = f[3] == "wrap";
                let mut kws: Vec<(&'static str, Value)> = vec![("case_sensitive", Value::from(b(f[1]))), ("reverse", Value::from(b(f[2])))];
                if wrap {
                    kws.push(("attribute", Value::from("k")));
                }
                self.list_out(self.apply("sort", &[Value::from(self.items(f[4], wrap)), Value::from(kw(&kws))]), wrap)
            }
            // fv sortm <cs> <rev> <word>: several attributes, `attribute="g, k"`
            "sortm" => {
                let kws: Vec<(&'static str, Value)> = vec![("case_sensitive", Value::from(b(f[1]))), ("reverse", Value::from(b(f[2]))), ("attribute", Value::from("g, k"))];
                self.list_out(self.apply("sort", &[Value::from(self.items(f[3], true)), Value::from(kw(&kws))]), true)
            }
            "unique" => {
                let wrap = f[2] == "wrap";
                let mut kws: Vec<(&'static str, Value)> = vec![("case_sensitive", Value::from(b(f[1])))];
                if wrap {
                    kws.push(("attribute", Value::from("k")));
                }
                self.list_out(self.apply("unique", &[Value::from(self.items(f[3], wrap)), Value::from(kw(&kws))]), wrap)
            }
            // fv groupby <cs> <dflt letter|-> <word>: `grouper:ids` per group
            "groupby" => {
                let mut kws: Vec<(&'static str, Value)> = vec![("case_sensitive", Value::from(b(f[1])))];
                if f[2] != "-" {
                    kws.push(("default", build(&self.al[LETTERS.find(f[2]).unwrap()])));
                }
                // every third item lacks the attribute
                let items: Vec<Value> = self
                    .items(f[3], true)
                    .into_iter()
                    .enumerate()
                    .map(|(p, v)| if p % 3 == 2 { Value::from_pairs([("id", Value::from(p))]) } else { v })
                    .collect();
                match self.apply("groupby", &[Value::from(items), Value::from("k"), Value::from(kw(&kws))]).and_then(|v| to_vec(&v)) {
                    Ok(groups) => {
                        let mut parts = vec![];
                        for g in groups {
                            let gv = to_vec(&g).unwrap_or_default();
                            if gv.len() != 2 {
                                return "shape".into();
                            }
                            let members = to_vec(&gv[1]).unwrap_or_default();
                            let gl = if gv[0].is_undefined() { "u".to_string() } else { letter_of(&gv[0], &self.idents) };
                            parts.push(format!("{}:{}", gl, self.show(&members, true)));
                        }
                        format!("ok:{}", parts.join(";"))
                    }
                    Err(e) => e,
                }
            }
            // fv dictsort <cs> <rev> <byvalue> <word>: keys = the letters, values = (len - pos) % 3 → `key=value` pairs
            "dictsort" => {
                let n = f[4].len();
                let pairs: Vec<(Value, Value)> = self.items(f[4], false).into_iter().enumerate().map(|(p, k)| (k, Value::from((n - p) % 3))).collect();
                let mut kws: Vec<(&'static str, Value)> = vec![("case_sensitive", Value::from(b(f[1]))), ("reverse", Value::from(b(f[2])))];
                if b(f[3]) {
                    kws.push(("by", Value::from("value")));
                }
                match self.apply("dictsort", &[Value::from_pairs(pairs), Value::from(kw(&kws))]).and_then(|v| to_vec(&v)) {
                    Ok(ps) => format!(
                        "ok:{}",
                        ps.iter()
                            .map(|p| {
                                let kv = to_vec(p).unwrap_or_default();
                                format!("{}={}", kv.first().map(|k| letter_of(k, &self.idents)).unwrap_or("?".into()), kv.get(1).map(|v| v.to_string()).unwrap_or("?".into()))
                            })
                            .collect::<Vec<_>>()
                            .join(",")
                    ),
                    Err(e) => e,
                }
            }
            // fv sel <test> <invert> <plain|wrap> <word> <arg letter>
            "sel" => {
                let wrap = f[3] == "wrap";
                let arg = build(&self.al[LETTERS.find(f[5]).unwrap()]);
                let name = match (b(f[2]), wrap) {
                    (false, false) => "select",
                    (true, false) => "reject",
                    (false, true) => "selectattr",
                    (true, true) => "rejectattr",
                };
                let mut args = vec![Value::from(self.items(f[4], wrap))];
                if wrap {
                    args.push(Value::from("k"));
                }
                args.push(Value::from(f[1]));
                args.push(arg.clone());
                let got = self.list_out(self.apply(name, &args), wrap);
                // what the test means, evaluated directly with Value's operators
                let inv = b(f[2]);
                let exp: Vec<Value> = self
                    .items(f[4], wrap)
                    .into_iter()
                    .filter(|x| {
                        let k = get_k(x, wrap);
                        let pass = match f[1] {
                            "eq" => k == arg,
                            "ne" => k != arg,
                            "lt" => k.cmp(&arg) == Ordering::Less,
                            "le" => k.cmp(&arg) != Ordering::Greater,
                            "gt" => k.cmp(&arg) == Ordering::Greater,
                            _ => k.cmp(&arg) != Ordering::Less,
                        };
                        pass != inv
                    })
                    .collect();
                let want = format!("ok:{}", self.show(&exp, wrap));
                if got == want { got } else { format!("{got} MISMATCH want={want}") }
            }
            "min" | "max" => match self.apply(f[0], &[Value::from(self.items(f[1], false))]) {
                Ok(v) if v.is_undefined() => "ok:u".into(),
                Ok(v) => format!("ok:{}", letter_of(&v, &self.idents)),
                Err(e) => e,
            },
            // fv cin <seq|tuple|iter|once|oseq|map|omap> <word> <arg letter>: `arg in container`
            "cin" => {
                let items = self.items(f[2], false);
                let c = match f[1] {
                    "seq" => Value::from(items),
                    "tuple" => Value::from_object(Tuple::new(items)),
                    "iter" => Value::make_object_iterable(items, |v| Box::new(v.iter().filter(|_| true).cloned())),
                    "once" => Value::make_one_shot_iterator(items.into_iter()),
                    "oseq" => Value::from_object(OSeqObj(items)),
                    "map" => Value::from_pairs(items.into_iter().map(|k| (k, Value::from(1)))),
                    _ => Value::from_object(OMapObj(items.into_iter().map(|k| (k, Value::from(1))).collect())),
                };
                let arg = build(&self.al[LETTERS.find(f[3]).unwrap()]);
                let got = render_flag(self.env, "{{ 1 if a in c else 0 }}", context! { a => arg.clone(), c => c }).to_string();
                // `x in c`: some item (some key) is == x; a NaN key is found by a BTreeMap though it is not == itself
                let nan_key = f[1] == "map" && arg.to_string() == "NaN";
                let want = (self.items(f[2], false).iter().any(|y| *y == arg) as u8).to_string();
                if got == want || nan_key { got } else { format!("{got} MISMATCH want={want}") }
            }
            // fv lit <word>: the map literal `{k0: 0, k1: 1, …}` → `key=value` pairs in iteration order
            "lit" => {
                let items = self.items(f[1], false);
                let ctx = Value::from_pairs(items.iter().enumerate().map(|(p, v)| (format!("k{p}"), v.clone())));
                let env = self.env;
                // evaluate the literal through the expression API to get the map itself
                let lit = format!("{{{}}}", (0..items.len()).map(|p| format!("k{p}: {p}")).collect::<Vec<_>>().join(", "));
                match guarded(|| env.compile_expression(&lit).and_then(|e| e.eval(ctx.clone()))) {
                    Err(_) => "panic".into(),
                    Ok(Err(e)) => format!("err:{:?}", e.kind()),
                    Ok(Ok(m)) => match m.as_object().and_then(|o| o.try_iter_pairs()) {
                        Some(it) => format!(
                            "ok:{}",
                            it.map(|(k, v)| format!("{}={}", letter_of(&k, &self.idents), v)).collect::<Vec<_>>().join(",")
                        ),
                        None => "notmap".into(),
                    },
                }
            }
            // ---- dotted attribute paths and index paths (items: {p: {k: v}, id} / {id} / {p: 7, id}; [v, id])
            "sortp" | "uniquep" | "groupbyp" | "sorti" => self.run_paths(f),
            // ---- sum / zip / chain / items / list / sameas / pycompat methods
            "sum" => match self.apply("sum", &[Value::from(self.items(wv(f[1]), false))]) {
                Ok(v) => format!("ok:{v}"),
                Err(e) => e,
            },
            "zip" | "zip3" => {
                let mut args: Vec<Value> = vec![];
                for (p, w) in f[1..].iter().enumerate() {
                    let it = self.items(wv(w), false);
                    // the second operand as a lazy iterable of unknown length, the others as lists
                    args.push(if p == 1 { Value::make_object_iterable(it, |v| Box::new(v.iter().filter(|_| true).cloned())) } else { Value::from(it) });
                }
                match self.apply("zip", &args) {
                    Ok(v) => {
                        let len = v.len().map_or("-".to_string(), |n| n.to_string());
                        match to_vec(&v) {
                            Ok(ts) => format!(
                                "ok:{} len={len} tuples={}",
                                ts.iter().map(|t| self.show(&to_vec(t).unwrap_or_default(), false)).collect::<Vec<_>>().join(","),
                                ts.iter().all(|t| format!("{t:?}").starts_with('(')) as u8
                            ),
                            Err(e) => e,
                        }
                    }
                    Err(e) => e,
                }
            }
            "chain" | "chain3" => {
                let (kind, words) = if f[0] == "chain" { (f[1], &f[2..]) } else { ("seq", &f[1..]) };
                if kind == "map" || kind == "mapu" {
                    // `mapu`: the entries at the even positions hold undefined values (shown `u` when the key is found)
                    let undef = kind == "mapu";
                    let mk = |w: &str, base: usize| {
                        Value::from_pairs(self.items(wv(w), false).into_iter().enumerate().map(|(p, k)| (k, if undef && p % 2 == 0 { Value::UNDEFINED } else { Value::from(base + p) })))
                    };
                    let (a, b) = (mk(words[0], 0), mk(words[1], 10));
                    return match self.apply("chain", &[a, b]) {
                        Ok(v) => {
                            let keys = to_vec(&v).unwrap_or_default();
                            let shown = |k: &Value| match v.get_item(k) {
                                Ok(x) if undef && x.is_undefined() => {
                                    if render_flag(self.env, "{{ 1 if k in v else 0 }}", context! { k => k.clone(), v => v.clone() }) == '1' { "u".to_string() } else { String::new() }
                                }
                                Ok(x) => x.to_string(),
                                Err(_) => "e".into(),
                            };
                            format!(
                                "ok:{} kind={:?} len={}",
                                keys.iter().map(|k| format!("{}={}", letter_of(k, &self.idents), shown(k))).collect::<Vec<_>>().join(","),
                                v.kind(),
                                v.len().map_or("-".to_string(), |n| n.to_string())
                            )
                        }
                        Err(e) => e,
                    };
                }
                let mut args: Vec<Value> = vec![];
                for (p, w) in words.iter().enumerate() {
                    let it = self.items(wv(w), false);
                    args.push(match (kind, p) {
                        ("mixed", 0) => Value::make_object_iterable(it, |v| Box::new(v.iter().filter(|_| true).cloned())),
                        ("tuple", 0) => Value::from_object(Tuple::new(it)),
                        _ => Value::from(it),
                    });
                }
                match self.apply("chain", &args) {
                    Ok(v) => {
                        let items = match to_vec(&v) {
                            Ok(x) => x,
                            Err(e) => return e,
                        };
                        let idx: String = (0..items.len() + 1)
                            .map(|p| match v.get_item(&Value::from(p)) {
                                Ok(x) if x.is_undefined() => "u".to_string(),
                                Ok(x) => letter_of(&x, &self.idents),
                                Err(_) => "e".to_string(),
                            })
                            .collect();
                        format!("ok:{} kind={:?} len={} idx={idx}", self.show(&items, false), v.kind(), v.len().map_or("-".to_string(), |n| n.to_string()))
                    }
                    Err(e) => e,
                }
            }
            "items" => {
                let d = Value::from_pairs(self.items(wv(f[1]), false).into_iter().enumerate().map(|(p, k)| (k, Value::from(p))));
                match self.apply("items", &[d]).and_then(|v| to_vec(&v)) {
                    Ok(ps) => format!(
                        "ok:{} tuples={}",
                        ps.iter().map(|p| self.show_pair(p)).collect::<Vec<_>>().join(","),
                        ps.iter().all(|t| format!("{t:?}").starts_with('(')) as u8
                    ),
                    Err(e) => e,
                }
            }
            "list" => {
                let items = self.items(wv(f[2]), false);
                let c = match f[1] {
                    "str" => Value::from(wv(f[2])),
                    "undef" => Value::UNDEFINED,
                    "none" => Value::from(()),
                    k => self.container(k, items),
                };
                match self.apply("list", &[c]).and_then(|v| if v.kind() == minijinja::value::ValueKind::Seq { to_vec(&v) } else { Err("notalist".into()) }) {
                    Ok(vs) if f[1] == "str" => format!("ok:{}", vs.iter().map(|v| v.to_string()).collect::<String>()),
                    Ok(vs) => format!("ok:{}", self.show(&vs, false)),
                    Err(e) => e,
                }
            }
            "sameas" => {
                let a = build(&self.al[LETTERS.find(f[1]).unwrap()]);
                let b = if f[3] == "same" { a.clone() } else { build(&self.al[LETTERS.find(f[2]).unwrap()]) };
                render_flag(self.env, "{{ 1 if a is sameas b else 0 }}", context! { a => a, b => b }).to_string()
            }
            "cnt" => {
                let c = self.container(f[1], self.items(wv(f[2]), false));
                let arg = build(&self.al[LETTERS.find(f[3]).unwrap()]);
                self.eval("c.count(a)", context! { c => c, a => arg }).map_or_else(|e| e, |v| format!("ok:{v}"))
            }
            "pyd" => {
                let d = Value::from_pairs(self.items(wv(f[2]), false).into_iter().enumerate().map(|(p, k)| (k, Value::from(p))));
                let arg = build(&self.al[LETTERS.find(f[3]).unwrap()]);
                let ctx = context! { d => d, a => arg };
                match f[1] {
                    "get" => self.eval("d.get(a)", ctx).map_or_else(|e| e, |v| format!("ok:{v}")),
                    "get2" => self.eval("d.get(a, 99)", ctx).map_or_else(|e| e, |v| format!("ok:{v}")),
                    "keys" => self.eval("d.keys()|list", ctx).and_then(|v| to_vec(&v)).map_or_else(|e| e, |vs| format!("ok:{}", self.show(&vs, false))),
                    "values" => self.eval("d.values()|list", ctx).and_then(|v| to_vec(&v)).map_or_else(|e| e, |vs| format!("ok:{}", vs.iter().map(|v| v.to_string()).collect::<Vec<_>>().join(","))),
                    _ => self.eval("d.items()|list", ctx).and_then(|v| to_vec(&v)).map_or_else(|e| e, |ps| format!("ok:{}", ps.iter().map(|p| self.show_pair(p)).collect::<Vec<_>>().join(","))),
                }
            }
            _ => "bad-case".into(),
        }
    }
    /// `k=v` for a `(key, value)` tuple
    fn show_pair(&self, p: &Value) -> String {
        let kv = to_vec(p).unwrap_or_default();
        format!("{}={}", kv.first().map(|k| letter_of(k, &self.idents)).unwrap_or("?".into()), kv.get(1).map(|v| v.to_string()).unwrap_or("?".into()))
    }
    fn container(&self, kind: &str, items: Vec<Value>) -> Value {
        match kind {
            "seq" => Value::from(items),
            "tuple" => Value::from_object(Tuple::new(items)),
            "iter" => Value::make_object_iterable(items, |v| Box::new(v.iter().filter(|_| true).cloned())),
            "once" => Value::make_one_shot_iterator(items.into_iter()),
            "oseq" => Value::from_object(OSeqObj(items)),
            "map" => Value::from_pairs(items.into_iter().map(|k| (k, Value::from(1)))),
            _ => Value::from_object(OMapObj(items.into_iter().map(|k| (k, Value::from(1))).collect())),
        }
    }
    fn eval(&self, expr: &str, ctx: Value) -> Result<Value, String> {
        let env = self.env;
        match guarded(|| env.compile_expression(expr).and_then(|e| e.eval(ctx))) {
            Err(_) => Err("panic".into()),
            Ok(Err(e)) => Err(format!("err:{:?}", e.kind())),
            Ok(Ok(v)) => Ok(v),
        }
    }
    /// items for the path cases: every third lacks `p`, every fifth has a `p` that is not a map
    fn items_p(&self, word: &str) -> Vec<Value> {
        word.chars()
            .enumerate()
            .map(|(idx, c)| {
                let v = build(&self.al[LETTERS.find(c).unwrap()]);
                if idx % 3 == 2 {
                    Value::from_pairs([("id", Value::from(idx))])
                } else if idx % 5 == 4 {
                    Value::from_pairs([("p", Value::from(7)), ("id", Value::from(idx))])
                } else {
                    Value::from_pairs([("p", Value::from_pairs([("k", v)])), ("id", Value::from(idx))])
                }
            })
            .collect()
    }
    fn run_paths(&self, f: &[&str]) -> String {
        let b = |x: &str| x == "1";
        match f[0] {
            // fv sortp <cs> <rev> <word>: sort(attribute="p.k")
            "sortp" => {
                let kws: Vec<(&'static str, Value)> = vec![("case_sensitive", Value::from(b(f[1]))), ("reverse", Value::from(b(f[2]))), ("attribute", Value::from("p.k"))];
                self.list_out(self.apply("sort", &[Value::from(self.items_p(wv(f[3]))), Value::from(kw(&kws))]), true)
            }
            // fv sorti <cs> <rev> <word>: items `[v, id]`, sort(attribute="0")
            "sorti" => {
                let items: Vec<Value> = self.items(wv(f[3]), false).into_iter().enumerate().map(|(p, v)| Value::from(vec![v, Value::from(p)])).collect();
                let kws: Vec<(&'static str, Value)> = vec![("case_sensitive", Value::from(b(f[1]))), ("reverse", Value::from(b(f[2]))), ("attribute", Value::from("0"))];
                match self.apply("sort", &[Value::from(items), Value::from(kw(&kws))]).and_then(|v| to_vec(&v)) {
                    Ok(vs) => format!("ok:{}", vs.iter().map(|v| v.get_item_by_index(1).map(|x| x.to_string()).unwrap_or("?".into())).collect::<Vec<_>>().join(".")),
                    Err(e) => e,
                }
            }
            "uniquep" => {
                let kws: Vec<(&'static str, Value)> = vec![("case_sensitive", Value::from(b(f[1]))), ("attribute", Value::from("p.k"))];
                self.list_out(self.apply("unique", &[Value::from(self.items_p(wv(f[2]))), Value::from(kw(&kws))]), true)
            }
            // fv groupbyp <cs> <dflt letter|-> <word>
            _ => {
                let mut kws: Vec<(&'static str, Value)> = vec![("case_sensitive", Value::from(b(f[1])))];
                if f[2] != "-" {
                    kws.push(("default", build(&self.al[LETTERS.find(f[2]).unwrap()])));
                }
                match self.apply("groupby", &[Value::from(self.items_p(wv(f[3]))), Value::from("p.k"), Value::from(kw(&kws))]).and_then(|v| to_vec(&v)) {
                    Ok(groups) => {
                        let mut parts = vec![];
                        for g in groups {
                            let gv = to_vec(&g).unwrap_or_default();
                            if gv.len() != 2 {
                                return "shape".into();
                            }
                            let members = to_vec(&gv[1]).unwrap_or_default();
                            let gl = if gv[0].is_undefined() { "u".to_string() } else { letter_of(&gv[0], &self.idents) };
                            parts.push(format!("{}:{}", gl, self.show(&members, true)));
                        }
                        format!("ok:{}", parts.join(";"))
                    }
                    Err(e) => e,
                }
            }
        }
    }
}

/// an empty word is written `-`
fn wv(w: &str) -> &str {
    if w == "-" { "" } else { w }
}

// ------------------------------------------------------------------------------------------ derived maps

include!("c07_dm.inc");

// ------------------------------------------------------------------------------------------ main

fn words(max_len: usize, base: usize) -> Vec<String> {
    let mut out = vec![String::new()];
    let mut cur = vec![String::new()];
    for _ in 0..max_len {
        let mut next = vec![];
        for w in &cur {
            for d in 0..base {
                next.push(format!("{w}{d}"));
            }
        }
        out.extend(next.iter().cloned());
        cur = next;
    }
    out
}

// ------------------------------------------------------------------------------------------ gen (sharded)

/// the parts `gen <tier> <part>` knows; every part is self-contained (the lines the driver needs to
/// register values come with it), so parts and shards of a part run as separate processes
const PARTS: [&str; 13] = ["zoo", "tpl", "flist", "flistB", "long", "rev", "lk", "rand", "hint", "fv", "runs", "xf", "dm"];

/// `C07_SHARD=i/n`: this process runs the units `u` of its part with `u % n == i`
fn shard() -> (usize, usize) {
    std::env::var("C07_SHARD")
        .ok()
        .and_then(|s| {
            let (a, b) = s.split_once('/')?;
            Some((a.parse().ok()?, b.parse::<usize>().ok()?.max(1)))
        })
        .unwrap_or((0, 1))
}

/// quick-tier sampling of an enumerated box: keep unit `u` when its mixed index falls into class 0 of `k`
/// (deterministic in VERIF_SEED, independent of the sharding)
fn sample_skip(u: usize, salt: usize, k: usize) -> bool {
    let h = (u as u64 ^ (salt as u64).wrapping_mul(0x9E37_79B9_7F4A_7C15)).wrapping_mul(0xBF58_476D_1CE4_E5B9);
    ((h >> 29) % k as u64) != 0
}

/// one random stream per part, whatever the sharding
fn part_rng(part: &str) -> Rng {
    let k = PARTS.iter().position(|p| *p == part).unwrap_or(99) as u64;
    Rng::new(seed_from_env().wrapping_mul(1_000_003).wrapping_add(k))
}

fn gen_part(out: &mut dyn Write, env: &Environment<'static>, thorough: bool, part: &str) {
    let (sh, nsh) = shard();
    let mine = |u: usize| u % nsh == sh;
    match part {
        "zoo" => {
            let z = zoo(thorough);
            let a: Vec<Value> = z.iter().map(build).collect();
            let b: Vec<Value> = z.iter().map(build).collect();
            for (k, s) in z.iter().enumerate() {
                let e = enc(s);
                assert_eq!(&dec(&e), s, "encoding does not round-trip: {e}");
                let va = if volatile(s) { build(s) } else { a[k].clone() };
                writeln!(out, "val {k} {e}\t{}", run_val(&va)).unwrap();
            }
            for x in 0..z.len() {
                if !mine(x) {
                    continue;
                }
                for y in 0..z.len() {
                    writeln!(out, "pair {x} {y}\t{}", run_pair_s(Some((&z[x], &z[y])), &a[x], &b[y])).unwrap();
                }
            }
        }
        "tpl" => {
            // the template operators on the zoo pairs (the expectations come from the `zoo` part's pair results)
            let z = zoo(thorough);
            let a: Vec<Value> = z.iter().map(build).collect();
            let b: Vec<Value> = z.iter().map(build).collect();
            for x in 0..z.len() {
                if !mine(x) {
                    continue;
                }
                for y in 0..z.len() {
                    // quick: a fixed stride, plus every pair that is `==` (where `in` / lookups must agree)
                    let is_eq = guarded(|| a[x] == b[y]).unwrap_or(false);
                    if volatile(&z[x]) || volatile(&z[y]) || has_invalid(&z[x]) || has_invalid(&z[y]) {
                        // a one-shot iterator would be consumed by the first of the templates; an invalid
                        // value makes every template operation fail with the error it holds (by design)
                        continue;
                    }
                    if thorough || (x * 31 + y * 17) % 4 == 0 || x == y || is_eq {
                        writeln!(out, "tpl {x} {y}\t{}", run_tpl(env, &a[x], &b[y])).unwrap();
                    }
                }
            }
        }
        "flist" => {
            // filters: all words of length ≤ 5 over the 7-letter alphabet
            // quick: every word of length ≤ 4 (2801 lists), the 16807 words of length 5 sampled 1 in 8 (by seed)
            let salt = seed_from_env() as usize;
            for (u, w) in words(5, 7).into_iter().enumerate() {
                if !mine(u) {
                    continue;
                }
                if !thorough && w.len() == 5 && sample_skip(u, salt, 8) {
                    continue;
                }
                let wtxt = if w.is_empty() { "-".to_string() } else { w.clone() };
                writeln!(out, "flist plain {wtxt}\t{}", run_flist(env, "plain", &w)).unwrap();
                writeln!(out, "flist wrap {wtxt}\t{}", run_flist(env, "wrap", &w)).unwrap();
                if w.len() <= 3 || thorough {
                    for form in ["iter", "sized", "tuple", "deque", "dict", "keys", "oseq", "chars"] {
                        writeln!(out, "flist {form} {wtxt}\t{}", run_flist(env, form, &w)).unwrap();
                    }
                }
            }
        }
        "flistB" => {
            // quick: every word of length ≤ 3, the 2401 words of length 4 sampled 1 in 4 (by seed)
            let salt = seed_from_env() as usize;
            for (u, w) in words(4, 7).into_iter().enumerate() {
                if !mine(u) {
                    continue;
                }
                if !thorough && w.len() == 4 && sample_skip(u, salt, 4) {
                    continue;
                }
                let wtxt = if w.is_empty() { "-".to_string() } else { w.clone() };
                writeln!(out, "flist plainB {wtxt}\t{}", run_flist(env, "plainB", &w)).unwrap();
                writeln!(out, "flist wrapB {wtxt}\t{}", run_flist(env, "wrapB", &w)).unwrap();
                if w.len() <= 3 {
                    writeln!(out, "flist dictB {wtxt}\t{}", run_flist(env, "dictB", &w)).unwrap();
                }
                writeln!(out, "flist plainC {wtxt}\t{}", run_flist(env, "plainC", &w)).unwrap();
                writeln!(out, "flist wrapC {wtxt}\t{}", run_flist(env, "wrapC", &w)).unwrap();
                if w.len() <= 3 {
                    writeln!(out, "flist dictC {wtxt}\t{}", run_flist(env, "dictC", &w)).unwrap();
                    writeln!(out, "flist keysC {wtxt}\t{}", run_flist(env, "keysC", &w)).unwrap();
                }
                writeln!(out, "flist plainD {wtxt}\t{}", run_flist(env, "plainD", &w)).unwrap();
                writeln!(out, "flist wrapD {wtxt}\t{}", run_flist(env, "wrapD", &w)).unwrap();
                if w.len() <= 3 {
                    writeln!(out, "flist dictD {wtxt}\t{}", run_flist(env, "dictD", &w)).unwrap();
                    writeln!(out, "flist keysD {wtxt}\t{}", run_flist(env, "keysD", &w)).unwrap();
                }
            }
        }
        "long" => {
            // long random lists (ties everywhere): an unstable or insertion-only sort shows here
            let mut rng = part_rng(part);
            let n_long = if thorough { 2000 } else { 96 };
            for u in 0..n_long {
                let len = 21 + rng.below(if thorough { 300 } else { 120 }) as usize;
                let w: String = (0..len).map(|_| char::from(b'0' + rng.below(7) as u8)).collect();
                if !mine(u) {
                    continue;
                }
                writeln!(out, "flist wrap {w}\t{}", run_flist(env, "wrap", &w)).unwrap();
                writeln!(out, "flist plain {w}\t{}", run_flist(env, "plain", &w)).unwrap();
            }
        }
        "rev" => {
            // reverse / first / last / list / length on every enumerator shape
            let shapes = rev_shapes();
            for (u, w) in words(if thorough { 4 } else { 3 }, 7).into_iter().enumerate() {
                if !mine(u) {
                    continue;
                }
                let wtxt = if w.is_empty() { "-".to_string() } else { w.clone() };
                for shape in &shapes {
                    writeln!(out, "rev {shape} {wtxt}\t{}", run_rev(env, shape, &w)).unwrap();
                }
            }
        }
        "lk" => {
            // every lookup entry point, around the small-map fast path thresholds, for every backing map type
            let lkk = lk_keys();
            let mut u = 0;
            for backing in LK_BACKINGS {
                for n in LK_SIZES {
                    for ks in &lkk {
                        u += 1;
                        if !mine(u) {
                            continue;
                        }
                        for ps in &lkk {
                            if let Some(res) = run_lk(env, backing, n, ks, ps) {
                                writeln!(out, "lk {backing} {n} {} {}\t{res}", enc(ks), enc(ps)).unwrap();
                            }
                        }
                    }
                }
            }
        }
        "rand" => {
            // random nested values (depth ≤ 4) in batches: every ordered pair of a batch
            let mut rng = part_rng(part);
            let (nb, bs) = if thorough { (250, 32) } else { (40, 28) };
            for bi in 0..nb {
                let batch = rand_batch(&mut rng, bs);
                if !mine(bi) {
                    continue;
                }
                let va: Vec<Value> = batch.iter().map(build).collect();
                let vb: Vec<Value> = batch.iter().map(build).collect();
                for (k, sp) in batch.iter().enumerate() {
                    let e = enc(sp);
                    assert_eq!(&dec(&e), sp, "encoding does not round-trip: {e}");
                    let v0 = if volatile(sp) { build(sp) } else { va[k].clone() };
                    writeln!(out, "rval {bi} {k} {e}\t{}", run_val(&v0)).unwrap();
                }
                for x in 0..batch.len() {
                    for y in 0..batch.len() {
                        writeln!(out, "rpair {bi} {x} {y}\t{}", run_pair_s(Some((&batch[x], &batch[y])), &va[x], &vb[y])).unwrap();
                    }
                }
            }
        }
        "hint" => {
            // size-hint objects: every ordered pair, and the template operators on them
            let hz = hint_zoo();
            let va: Vec<Value> = hz.iter().map(build).collect();
            let vb: Vec<Value> = hz.iter().map(build).collect();
            for (k, sp) in hz.iter().enumerate() {
                let e = enc(sp);
                assert_eq!(&dec(&e), sp, "encoding does not round-trip: {e}");
                writeln!(out, "rval h {k} {e}\t{}", run_val(&va[k])).unwrap();
            }
            for x in 0..hz.len() {
                if !mine(x) {
                    continue;
                }
                for y in 0..hz.len() {
                    let res = run_pair_s(Some((&hz[x], &hz[y])), &va[x], &vb[y]);
                    let interesting = res.starts_with('E') || res.contains(" 1 ") || thorough || (x * 7 + y * 13) % 16 == 0;
                    writeln!(out, "rpair h {x} {y}\t{res}").unwrap();
                    if interesting && !res.contains('P') {
                        writeln!(out, "rtpl h {x} {y}\t{}", run_tpl(env, &va[x], &vb[y])).unwrap();
                    }
                }
            }
        }
        "fv" => gen_fv(out, env, thorough, &mine),
        "xf" => gen_xf(out, env, thorough, &mine),
        "dm" => gen_dm(out, env, thorough, &mine),
        "runs" => {
            // run lengths for the model
            let huge = ["9223372036854775807", "9223372036854775808", "18446744073709551615", "18446744073709551616", "768614336404564651"];
            let max_n = if thorough { 40 } else { 14 };
            for which in ["batch", "slicef"] {
                for len in 0..=max_n {
                    if !mine(len) {
                        continue;
                    }
                    for fill in [false, true] {
                        for count in 0..=(max_n + 2) {
                            let c = count.to_string();
                            writeln!(out, "{which} {len} {c} {}\t{}", fill as u8, run_runs(env, which, len, &c, fill)).unwrap();
                        }
                        if len <= 3 {
                            for c in huge {
                                writeln!(out, "{which} {len} {c} {}\t{}", fill as u8, run_runs(env, which, len, c, fill)).unwrap();
                            }
                        }
                    }
                }
            }
        }
        _ => {
            eprintln!("unknown part {part}; parts: {}", PARTS.join(" "));
            std::process::exit(2);
        }
    }
}

/// the filters / `in` / tests / map literals against the Lean model
fn gen_fv(out: &mut dyn Write, env: &Environment<'static>, thorough: bool, mine: &dyn Fn(usize) -> bool) {
    let mut rng = part_rng("fv");
    let fv = Fv { env, al: alphabet2(), idents: alphabet2().iter().map(|sp| ident(&build(sp))).collect() };
    for (k, sp) in fv.al.iter().enumerate() {
        writeln!(out, "fa {} {}\tok", &LETTERS[k..k + 1], enc(sp)).unwrap();
    }
    let mut fv_cases: Vec<String> = vec![];
    let wd = |w: &String| if w.is_empty() { "-".to_string() } else { w.clone() };
    let plain_words = fv_words(if thorough { 4 } else { 3 }, true);
    let wrap_words = fv_words(if thorough { 3 } else { 2 }, false);
    let mut long_words: Vec<String> = vec![];
    for _ in 0..(if thorough { 600 } else { 80 }) {
        let len = 4 + rng.below(36) as usize;
        long_words.push((0..len).map(|_| PLAIN_LETTERS.as_bytes()[rng.below(13) as usize] as char).collect());
    }
    // long lists with few distinct keys and many ties between distinguishable items, in random and
    // adversarial orders (ascending, descending, organ pipe, blocks, alternating)
    let tie_sets: [&str; 6] = ["01", "34", "89", "0134", "013489", "0123456789abc"];
    let mut tie_words: Vec<String> = vec![];
    let n_tie = if thorough { 40 } else { 8 };
    for set in tie_sets {
        let cs: Vec<char> = set.chars().collect();
        for _ in 0..n_tie {
            let len = 20 + rng.below(181) as usize;
            let rnd: String = (0..len).map(|_| cs[rng.below(cs.len() as u64) as usize]).collect();
            let mut asc: Vec<char> = rnd.chars().collect();
            asc.sort();
            let desc: String = asc.iter().rev().collect();
            let pipe: String = asc.iter().step_by(2).chain(asc.iter().rev().step_by(2)).collect();
            let alt: String = (0..len).map(|p| cs[p % cs.len()]).collect();
            let blocks: String = (0..len).map(|p| cs[(p / 7) % cs.len()]).collect();
            tie_words.push(rnd);
            if rng.chance(1, 2) {
                tie_words.push(asc.iter().collect());
                tie_words.push(desc);
            } else {
                tie_words.push(pipe);
                tie_words.push(if rng.chance(1, 2) { alt } else { blocks });
            }
        }
    }
    for w in tie_words.iter() {
        for cs in 0..2 {
            for rev in 0..2 {
                fv_cases.push(format!("sort {cs} {rev} plain {w}"));
                fv_cases.push(format!("sort {cs} {rev} wrap {w}"));
                fv_cases.push(format!("sortm {cs} {rev} {w}"));
                fv_cases.push(format!("sortp {cs} {rev} {w}"));
                fv_cases.push(format!("sorti {cs} {rev} {w}"));
                fv_cases.push(format!("dictsort {cs} {rev} 1 {w}"));
            }
            fv_cases.push(format!("unique {cs} plain {w}"));
            fv_cases.push(format!("unique {cs} wrap {w}"));
            fv_cases.push(format!("groupby {cs} - {w}"));
        }
        fv_cases.push(format!("min {w}"));
        fv_cases.push(format!("max {w}"));
        // the same list with safe strings in place of some plain ones (wrapped items only)
        let ws: String = w.chars().enumerate().map(|(p, c)| if c == '3' && p % 2 == 1 { 'd' } else { c }).collect();
        fv_cases.push(format!("sort 0 0 wrap {ws}"));
        fv_cases.push(format!("sort 0 1 wrap {ws}"));
        fv_cases.push(format!("unique 0 wrap {ws}"));
    }
    for w in plain_words.iter() {
        for cs in 0..2 {
            for rev in 0..2 {
                fv_cases.push(format!("sort {cs} {rev} plain {}", wd(w)));
            }
            fv_cases.push(format!("unique {cs} plain {}", wd(w)));
        }
        fv_cases.push(format!("min {}", wd(w)));
        fv_cases.push(format!("max {}", wd(w)));
    }
    for w in wrap_words.iter().chain(long_words.iter()) {
        for cs in 0..2 {
            for rev in 0..2 {
                fv_cases.push(format!("sort {cs} {rev} wrap {}", wd(w)));
                fv_cases.push(format!("sortp {cs} {rev} {}", wd(w)));
                fv_cases.push(format!("sorti {cs} {rev} {}", wd(w)));
            }
            fv_cases.push(format!("unique {cs} wrap {}", wd(w)));
            fv_cases.push(format!("uniquep {cs} {}", wd(w)));
            fv_cases.push(format!("sortm {cs} 0 {}", wd(w)));
            fv_cases.push(format!("sortm {cs} 1 {}", wd(w)));
            fv_cases.push(format!("groupby {cs} - {}", wd(w)));
            fv_cases.push(format!("groupby {cs} 5 {}", wd(w)));
            fv_cases.push(format!("groupbyp {cs} 5 {}", wd(w)));
        }
    }
    for w in fv_words(if thorough { 3 } else { 2 }, true).iter() {
        for cs in 0..2 {
            for rev in 0..2 {
                for bv in 0..2 {
                    fv_cases.push(format!("dictsort {cs} {rev} {bv} {}", wd(w)));
                }
            }
        }
        for arg in PLAIN_LETTERS.chars() {
            for t in ["eq", "ne", "lt", "le", "gt", "ge"] {
                for inv in 0..2 {
                    fv_cases.push(format!("sel {t} {inv} plain {} {arg}", wd(w)));
                }
            }
            fv_cases.push(format!("sel eq 0 wrap {} {arg}", wd(w)));
            fv_cases.push(format!("sel lt 1 wrap {} {arg}", wd(w)));
            for c in ["seq", "tuple", "iter", "once", "oseq", "map", "omap"] {
                fv_cases.push(format!("cin {c} {} {arg}", wd(w)));
            }
        }
    }
    for w in fv_words(3, false).iter() {
        fv_cases.push(format!("lit {}", wd(w)));
    }
    for (u, c) in fv_cases.iter().enumerate() {
        if mine(u) {
            writeln!(out, "fv {c}\t{}", fv_run_case(&fv, c)).unwrap();
        }
    }
}

/// sum / zip / chain / items / list / sameas / pycompat methods against the Lean model (as `fv` cases)
fn gen_xf(out: &mut dyn Write, env: &Environment<'static>, thorough: bool, mine: &dyn Fn(usize) -> bool) {
    let fv = Fv { env, al: alphabet2(), idents: alphabet2().iter().map(|sp| ident(&build(sp))).collect() };
    for (k, sp) in fv.al.iter().enumerate() {
        writeln!(out, "fa {} {}\tok", &LETTERS[k..k + 1], enc(sp)).unwrap();
    }
    let wd = |w: &String| if w.is_empty() { "-".to_string() } else { w.clone() };
    let mut cases: Vec<String> = vec![];
    // sum: words over the integers of the alphabet (1, 2, 0, u128::MAX, -3, 2^64, i64::MAX, i128::MAX), a string, none
    let sum_letters: Vec<char> = "029cefgh36".chars().collect();
    let mut sum_words: Vec<String> = vec![String::new()];
    let mut cur = vec![String::new()];
    for _ in 0..(if thorough { 4 } else { 3 }) {
        let mut next = vec![];
        for w in &cur {
            for c in &sum_letters {
                next.push(format!("{w}{c}"));
            }
        }
        sum_words.extend(next.iter().cloned());
        cur = next;
    }
    for w in &sum_words {
        cases.push(format!("sum {}", wd(w)));
    }
    let w2 = fv_words(2, false);
    let w1 = fv_words(1, false);
    let w3: Vec<String> = fv_words(3, false).into_iter().filter(|w| w.len() == 3).step_by(if thorough { 5 } else { 47 }).collect();
    let bs: Vec<String> = w2.iter().step_by(if thorough { 5 } else { 19 }).chain(w3.iter().step_by(11)).cloned().collect();
    for a in w2.iter().chain(w3.iter()) {
        for b in bs.iter() {
            cases.push(format!("zip {} {}", wd(a), wd(b)));
            for kind in ["seq", "mixed", "tuple"] {
                cases.push(format!("chain {kind} {} {}", wd(a), wd(b)));
            }
        }
        for b in w1.iter().step_by(4) {
            for c in w2.iter().step_by(if thorough { 17 } else { 53 }) {
                cases.push(format!("zip3 {} {} {}", wd(a), wd(b), wd(c)));
                cases.push(format!("chain3 {} {} {}", wd(a), wd(b), wd(c)));
            }
        }
        cases.push(format!("items {}", wd(a)));
        for kind in ["seq", "tuple", "iter", "once", "oseq", "map", "omap", "str", "undef", "none"] {
            cases.push(format!("list {kind} {}", wd(a)));
        }
        for (p, arg) in PLAIN_LETTERS.chars().enumerate() {
            cases.push(format!("cnt seq {} {arg}", wd(a)));
            if p % 3 == 0 || thorough {
                cases.push(format!("cnt tuple {} {arg}", wd(a)));
                cases.push(format!("cnt oseq {} {arg}", wd(a)));
            }
            for meth in ["get", "get2"] {
                cases.push(format!("pyd {meth} {} {arg}", wd(a)));
            }
        }
        for meth in ["keys", "values", "items"] {
            cases.push(format!("pyd {meth} {} 0", wd(a)));
        }
    }
    // chained dictionaries: lookups and key iteration
    for a in fv_words(2, true).iter() {
        for b in fv_words(2, true).iter().step_by(if thorough { 3 } else { 9 }) {
            cases.push(format!("chain map {} {}", wd(a), wd(b)));
            cases.push(format!("chain mapu {} {}", wd(a), wd(b)));
        }
    }
    // keys that are `Equal` without being `==` (NaN) or `==` in another spelling (1 / 1.0) in both dictionaries
    for (a, b) in [("7", "7"), ("7", "71"), ("17", "70"), ("0", "1"), ("1", "0"), ("01", "10"), ("8", "9"), ("3", "d")] {
        cases.push(format!("chain map {a} {b}"));
        cases.push(format!("chain mapu {a} {b}"));
    }
    for a in LETTERS.chars() {
        for b in LETTERS.chars() {
            cases.push(format!("sameas {a} {b} diff"));
        }
        cases.push(format!("sameas {a} {a} same"));
    }
    for (u, c) in cases.iter().enumerate() {
        if mine(u) {
            writeln!(out, "fv {c}\t{}", fv_run_case(&fv, c)).unwrap();
        }
    }
}

fn main() {
    quiet_panics();
    let args: Vec<String> = std::env::args().collect();
    let out = std::io::stdout();
    let mut out = std::io::BufWriter::new(out.lock());
    let env = tpl_env();
    match args.get(1).map(|s| s.as_str()) {
        Some("zoo") => {
            for (k, s) in zoo(args.get(2).map_or(false, |t| t == "thorough")).iter().enumerate() {
                writeln!(out, "{k} {} {:?}", enc(s), build(s)).unwrap();
            }
        }
        Some("gen") => {
            let thorough = args.get(2).map_or(false, |t| t == "thorough");
            match args.get(3).map(|x| x.as_str()) {
                None | Some("all") => {
                    for part in PARTS {
                        gen_part(&mut out, &env, thorough, part);
                    }
                }
                Some(part) => gen_part(&mut out, &env, thorough, part),
            }
        }
        Some("one") => {
            let f: Vec<&str> = args[2..].iter().map(|s| s.as_str()).collect();
            let case = f.join(" ");
            let res = match f[0] {
                // replay form: `pairv <enc a> <enc b>` (self-contained)
                "pairv" => {
                    let (sa, sb) = (dec(f[1]), dec(f[2]));
                    let (a, b) = (build(&sa), build(&sb));
                    let p = run_pair_s(Some((&sa, &sb)), &a, &b);
                    let (a, b) = (build(&sa), build(&sb));
                    format!("{} | tpl {}", p, run_tpl(&env, &a, &b))
                }
                "valv" => run_val(&build(&dec(f[1]))),
                "flist" => run_flist(&env, f[1], if f[2] == "-" { "" } else { f[2] }),
                "rev" => run_rev(&env, f[1], if f[2] == "-" { "" } else { f[2] }),
                "dm" => Dm { env: &env, index_mode: std::env::var("C07_MODE").map_or(false, |m| m == "index") }.run(f[1]),
                "batch" | "slicef" => run_runs(&env, f[0], f[1].parse().unwrap(), f[2], f[3] == "1"),
                "fv" => {
                    let fv = Fv { env: &env, al: alphabet2(), idents: alphabet2().iter().map(|sp| ident(&build(sp))).collect() };
                    fv_run_case(&fv, &f[1..].join(" "))
                }
                "lk" => format!(
                    "{} [entries: {}]",
                    run_lk(&env, f[1], f[2].parse().unwrap(), &dec(f[3]), &dec(f[4])).unwrap_or_else(|| "n/a".into()),
                    LK_ENTRIES.join(",")
                ),
                _ => "bad-case".into(),
            };
            writeln!(out, "{case}\t{res}").unwrap();
        }
        _ => {
            eprintln!("usage: c07 gen <quick|thorough> | one <case…> | zoo");
            std::process::exit(2);
        }
    }
}
