//! C11 harness: run-time recursion is cut off by the recursion limit, never by the stack.
//!
//! A *case* is `<shape> <limit> <budget> <thread>`:
//!
//! * shape `T:<edges>` — cycle over template nodes `n0..`, `M:<edges>` — cycle over macro nodes
//!   `m0..` of one template, `B:<edges>` — cycle over block nodes `b0..` of one template
//!   (`<edges>` = comma separated `<kind><w><f><x><n>`: edge kind, number of `with` frames, number
//!   of `for` frames, a variant of frame-local work wrapped around the recursive step and a
//!   depth-neutral "noise" statement executed on the frame right before the step),
//!   `N:<ctx><n>` — the noise statement `n` 1000 times in a loop at top level / inside an include /
//!   a macro / a block / an include inside a macro (`ctx` = t, i, m, b, x),
//!   `S:<n>:<v>` — chain of `n` nested `super()` calls, `L:<d>:<v>` — recursive `for` loop over
//!   data nested `d` deep, `X:<edges>` — mixed cycle over nodes that exist both as macro `xm<i>` and
//!   as block `xb<i>` of one template; the edge kind says how node `i` reaches node `i+1`: lower
//!   case = as a block, upper case = as a macro, directly or through Rust callbacks (a function /
//!   filter / test / object implemented in Rust that calls `State::render_block`,
//!   `render_block_to_write`, `call_macro`, `Value::call`, also through `State::apply_filter`,
//!   `perform_test` and the builtin `map` / `select`);
//! * limit — `Environment::set_recursion_limit`;
//! * budget — `0`: the recursion is unbounded; `N>0`: the step is taken `N` times, then the
//!   program terminates by itself (`tick()` turns false);
//! * thread — `main` (the child's main thread) or `t2m` (`stack_size(2 << 20)`), followed by
//!   `+<token>`s: an entry point (`clone`, `write`, `captured`, `str`, `state`, `capcall`, `caprb`),
//!   `r<kind>` = kind of the root context value, `empty` = `Environment::empty()` (with the few
//!   builtins the shapes use added by hand) instead of `Environment::new()`, `deflimit` = the limit
//!   is NOT configured (the environment's default applies; the limit field must then be 500),
//!   `dbg` = `set_debug` flipped against the build's default; the AMBIENT configuration the charge
//!   of an edge must not depend on: `ubs` / `ubc` / `ubl` = undefined behaviour strict / chainable /
//!   semi-strict, `fuel` = fuel tracking on (a budget that is never exhausted), `aeh` = auto-escape
//!   Html for every template; `nest<R>` = the program is rendered inside `R - 1` renders started by a
//!   Rust function from template code (`fresh(name)` = `state.env().get_template(name)?.render(())`):
//!   every render is a root with a budget of its own; `stk` = the case is meant for the build with
//!   minijinja's `stacker` feature (the limit is then not clamped; no effect on the harness).
//!
//! Every case runs the REAL engine in a child process (re-exec of this binary, `batch` mode), so
//! a native stack overflow is observed as the child's death by signal.  Result line:
//!
//!   <case>\t<status>\t<hw_depth>\t<hw_native>\t<top kind>\t<root kind>\t<bytes>\t<overhead>\t<drift>\t<hw_hops>
//!
//! hw_hops: high-water mark of the re-entering Rust callbacks of this harness that were active at
//! the same time (counted by the callbacks themselves).
//!
//! drift: `-`, or `<construct>:<before>-><after>` for the first completed nested construct around
//! which `Context::depth()` (read through `verif_hooks::recursion::depth_of`) was not restored.
//!
//! status: `ok` | `err:recursion` (root cause InvalidOperation "recursion limit exceeded") |
//! `err:other:<kind>:<detail>` | `panic:<msg>` | `signal:<n>` | `exit:<code>`; `hw_*` are the
//! hook's high-water marks of `Context::depth()` / nested `eval_impl` activations; bytes = stack
//! pointer excursion from the first interpreter activation to the deepest point seen (hook at
//! `eval_impl` entry and inside `tick()`), overhead = thread entry to first activation.
//!
//! Built twice: by the harness package (feature `verif_hooks` of minijinja on: high-water marks and
//! depth probes) and with `--no-default-features` (cargo feature `hooks` off: minijinja WITHOUT `verif_hooks`, the
//! crate as users compile it: outcome and stack only).
//!
//! usage: c11 gen <quick|thorough>   — enumerate the cases, run them in children, print results
//!        c11 cases <quick|thorough> — print the case list only
//!        c11 one <case fields…>     — run one case in a child (replay)
//!        c11 batch                  — (child) cases on stdin, one result line each
//!        c11 show <shape>           — print the generated templates of a shape
//!        c11 leaf                   — (names of builtin filters / tests / functions on stdin, `<kind> <name>`)
//!                                     the deepest stack excursion of each below a plain function call, measured
//!                                     through a probing object that reports the stack pointer from its callbacks
use minijinja::value::Value;
#[cfg(feature = "hooks")]
use minijinja::verif_hooks::recursion;
use minijinja::{Environment, Error, ErrorKind, State};
use mjh::*;
use std::collections::BTreeMap;
use std::io::{BufRead, BufReader, Write};
use std::process::{Command, Stdio};
use std::sync::atomic::{AtomicI64, AtomicUsize, Ordering};
use std::sync::Mutex;

static BUDGET: AtomicI64 = AtomicI64::new(-1);
static TICK_LOW: AtomicUsize = AtomicUsize::new(usize::MAX);

#[inline(never)]
fn tick() -> bool {
    let marker = 0u8;
    let sp = &marker as *const u8 as usize;
    TICK_LOW.fetch_min(sp, Ordering::Relaxed);
    let b = BUDGET.load(Ordering::Relaxed);
    if b < 0 {
        true
    } else if b == 0 {
        false
    } else {
        BUDGET.store(b - 1, Ordering::Relaxed);
        true
    }
}

thread_local! {
    static HOPS: std::cell::Cell<usize> = const { std::cell::Cell::new(0) };
    static HOPS_HW: std::cell::Cell<usize> = const { std::cell::Cell::new(0) };
}

/// one re-entering Rust callback on the native stack
struct Hop;
impl Hop {
    fn enter() -> Hop {
        let n = HOPS.with(|h| {
            h.set(h.get() + 1);
            h.get()
        });
        HOPS_HW.with(|h| h.set(h.get().max(n)));
        Hop
    }
}
impl Drop for Hop {
    fn drop(&mut self) {
        HOPS.with(|h| h.set(h.get().saturating_sub(1)));
    }
}

fn rb(state: &mut State, name: String) -> Result<Value, Error> {
    let _hop = Hop::enter();
    state.render_block(&name).map(Value::from_safe_string)
}

/// `State::render_block_to_write` from a function
fn rbw(state: &mut State, name: String) -> Result<Value, Error> {
    let _hop = Hop::enter();
    let mut buf = Vec::<u8>::new();
    state.render_block_to_write(&name, &mut buf)?;
    Ok(Value::from_safe_string(String::from_utf8_lossy(&buf).into_owned()))
}

/// a filter implemented in Rust that renders a block
fn viarb(state: &mut State, _v: Value, name: String) -> Result<Value, Error> {
    let _hop = Hop::enter();
    state.render_block(&name).map(Value::from_safe_string)
}

/// a test implemented in Rust that renders a block
fn viarbt(state: &mut State, _v: Value, name: String) -> Result<bool, Error> {
    let _hop = Hop::enter();
    state.render_block(&name).map(|_| true)
}

/// an object implemented in Rust whose `call` and `call_method` render a block
#[derive(Debug)]
struct RenderObj;
impl minijinja::value::Object for RenderObj {
    fn call(self: &std::sync::Arc<Self>, state: &mut State<'_, '_>, args: &[Value]) -> Result<Value, Error> {
        let _hop = Hop::enter();
        let name = args.first().and_then(|v| v.as_str().map(|s| s.to_string())).unwrap_or_default();
        state.render_block(&name).map(Value::from_safe_string)
    }
    fn call_method(
        self: &std::sync::Arc<Self>,
        state: &mut State<'_, '_>,
        method: &str,
        args: &[Value],
    ) -> Result<Value, Error> {
        if method != "go" {
            return Err(Error::from(ErrorKind::UnknownMethod));
        }
        let _hop = Hop::enter();
        let name = args.first().and_then(|v| v.as_str().map(|s| s.to_string())).unwrap_or_default();
        state.render_block(&name).map(Value::from_safe_string)
    }
}

static DRIFT: Mutex<Option<String>> = Mutex::new(None);

/// the current `Context::depth()`
#[cfg(feature = "hooks")]
fn dp(state: &State) -> usize {
    recursion::depth_of(state)
}

/// the build without verification hooks (the crate as users compile it) cannot read the depth:
/// only the outcome and the stack are observed there
#[cfg(not(feature = "hooks"))]
fn dp(_state: &State) -> usize {
    0
}

/// the marks of a build without hooks: nothing but the deepest stack pointer seen in `tick()`
#[cfg(not(feature = "hooks"))]
mod recursion {
    pub struct Marks {
        pub native_high_water: usize,
        pub depth_high_water: usize,
        pub sp_top: usize,
        pub sp_low: usize,
    }
    pub fn reset() {}
    pub fn marks() -> Marks {
        Marks { native_high_water: 0, depth_high_water: 0, sp_top: 0, sp_low: usize::MAX }
    }
}

/// a completed nested construct must leave the depth as it found it
fn chk(kind: String, before: usize, after: usize) -> String {
    if before != after {
        let mut d = DRIFT.lock().unwrap();
        if d.is_none() {
            *d = Some(format!("{kind}:{before}->{after}"));
        }
    }
    String::new()
}

/// renders a block and swallows its error
fn tryb(state: &mut State, name: String) -> String {
    let _hop = Hop::enter();
    state.render_block(&name).unwrap_or_default()
}

/// `State::call_macro` from a function
fn cmf(state: &mut State, name: String) -> Result<Value, Error> {
    let _hop = Hop::enter();
    state.call_macro(&name, &[]).map(Value::from_safe_string)
}

static UQ: AtomicUsize = AtomicUsize::new(0);

/// a fresh number: `"deepx" ~ uq()` names a template the loader has not compiled yet
fn uq() -> usize {
    UQ.fetch_add(1, Ordering::Relaxed)
}

/// `Value::call` on a macro object from a Rust function
fn callv(state: &mut State, f: Value) -> Result<Value, Error> {
    let _hop = Hop::enter();
    f.call(state, &[])
}

/// `Value::call_method` from a Rust function (falls back to calling the attribute)
fn callmeth(state: &mut State, obj: Value, name: String) -> Result<Value, Error> {
    let _hop = Hop::enter();
    obj.call_method(state, &name, &[])
}

/// a filter implemented in Rust that calls a macro through `State::call_macro`
fn viaf(state: &mut State, _v: Value, name: String) -> Result<Value, Error> {
    let _hop = Hop::enter();
    state.call_macro(&name, &[]).map(Value::from_safe_string)
}

/// a test implemented in Rust that calls a macro through `State::call_macro`
fn viat(state: &mut State, _v: Value, name: String) -> Result<bool, Error> {
    let _hop = Hop::enter();
    state.call_macro(&name, &[]).map(|_| true)
}

/// `State::apply_filter` from a Rust function
fn af(state: &mut State, fname: String, arg: String) -> Result<Value, Error> {
    let _hop = Hop::enter();
    state.apply_filter(&fname, &[Value::from(1), Value::from(arg)])
}

/// `State::perform_test` from a Rust function
fn pt(state: &mut State, tname: String, arg: String) -> Result<bool, Error> {
    let _hop = Hop::enter();
    state.perform_test(&tname, &[Value::from(1), Value::from(arg)])
}

/// sources the loader makes up on demand (compiled lazily, at the native depth of the include)
fn lazy_source(name: &str) -> Option<String> {
    if name.starts_with("deepx") {
        // 70 parentheses: 140 levels of the parser's recursion guard (limit 150)
        Some(format!("{{{{ {}1{} }}}}", "(".repeat(70), ")".repeat(70)))
    } else if name.starts_with("deepl") {
        // nested lists: deep AST, so code generation and drop recurse as well
        Some(format!("{{{{ {}1{}|length }}}}", "[".repeat(60), "]".repeat(60)))
    } else if name.starts_with("deepb") {
        Some(format!("{}x{}", "{% if true %}".repeat(100), "{% endif %}".repeat(100)))
    } else if name.starts_with("dsyn") {
        Some(format!("{{{{ {}1 }}}}", "(".repeat(70)))
    } else if name.starts_with("dtoo") {
        Some(format!("{{{{ {}1{} }}}}", "(".repeat(200), ")".repeat(200)))
    } else {
        None
    }
}

/// a render started from inside a render: a new root (`Template::render` creates its own `Context`)
fn fresh(state: &State, name: String) -> Result<Value, Error> {
    state.env().get_template(&name)?.render(Value::UNDEFINED).map(Value::from_safe_string)
}

/// an object that reports the stack pointer whenever a builtin looks at it (leaf measurement)
#[derive(Debug)]
struct Probe(u32);
fn probe_sp() {
    let marker = 0u8;
    TICK_LOW.fetch_min(&marker as *const u8 as usize, Ordering::Relaxed);
}
impl minijinja::value::Object for Probe {
    fn repr(self: &std::sync::Arc<Self>) -> minijinja::value::ObjectRepr {
        probe_sp();
        if self.0 % 2 == 0 { minijinja::value::ObjectRepr::Seq } else { minijinja::value::ObjectRepr::Map }
    }
    fn get_value(self: &std::sync::Arc<Self>, key: &Value) -> Option<Value> {
        probe_sp();
        if self.0 >= 2 {
            return None;
        }
        match key.as_usize() {
            Some(i) if i < 3 => Some(Value::from_object(Probe(self.0 + 2))),
            _ => key.as_str().map(|_| Value::from_object(Probe(self.0 + 2))),
        }
    }
    fn enumerate(self: &std::sync::Arc<Self>) -> minijinja::value::Enumerator {
        probe_sp();
        if self.0 >= 2 {
            return minijinja::value::Enumerator::Empty;
        }
        if self.0 % 2 == 0 { minijinja::value::Enumerator::Seq(3) } else { minijinja::value::Enumerator::Str(&["a", "b", "c"]) }
    }
    fn render(self: &std::sync::Arc<Self>, f: &mut std::fmt::Formatter<'_>) -> std::fmt::Result {
        probe_sp();
        write!(f, "probe{}", self.0)
    }
    fn call(self: &std::sync::Arc<Self>, _state: &mut State<'_, '_>, _args: &[Value]) -> Result<Value, Error> {
        probe_sp();
        Ok(Value::from(1))
    }
}

/// `leaf` subcommand: for every named builtin, the deepest stack pointer any callback of the
/// probing object sees while the builtin runs, relative to a plain function called from the same
/// template level
fn leaf_measure(items: &[(String, String)]) -> Vec<String> {
    let mut env = Environment::new();
    env.add_function("tick", tick);
    env.add_global("p", Value::from_object(Probe(0)));
    env.add_global("q", Value::from_object(Probe(1)));
    let mut out = vec![];
    let base = {
        TICK_LOW.store(usize::MAX, Ordering::Relaxed);
        BUDGET.store(-1, Ordering::Relaxed);
        let _ = env.render_str("{{ tick() }}", ());
        TICK_LOW.load(Ordering::Relaxed)
    };
    for (kind, name) in items {
        let exprs: Vec<String> = match kind.as_str() {
            "filter" => ["p", "q", "[p, q, p]", "{'k': p, 'l': q}", "'text'", "3"]
                .iter()
                .flat_map(|v| {
                    vec![
                        format!("{{{{ {v}|{name} }}}}"),
                        format!("{{{{ {v}|{name}(p) }}}}"),
                        format!("{{{{ {v}|{name}('a') }}}}"),
                        format!("{{{{ {v}|{name}(1, q) }}}}"),
                        format!("{{{{ {v}|{name}(attribute='a') }}}}"),
                    ]
                })
                .collect(),
            "test" => ["p", "q", "[p, q]", "'text'", "3"]
                .iter()
                .flat_map(|v| vec![format!("{{{{ {v} is {name} }}}}"), format!("{{{{ {v} is {name}(p) }}}}"), format!("{{{{ {v} is {name}('a') }}}}")])
                .collect(),
            _ => vec![
                format!("{{{{ {name}() }}}}"),
                format!("{{{{ {name}(p) }}}}"),
                format!("{{{{ {name}(q) }}}}"),
                format!("{{{{ {name}(p, q) }}}}"),
                format!("{{{{ {name}(3) }}}}"),
                format!("{{{{ {name}(a=p, b=q) }}}}"),
            ],
        };
        let mut low = usize::MAX;
        let mut ran = 0;
        for e in exprs {
            TICK_LOW.store(usize::MAX, Ordering::Relaxed);
            let r = guarded(|| env.render_str(&e, ()));
            if matches!(r, Ok(Ok(_))) {
                ran += 1;
            }
            low = low.min(TICK_LOW.load(Ordering::Relaxed));
        }
        let bytes = if low == usize::MAX || base == usize::MAX { 0 } else { base.saturating_sub(low) };
        out.push(format!("leaf\t{kind}\t{name}\t{bytes}\t{ran}"));
    }
    out
}

/// a custom object as root context
#[derive(Debug)]
struct RootObj;
impl minijinja::value::Object for RootObj {}

#[derive(serde::Serialize)]
struct RootSer {
    unused: u32,
}

fn fail() -> Result<Value, Error> {
    Err(Error::new(ErrorKind::InvalidOperation, "boom"))
}

/// blocks the noise statements render through `State::render_block`; part of every template
/// whose block table can be the current one
const DEFS: &str = "{% if false %}{% block tinyblk %}t{% endblock %}{% block missblk %}{% include \"nope\" %}{% endblock %}{% block boomblk %}{% include \"boom\" %}{% endblock %}{% block synblk %}{% include \"dsyn\" ~ uq() %}{% endblock %}{% block tooblk %}{% include \"dtoo\" ~ uq() %}{% endblock %}{% endif %}";

const NOISE: [char; 17] = ['1', '2', '3', '4', '5', '6', '7', '8', '9', 'a', 'b', 'c', 'd', 'e', 'f', 'g', 'h'];

fn noise_name(n: char) -> &'static str {
    match n {
        '1' => "include-missing",
        '2' => "include-missing-list",
        '3' => "include",
        '4' => "import",
        '5' => "from-import",
        '6' => "macro-call",
        '7' => "call-block",
        '8' => "with-for",
        '9' => "render_block",
        'a' => "call_macro",
        'b' => "swallowed-missing-include",
        'c' => "swallowed-failing-include",
        'd' => "lazy-load-deep-expr",
        'e' => "lazy-load-deep-ast",
        'f' => "lazy-load-deep-stmts",
        'g' => "swallowed-lazy-syntax-error",
        'h' => "swallowed-lazy-parser-limit",
        'i' => "super",
        'j' => "captured-super",
        _ => "none",
    }
}

/// a statement that opens and closes depth-affecting constructs, between two depth probes
fn noise_src(n: char) -> String {
    let src = match n {
        '1' => "{% include \"nope\" ignore missing %}",
        '2' => "{% include [\"nope1\", \"nope2\"] ignore missing %}",
        '3' => "{% include \"tiny\" %}",
        '4' => "{% import \"tinymod\" as tm %}{{ tm.f() }}",
        '5' => "{% from \"tinymod\" import f %}{{ f() }}",
        '6' => "{% macro nz() %}.{% endmacro %}{{ nz() }}",
        '7' => "{% macro nw() %}[{{ caller() }}]{% endmacro %}{% call nw() %}c{% endcall %}",
        '8' => "{% with a = 1 %}{% for i in [1] %}{{ i }}{% endfor %}{% endwith %}",
        '9' => "{{ rb(\"tinyblk\") }}",
        'a' => "{% macro nzm() %}m{% endmacro %}{{ cmf(\"nzm\") }}",
        'b' => "{{ tryb(\"missblk\") }}",
        'c' => "{{ tryb(\"boomblk\") }}",
        'd' => "{% include \"deepx\" ~ uq() %}",
        'e' => "{% include \"deepl\" ~ uq() %}",
        'f' => "{% include \"deepb\" ~ uq() %}",
        'g' => "{{ tryb(\"synblk\") }}",
        'h' => "{{ tryb(\"tooblk\") }}",
        // only inside a block that has a parent (context `s` of the `N` family)
        'i' => "{{ super() }}",
        'j' => "{% set sq = super() %}{{ sq }}",
        _ => return String::new(),
    };
    format!("{{% set dq0 = dp() %}}{src}{{{{ chk(\"{}\", dq0, dp()) }}}}", noise_name(n))
}

// ------------------------------------------------------------------------------------ shapes

#[derive(Clone, Debug)]
struct Edge {
    kind: char,
    w: usize,
    f: usize,
    x: usize,
    n: char,
}

fn parse_edges(s: &str) -> Vec<Edge> {
    s.split(',')
        .map(|e| {
            let c: Vec<char> = e.chars().collect();
            assert!(c.len() == 5, "bad edge {e}");
            Edge {
                kind: c[0],
                w: c[1].to_digit(10).unwrap() as usize,
                f: c[2].to_digit(10).unwrap() as usize,
                x: c[3].to_digit(10).unwrap() as usize,
                n: c[4],
            }
        })
        .collect()
}

/// the non-recursive work of a frame, wrapped around the guarded recursive step
fn body(e: &Edge, step: &str) -> String {
    let mut s = String::new();
    match e.x {
        1 => s.push_str("{% set loc = \"ab\"|upper|length %}{{ loc }}"),
        2 => s.push_str("{% filter upper %}"),
        3 => s.push_str("{% set cap %}{{ [1, 2, 3]|map(\"string\")|join(\",\") }}"),
        4 => s.push_str("{% autoescape true %}{{ \"<\" }}"),
        _ => {}
    }
    for i in 0..e.w {
        s.push_str(&format!("{{% with wv{i} = {i} + 1 %}}"));
    }
    for i in 0..e.f {
        s.push_str(&format!("{{% for fv{i} in [7] %}}"));
    }
    s.push_str(&noise_src(e.n));
    s.push_str("{% if tick() %}");
    s.push_str(step);
    s.push_str("{% endif %}");
    for _ in 0..e.f {
        s.push_str("{% endfor %}");
    }
    for _ in 0..e.w {
        s.push_str("{% endwith %}");
    }
    match e.x {
        2 => s.push_str("{% endfilter %}"),
        3 => s.push_str("{% endset %}{{ cap }}"),
        4 => s.push_str("{% endautoescape %}"),
        _ => {}
    }
    s
}

fn loop2(inner: &str) -> String {
    format!("{{% for it in nest2 recursive %}}{{% if it.c %}}{{{{ loop(it.c) }}}}{{% else %}}{inner}{{% endif %}}{{% endfor %}}")
}

/// (templates, name of the template to render)
fn build(shape: &str) -> Result<(BTreeMap<String, String>, String), String> {
    let (mut t, entry) = build_inner(shape)?;
    let fam = &shape[..1];
    if matches!(fam, "T" | "M" | "B" | "X") {
        // the blocks the noise statements render must be in every block table that can be current
        let extends = t.contains_key("base");
        for (name, src) in t.iter_mut() {
            if (extends && name == "main") || name == "tbase" {
                continue;
            }
            *src = format!("{DEFS}{src}");
        }
    }
    t.insert("tiny".into(), "t".into());
    t.insert("tinymod".into(), "{% macro f() %}f{% endmacro %}".into());
    t.insert("boom".into(), "{{ fail() }}".into());
    t.insert("applylib".into(), "{% macro applym(f) %}{{ f() }}{% endmacro %}".into());
    Ok((t, entry))
}

fn build_inner(shape: &str) -> Result<(BTreeMap<String, String>, String), String> {
    let mut t = BTreeMap::new();
    let (fam, spec) = shape.split_once(':').ok_or("bad shape")?;
    match fam {
        "N" => {
            let c: Vec<char> = spec.chars().collect();
            if c.len() != 2 {
                return Err("bad N spec".into());
            }
            let name = noise_name(c[1]);
            let inner = format!(
                "{{% set dl0 = dp() %}}{{% for it in range(1000) %}}{}{{% endfor %}}{{{{ chk(\"loop-{name}\", dl0, dp()) }}}}",
                noise_src(c[1])
            );
            match c[0] {
                't' => {
                    t.insert("main".into(), format!("{DEFS}{inner}"));
                }
                'i' => {
                    t.insert("main".into(), "{% include \"inner\" %}".into());
                    t.insert("inner".into(), format!("{DEFS}{inner}"));
                }
                'm' => {
                    t.insert("main".into(), format!("{DEFS}{{% macro w() %}}{inner}{{% endmacro %}}{{{{ w() }}}}"));
                }
                'b' => {
                    t.insert("main".into(), format!("{DEFS}{{% block blk %}}{inner}{{% endblock %}}"));
                }
                'x' => {
                    t.insert("main".into(), "{% macro w() %}{% include \"inner\" %}{% endmacro %}{{ w() }}".into());
                    t.insert("inner".into(), format!("{DEFS}{inner}"));
                }
                // inside a block that overrides a parent's block: `super()` is available
                's' => {
                    t.insert("main".into(), format!("{{% extends \"nbase\" %}}{{% block blk %}}{inner}{{% endblock %}}"));
                    t.insert("nbase".into(), format!("{DEFS}{{% block blk %}}p{{% endblock %}}"));
                }
                _ => return Err("bad N ctx".into()),
            }
            Ok((t, "main".into()))
        }
        "T" => {
            let edges = parse_edges(spec);
            let n = edges.len();
            for (i, e) in edges.iter().enumerate() {
                let j = (i + 1) % n;
                let inc = format!("{{% include \"n{j}\" %}}");
                let src = match e.kind {
                    'I' => body(e, &inc),
                    'P' => body(e, &format!("{{% import \"n{j}\" as q %}}")),
                    // a list of candidates whose first does not exist; an optional include of a
                    // template that exists; both; from-import
                    'X' => body(e, &format!("{{% include [\"nope\", \"n{j}\"] %}}")),
                    'Z' => body(e, &format!("{{% include \"n{j}\" ignore missing %}}")),
                    'V' => body(e, &format!("{{% include [\"nope1\", \"n{j}\", \"nope2\"] ignore missing %}}")),
                    'F' => body(e, &format!("{{% from \"n{j}\" import zzz %}}")),
                    // the node extends a parent and does its work inside the block it overrides
                    'E' => format!("{{% extends \"tbase\" %}}{{% block tb %}}{}{{% endblock %}}", body(e, &inc)),
                    'W' => format!("{{% macro w() %}}{inc}{{% endmacro %}}{}", body(e, "{{ w() }}")),
                    'K' => format!(
                        "{{% macro k() %}}[{{{{ caller() }}}}]{{% endmacro %}}{}",
                        body(e, &format!("{{% call k() %}}{inc}{{% endcall %}}"))
                    ),
                    'B' => body(e, &format!("{{% block b %}}{inc}{{% endblock %}}")),
                    'L' => body(e, &loop2(&inc)),
                    'Y' => format!(
                        "{{% macro im() %}}{{% import \"n{j}\" as q %}}{{% endmacro %}}{}",
                        body(e, "{{ im() }}")
                    ),
                    k => return Err(format!("bad T edge {k}")),
                };
                t.insert(format!("n{i}"), src);
            }
            if edges.iter().any(|e| e.kind == 'E') {
                t.insert("tbase".into(), "[{% block tb %}{% endblock %}]".into());
            }
            Ok((t, "n0".into()))
        }
        "M" => {
            let edges = parse_edges(spec);
            let n = edges.len();
            // the higher-order macro is imported only where it is used: the import statement is
            // charged like an include while it runs
            let import = if edges.iter().any(|e| e.kind == 'I') { "{% from \"applylib\" import applym %}" } else { "" };
            let mut main = format!("{import}{{% macro cw() %}}<{{{{ caller() }}}}>{{% endmacro %}}");
            for (i, e) in edges.iter().enumerate() {
                let j = (i + 1) % n;
                let call = format!("{{{{ m{j}() }}}}");
                let b = match e.kind {
                    'M' => body(e, &call),
                    'A' => body(e, &format!("{{% set r = m{j}(1, b=2) %}}{{{{ r }}}}")),
                    'C' => body(e, &format!("{{% call cw() %}}{call}{{% endcall %}}")),
                    'L' => body(e, &loop2(&call)),
                    // recursion edges that pass through Rust: State::call_macro, Value::call,
                    // Value::call_method, filters/tests implemented in Rust (directly, through
                    // map/select, a filter block, State::apply_filter / perform_test)
                    'Q' => body(e, &format!("{{% if false %}}{{{{ m{j} }}}}{{% endif %}}{{{{ cmf(\"m{j}\") }}}}")),
                    'O' => body(e, &format!("{{{{ callv(m{j}) }}}}")),
                    'H' => body(e, &format!("{{% set ns = namespace() %}}{{% set ns.f = m{j} %}}{{{{ callmeth(ns, \"f\") }}}}")),
                    'F' => body(e, &format!("{{% if false %}}{{{{ m{j} }}}}{{% endif %}}{{{{ [1]|map(\"viaf\", \"m{j}\")|join }}}}")),
                    'E' => body(e, &format!("{{% if false %}}{{{{ m{j} }}}}{{% endif %}}{{{{ [1]|select(\"viat\", \"m{j}\")|list|length }}}}")),
                    'G' => body(e, &format!("{{% if false %}}{{{{ m{j} }}}}{{% endif %}}{{{{ af(\"viaf\", \"m{j}\") }}}}")),
                    'U' => body(e, &format!("{{% if false %}}{{{{ m{j} }}}}{{% endif %}}{{{{ pt(\"viat\", \"m{j}\") }}}}")),
                    'D' => body(e, &format!("{{% if false %}}{{{{ m{j} }}}}{{% endif %}}{{% filter viaf(\"m{j}\") %}}x{{% endfilter %}}")),
                    'N' => body(e, &format!("{{% call cw() %}}{{% call cw() %}}{call}{{% endcall %}}{{% endcall %}}")),
                    // a macro imported from another template that calls the macro it is handed
                    'I' => body(e, &format!("{{{{ applym(m{j}) }}}}")),
                    'J' => {
                        t.insert(format!("back{j}"), call.clone());
                        body(e, &format!("{{% if false %}}{{{{ m{j} }}}}{{% endif %}}{{% include \"back{j}\" %}}"))
                    }
                    k => return Err(format!("bad M edge {k}")),
                };
                main.push_str(&format!("{{% macro m{i}(a, b=0) %}}{b}{{% endmacro %}}"));
            }
            main.push_str("{{ m0() }}");
            t.insert("main".into(), main);
            Ok((t, "main".into()))
        }
        "B" => {
            let edges = parse_edges(spec);
            let n = edges.len();
            let has_super = edges.iter().any(|e| e.kind == 'S');
            let mut defs = String::new();
            let mut macros = String::new();
            let mut child = String::from("{% extends \"base\" %}");
            for (i, e) in edges.iter().enumerate() {
                let j = (i + 1) % n;
                let call = format!("{{{{ self.b{j}() }}}}");
                let b = match e.kind {
                    'B' => body(e, &call),
                    'V' => body(e, &format!("{{% set v = self.b{j}() %}}{{{{ v }}}}")),
                    'R' => body(e, &format!("{{{{ rb(\"b{j}\") }}}}")),
                    'M' => {
                        // a block rendered from inside a macro only sees what the macro's closure
                        // holds: make every wrapper macro enclose all of them
                        let refs: String = edges
                            .iter()
                            .enumerate()
                            .filter(|(_, e)| e.kind == 'M')
                            .map(|(q, _)| format!("{{{{ bm{q} }}}}"))
                            .collect();
                        macros.push_str(&format!("{{% macro bm{i}() %}}{{% if false %}}{refs}{{% endif %}}{call}{{% endmacro %}}"));
                        body(e, &format!("{{{{ bm{i}() }}}}"))
                    }
                    'L' => body(e, &loop2(&call)),
                    'S' => {
                        defs.push_str(&format!("{{% block x{i} %}}{call}{{% endblock %}}"));
                        child.push_str(&format!("{{% block x{i} %}}({{{{ super() }}}}){{% endblock %}}"));
                        body(e, &format!("{{{{ self.x{i}() }}}}"))
                    }
                    k => return Err(format!("bad B edge {k}")),
                };
                defs.push_str(&format!("{{% block b{i} %}}{b}{{% endblock %}}"));
            }
            let base = format!("{macros}{{% if false %}}{defs}{{% endif %}}{{{{ self.b0() }}}}");
            if has_super {
                t.insert("base".into(), base);
                t.insert("main".into(), child);
            } else {
                t.insert("main".into(), base);
            }
            Ok((t, "main".into()))
        }
        "X" => {
            let edges = parse_edges(spec);
            let n = edges.len();
            let mut macros = String::from("{% macro cw() %}<{{ caller() }}>{% endmacro %}");
            let mut defs = String::new();
            // every macro encloses all of them: a block rendered inside a macro resolves names
            // through the macro's closure
            let refs: String = (0..n).map(|q| format!("{{{{ xm{q} }}}}")).collect::<String>() + "{{ cw }}";
            for (i, e) in edges.iter().enumerate() {
                let j = (i + 1) % n;
                let step = match e.kind {
                    'b' => format!("{{{{ self.xb{j}() }}}}"),
                    'r' => format!("{{{{ rb(\"xb{j}\") }}}}"),
                    'w' => format!("{{{{ rbw(\"xb{j}\") }}}}"),
                    'f' => format!("{{{{ 1|viarb(\"xb{j}\") }}}}"),
                    't' => format!("{{{{ 1 is viarbt(\"xb{j}\") }}}}"),
                    'g' => format!("{{{{ af(\"viarb\", \"xb{j}\") }}}}"),
                    'u' => format!("{{{{ pt(\"viarbt\", \"xb{j}\") }}}}"),
                    'p' => format!("{{{{ [1]|map(\"viarb\", \"xb{j}\")|join }}}}"),
                    's' => format!("{{{{ [1]|select(\"viarbt\", \"xb{j}\")|list|length }}}}"),
                    'o' => format!("{{{{ robj(\"xb{j}\") }}}}"),
                    'h' => format!("{{{{ robj.go(\"xb{j}\") }}}}"),
                    'M' => format!("{{{{ xm{j}() }}}}"),
                    'Q' => format!("{{{{ cmf(\"xm{j}\") }}}}"),
                    'O' => format!("{{{{ callv(xm{j}) }}}}"),
                    'F' => format!("{{{{ 1|viaf(\"xm{j}\") }}}}"),
                    'T' => format!("{{{{ 1 is viat(\"xm{j}\") }}}}"),
                    'G' => format!("{{{{ af(\"viaf\", \"xm{j}\") }}}}"),
                    'P' => format!("{{{{ [1]|map(\"viaf\", \"xm{j}\")|join }}}}"),
                    'C' => format!("{{% call cw() %}}{{{{ xm{j}() }}}}{{% endcall %}}"),
                    k => return Err(format!("bad X edge {k}")),
                };
                let b = body(e, &step);
                macros.push_str(&format!("{{% macro xm{i}() %}}{{% if false %}}{refs}{{% endif %}}{b}{{% endmacro %}}"));
                defs.push_str(&format!("{{% block xb{i} %}}{b}{{% endblock %}}"));
            }
            t.insert("main".into(), format!("{macros}{{% if false %}}{defs}{{% endif %}}{{{{ self.xb0() }}}}"));
            Ok((t, "main".into()))
        }
        "S" => {
            let (n, v) = spec.split_once(':').ok_or("bad S spec")?;
            let n: usize = n.parse().map_err(|_| "bad n")?;
            let sup = if v == "1" { "{% set q = super() %}{{ q }}" } else { "{{ super() }}" };
            for i in 0..n {
                t.insert(
                    format!("c{i}"),
                    format!("{{% extends \"c{}\" %}}{{% block a %}}[{sup}]{{% endblock %}}", i + 1),
                );
            }
            // the innermost block probes the stack pointer (`tick`), so that builds without hooks
            // measure the chain as well
            t.insert(format!("c{n}"), "{% block a %}END{% if tick() %}{% endif %}{% endblock %}".into());
            Ok((t, "c0".into()))
        }
        "L" => {
            let (_d, v) = spec.split_once(':').ok_or("bad L spec")?;
            let rec = if v == "1" { "{% set q = loop(it.c) %}{{ q }}" } else { "{{ loop(it.c) }}" };
            t.insert(
                "main".into(),
                format!("{{% for it in tree recursive %}}({rec}){{% endfor %}}"),
            );
            Ok((t, "main".into()))
        }
        _ => Err("bad family".into()),
    }
}

fn nest(d: usize) -> Value {
    // nest(0) = [], nest(d) = [{c: nest(d-1)}]
    let mut v = Value::from(Vec::<Value>::new());
    for _ in 0..d {
        let mut m = BTreeMap::new();
        m.insert("c".to_string(), v);
        v = Value::from(vec![Value::from(m)]);
    }
    v
}

// ------------------------------------------------------------------------------------ one run

fn root_cause(e: &Error) -> (ErrorKind, String) {
    let mut cur: &dyn std::error::Error = e;
    let mut last: (ErrorKind, String) = (e.kind(), e.detail().unwrap_or("").to_string());
    while let Some(next) = cur.source() {
        if let Some(me) = next.downcast_ref::<Error>() {
            last = (me.kind(), me.detail().unwrap_or("").to_string());
        }
        cur = next;
    }
    last
}

#[inline(never)]
fn run_here(shape: &str, limit: usize, budget: i64, mode: &str) -> String {
    let top_marker = 0u8;
    let top = &top_marker as *const u8 as usize;
    let (templates, entry) = match build(shape) {
        Ok(x) => x,
        Err(e) => return format!("bad-case:{e}\t0\t0\t-\t-\t0\t0\t-\t0"),
    };
    let toks: Vec<&str> = mode.split('+').filter(|t| !t.is_empty()).collect();
    let mut env = if toks.contains(&"empty") {
        // `Environment::empty()`: no builtins; the few the shapes use are added by hand
        let mut env = Environment::empty();
        env.add_filter("upper", minijinja::filters::upper);
        env.add_filter("length", minijinja::filters::length);
        env.add_filter("map", minijinja::filters::map);
        env.add_filter("select", minijinja::filters::select);
        env.add_filter("join", minijinja::filters::join);
        env.add_filter("list", minijinja::filters::list);
        env.add_filter("string", minijinja::filters::string);
        env.add_function("range", minijinja::functions::range);
        env.add_function("namespace", minijinja::functions::namespace);
        env
    } else {
        Environment::new()
    };
    if !toks.contains(&"deflimit") {
        env.set_recursion_limit(limit);
    }
    // the ambient configuration: nothing of it may enter the depth accounting
    for t in &toks {
        match *t {
            "ubs" => env.set_undefined_behavior(minijinja::UndefinedBehavior::Strict),
            "ubc" => env.set_undefined_behavior(minijinja::UndefinedBehavior::Chainable),
            "ubl" => env.set_undefined_behavior(minijinja::UndefinedBehavior::SemiStrict),
            "fuel" => env.set_fuel(Some(u64::MAX / 4)),
            "aeh" => env.set_auto_escape_callback(|_| minijinja::AutoEscape::Html),
            _ => {}
        }
    }
    if toks.contains(&"dbg") {
        // the other setting of `Environment::set_debug` than the build's default: with it the error
        // raised at the bottom of the recursion carries a rendering of the variables in scope
        env.set_debug(!cfg!(debug_assertions));
    }
    env.add_function("rbw", rbw);
    env.add_filter("viarb", viarb);
    env.add_test("viarbt", viarbt);
    env.add_global("robj", Value::from_object(RenderObj));
    env.add_function("tick", tick);
    env.add_function("rb", rb);
    env.add_function("fresh", fresh);
    env.add_function("dp", dp);
    env.add_function("chk", chk);
    env.add_function("tryb", tryb);
    env.add_function("cmf", cmf);
    env.add_function("fail", fail);
    env.add_function("uq", uq);
    env.add_function("callv", callv);
    env.add_function("callmeth", callmeth);
    env.add_function("af", af);
    env.add_function("pt", pt);
    env.add_filter("viaf", viaf);
    env.add_test("viat", viat);
    // `<mode>` and `r<root kind>` tokens
    let mut root_kind = 'm';
    let mut entry_mode = "";
    let mut nest_renders: usize = 1;
    for tok in mode.split('+').filter(|t| !t.is_empty()) {
        if tok.len() == 2 && tok.starts_with('r') {
            root_kind = tok.chars().nth(1).unwrap();
        } else if let Some(r) = tok.strip_prefix("nest") {
            nest_renders = r.parse().unwrap_or(1);
        } else if !["empty", "deflimit", "dbg", "ubs", "ubc", "ubl", "fuel", "aeh", "stk"].contains(&tok) {
            entry_mode = tok;
        }
    }
    let mode = entry_mode;
    let mut templates = templates;
    let mut entry = entry;
    for k in 1..nest_renders {
        // wrapper k renders the previous entry through a Rust function: a fresh render
        let name = format!("nestwrap{k}");
        templates.insert(name.clone(), format!("{{{{ fresh({:?}) }}}}", entry));
        entry = name;
    }
    let entry_source = templates.get(&entry).cloned().unwrap_or_default();
    env.set_loader(move |name| Ok(templates.get(name).cloned().or_else(|| lazy_source(name))));
    // the limit is configured before the environment is cloned
    let env = if mode == "clone" { env.clone() } else { env };
    let tree_depth = match shape.split(':').collect::<Vec<_>>()[..] {
        ["L", d, _] => d.parse().unwrap_or(0),
        _ => 0,
    };
    let tree = nest(tree_depth);
    let nest2 = nest(2);
    // the data the shapes use is global, so that every kind of root context renders the same program
    let mut env = env;
    env.add_global("tree", tree.clone());
    env.add_global("nest2", nest2.clone());
    BUDGET.store(if budget == 0 { -1 } else { budget }, Ordering::Relaxed);
    TICK_LOW.store(usize::MAX, Ordering::Relaxed);
    recursion::reset();
    *DRIFT.lock().unwrap() = None;
    UQ.store(0, Ordering::Relaxed);
    HOPS.with(|h| h.set(0));
    HOPS_HW.with(|h| h.set(0));
    let r = guarded(|| {
        // the root context of the render: its KIND must not matter for the depth accounting
        let ctx = match root_kind {
            'u' => Value::from(()),
            'x' => Value::UNDEFINED,
            'o' => Value::from_object(RootObj),
            'e' => minijinja::context! {},
            's' => Value::from(minijinja::value::Serde(RootSer { unused: 1 })),
            _ => {
                let mut ctx = BTreeMap::new();
                ctx.insert("unused", Value::from(1));
                Value::from(ctx)
            }
        };
        match mode {
            // a finished render, then a macro / block called from Rust on the captured state
            "capcall" | "caprb" => {
                let tmpl = env.get_template(&entry)?;
                BUDGET.store(0, Ordering::Relaxed);
                let mut captured = tmpl.render_captured(ctx)?;
                BUDGET.store(if budget == 0 { -1 } else { budget }, Ordering::Relaxed);
                recursion::reset();
                TICK_LOW.store(usize::MAX, Ordering::Relaxed);
                if mode == "capcall" {
                    captured.with_state_mut(|state| state.call_macro("m0", &[]))
                } else {
                    captured.with_state_mut(|state| state.render_block("b0"))
                }
            }
            "write" => {
                let tmpl = env.get_template(&entry)?;
                let mut sink = Vec::<u8>::new();
                tmpl.render_captured_to(ctx, &mut sink).map(|_| String::new())
            }
            "captured" => {
                let tmpl = env.get_template(&entry)?;
                tmpl.render_captured(ctx).map(|c| c.output().to_string())
            }
            "str" => env.render_named_str(&entry, &entry_source, ctx),
            "state" => {
                // an empty state (no frame, no root activation) and a block rendered from Rust
                let tmpl = env.get_template(&entry)?;
                let mut state = tmpl.new_state();
                state.render_block("b0")
            }
            _ => {
                let tmpl = env.get_template(&entry)?;
                tmpl.render(ctx)
            }
        }
    });
    let m = recursion::marks();
    let low = m.sp_low.min(TICK_LOW.load(Ordering::Relaxed));
    let (bytes, over) = if m.sp_top != 0 {
        (m.sp_top.saturating_sub(low), top.saturating_sub(m.sp_top))
    } else if low != usize::MAX {
        // no hooks: from the start of the case to the deepest `tick()`
        (top.saturating_sub(low), 0)
    } else {
        (0, 0)
    };
    let (status, topk, rootk) = match r {
        Ok(Ok(_)) => ("ok".to_string(), "-".to_string(), "-".to_string()),
        Ok(Err(e)) => {
            let (rk, rd) = root_cause(&e);
            let st = if rk == ErrorKind::InvalidOperation && rd.contains("recursion limit exceeded") {
                "err:recursion".to_string()
            } else {
                format!("err:other:{:?}:{}", rk, rd.replace(['\t', '\n'], " "))
            };
            (st, format!("{:?}", e.kind()), format!("{:?}", rk))
        }
        Err(p) => (format!("panic:{}", p.replace(['\t', '\n'], " ")), "-".into(), "-".into()),
    };
    // dropping deeply nested data must not be what overflows: done here, inside the case
    drop(tree);
    let drift = DRIFT.lock().unwrap().take().unwrap_or_else(|| "-".into());
    let hops = HOPS_HW.with(|h| h.get());
    format!("{status}\t{}\t{}\t{topk}\t{rootk}\t{bytes}\t{over}\t{drift}\t{hops}", m.depth_high_water, m.native_high_water)
}

fn run_case(case: &str) -> String {
    let f: Vec<&str> = case.split(' ').collect();
    if f.len() != 4 {
        return "bad-case:fields\t0\t0\t-\t-\t0\t0\t-\t0".into();
    }
    let shape = f[0].to_string();
    let limit: usize = f[1].parse().unwrap_or(0);
    let budget: i64 = f[2].parse().unwrap_or(0);
    let (thread, mode) = f[3].split_once('+').unwrap_or((f[3], ""));
    let mode = mode.to_string();
    match thread {
        "main" => run_here(&shape, limit, budget, &mode),
        "t2m" => std::thread::Builder::new()
            .stack_size(2 << 20)
            .spawn(move || run_here(&shape, limit, budget, &mode))
            .unwrap()
            .join()
            .unwrap_or_else(|_| "panic:thread\t0\t0\t-\t-\t0\t0\t-\t0".into()),
        _ => "bad-case:thread\t0\t0\t-\t-\t0\t0\t-\t0".into(),
    }
}

// ------------------------------------------------------------------------------------ parent

/// run `cases` in child processes; a child that dies is restarted after the case in flight
fn run_in_children(cases: &[String]) -> Vec<String> {
    let exe = std::env::current_exe().unwrap();
    let workers = std::thread::available_parallelism().map(|n| n.get()).unwrap_or(4).min(16).max(1);
    let chunk = ((cases.len() + workers - 1) / workers).max(1);
    let mut handles = vec![];
    for part in cases.chunks(chunk) {
        let part: Vec<String> = part.to_vec();
        let exe = exe.clone();
        handles.push(std::thread::spawn(move || {
            let mut results: Vec<String> = Vec::with_capacity(part.len());
            while results.len() < part.len() {
                let todo = &part[results.len()..];
                let mut child = Command::new(&exe)
                    .arg("batch")
                    .stdin(Stdio::piped())
                    .stdout(Stdio::piped())
                    .stderr(Stdio::null())
                    .spawn()
                    .expect("spawn child");
                // feed stdin from a thread of its own: the child's stdout pipe fills up long before
                // a large batch has been written
                let feeder = {
                    let mut stdin = child.stdin.take().unwrap();
                    let text = todo.join("\n") + "\n";
                    std::thread::spawn(move || {
                        // the pipe may close early when the child dies; ignore
                        let _ = stdin.write_all(text.as_bytes());
                    })
                };
                let out = BufReader::new(child.stdout.take().unwrap());
                let before = results.len();
                for line in out.lines() {
                    match line {
                        Ok(l) => results.push(l),
                        Err(_) => break,
                    }
                }
                let status = child.wait().expect("wait");
                let _ = feeder.join();
                if results.len() < part.len() && (!status.success() || results.len() == before) {
                    use std::os::unix::process::ExitStatusExt;
                    let what = match status.signal() {
                        Some(s) => format!("signal:{s}"),
                        None => format!("exit:{}", status.code().unwrap_or(-1)),
                    };
                    let case = &part[results.len()];
                    results.push(format!("{case}\t{what}\t0\t0\t-\t-\t0\t0\t-\t0"));
                }
            }
            results
        }));
    }
    let mut all = vec![];
    for h in handles {
        all.extend(h.join().unwrap());
    }
    all
}

// ------------------------------------------------------------------------------------ generation

const AMBIENT: [&str; 5] = ["ubs", "ubc", "ubl", "fuel", "aeh"];
const T_KINDS: [char; 12] = ['I', 'P', 'W', 'K', 'B', 'L', 'Y', 'X', 'Z', 'V', 'F', 'E'];
const X_KINDS: [char; 19] = ['b', 'r', 'w', 'f', 't', 'g', 'u', 'p', 's', 'o', 'h', 'M', 'Q', 'O', 'F', 'T', 'G', 'P', 'C'];
const M_KINDS: [char; 15] = ['M', 'A', 'C', 'L', 'J', 'Q', 'O', 'H', 'F', 'E', 'G', 'U', 'D', 'N', 'I'];
const B_KINDS: [char; 6] = ['B', 'V', 'R', 'M', 'L', 'S'];

fn edge_str(kind: char, rng: &mut Rng, plain: bool) -> String {
    // every frame carries a depth-neutral noise statement
    let n = *rng.pick(&NOISE);
    if plain {
        format!("{kind}000{n}")
    } else {
        format!("{kind}{}{}{}{n}", rng.below(3), rng.below(3), rng.below(5))
    }
}

fn shapes(thorough: bool, rng: &mut Rng) -> Vec<String> {
    let mut v: Vec<String> = vec![];
    let fams = [("T", &T_KINDS[..]), ("M", &M_KINDS[..]), ("B", &B_KINDS[..]), ("X", &X_KINDS[..])];
    // pure cycles of each edge kind (no extra work, no noise: the stack measurements), length 1 and 2
    for (fam, kinds) in fams {
        for k in kinds {
            v.push(format!("{fam}:{k}0000"));
            v.push(format!("{fam}:{k}0000,{k}0000"));
        }
    }
    // every edge kind with every depth-neutral noise statement on its frame
    for (fam, kinds) in fams {
        for (ki, k) in kinds.iter().enumerate() {
            // the mixed family and the include variants take a rotating third of the statements
            let sparse = fam == "X" || (fam == "T" && ['X', 'Z', 'V', 'F', 'E'].contains(k)) || (fam == "M" && *k == 'I');
            for (ni, n) in NOISE.iter().enumerate() {
                if sparse && (ni + ki) % 3 != 0 {
                    continue;
                }
                v.push(format!("{fam}:{k}000{n}"));
            }
        }
    }
    // the same with frame-local work
    for (fam, kinds) in fams {
        for k in kinds {
            v.push(format!("{fam}:{}", edge_str(*k, rng, false)));
        }
    }
    // mixed cycles of length 2..4
    let n_mixed = if thorough { 1800 } else { 60 };
    for i in 0..n_mixed {
        let (fam, kinds) = fams[i % 4];
        let len = 2 + rng.below(3) as usize;
        let es: Vec<String> = (0..len)
            .map(|_| {
                let k = *rng.pick(kinds);
                let plain = rng.chance(1, 4);
                edge_str(k, rng, plain)
            })
            .collect();
        v.push(format!("{fam}:{}", es.join(",")));
    }
    v.sort();
    v.dedup();
    v
}

fn cases(tier: &str) -> Vec<String> {
    let thorough = tier == "thorough";
    let mut rng = Rng::new(seed_from_env());
    let limits: Vec<usize> = if thorough { (1..=500).step_by(7).chain([2, 10, 100, 500]).collect() } else { vec![1, 2, 10, 100, 500] };
    let mut limits = limits;
    limits.sort();
    limits.dedup();
    let mut out = vec![];
    let shapes = shapes(thorough, &mut rng);
    for (si, sh) in shapes.iter().enumerate() {
        // thorough: every shape at 500 and at a rotating subset of the other limits
        for (li, &limit) in limits.iter().enumerate() {
            // (limit 100 stays for the pure cycles: with 500 it gives the two-limit stack slopes)
            let plain = !sh.contains(',') && sh.ends_with("0000");
            if thorough && limit != 500 && limit > 10 && (li + si) % 16 != 0 && !(plain && limit == 100) {
                continue;
            }
            // one edge kind x one noise statement (the bulk of the shapes): no limit 1 (everything
            // fails at once), the main thread only at the default limit, one terminating variant
            let noisy = !sh.contains(',') && &sh[3..6] == "000" && !sh.ends_with('0');
            if noisy && limit == 1 {
                continue;
            }
            for th in ["main", "t2m"] {
                if noisy && th == "main" && limit != 500 {
                    continue;
                }
                out.push(format!("{sh} {limit} 0 {th}"));
            }
            // the kind of the root context is an axis of every stream
            let rk = ['u', 'x', 'o', 'e', 's', 'x'][(si + li) % 6];
            out.push(format!("{sh} {limit} 0 t2m+r{rk}"));
            // so is the ambient configuration (undefined behaviour, fuel, auto-escape)
            let amb = AMBIENT[(si + 2 * li) % AMBIENT.len()];
            out.push(format!("{sh} {limit} 0 t2m+{amb}"));
            // a terminating variant: budget below what the limit admits, and one near it
            let b1 = 1 + rng.below(3) as usize;
            let b2 = 1 + rng.below(limit as u64 / 2 + 2) as usize;
            if !noisy {
                out.push(format!("{sh} {limit} {b1} t2m"));
            }
            out.push(format!("{sh} {limit} {b2} t2m"));
        }
    }
    // a limit above the maximum is clamped (no `stacker`): behaves like the default
    for sh in shapes.iter().filter(|s| !s.contains(',') && s.ends_with("0000")) {
        for th in ["main", "t2m"] {
            out.push(format!("{sh} 100000 0 {th}"));
        }
        out.push(format!("{sh} 501 170 t2m"));
    }
    // limit configuration and entry points: limit 0 and usize::MAX, the environment cloned after
    // the limit was set, render_captured / render_captured_to (io::Write) / render_named_str, and
    // a block rendered from Rust on an empty state (`Template::new_state`)
    for sh in shapes.iter().filter(|s| !s.contains(',') && s.ends_with("0000")) {
        for limit in ["0", "18446744073709551615"] {
            out.push(format!("{sh} {limit} 0 t2m"));
            out.push(format!("{sh} {limit} 2 t2m"));
        }
        for mode in ["clone", "write", "captured", "str"] {
            out.push(format!("{sh} 100 0 t2m+{mode}"));
            out.push(format!("{sh} 500 0 t2m+{mode}"));
            out.push(format!("{sh} 500 3 main+{mode}"));
        }
    }
    // configuration: `Environment::empty()` instead of `Environment::new()`, and the limit left at
    // the environment's default (not configured at all)
    for sh in shapes.iter().filter(|s| !s.contains(',') && s.ends_with("0000")) {
        out.push(format!("{sh} 500 0 t2m+deflimit"));
        out.push(format!("{sh} 500 0 t2m+empty+deflimit"));
        out.push(format!("{sh} 500 0 t2m+empty"));
        out.push(format!("{sh} 100 0 main+empty"));
        out.push(format!("{sh} 500 3 t2m+empty+deflimit"));
        out.push(format!("{sh} 10 0 t2m+empty+clone"));
        out.push(format!("{sh} 500 0 t2m+dbg"));
    }
    // the ambient configuration x every pure cycle: the charge of an edge does not depend on the
    // undefined behaviour, the fuel or the auto-escape setting (alone and all at once); and the same
    // program inside renders started by a Rust function: every render has its own budget
    for sh in shapes.iter().filter(|s| !s.contains(',') && s.ends_with("0000")) {
        for amb in AMBIENT.iter().chain(["ubs+fuel+aeh", "ubc+fuel+empty"].iter()) {
            out.push(format!("{sh} 10 0 t2m+{amb}"));
            out.push(format!("{sh} 500 0 t2m+{amb}"));
            out.push(format!("{sh} 100 3 t2m+{amb}"));
        }
        out.push(format!("{sh} 100 0 t2m+nest2"));
        out.push(format!("{sh} 500 0 t2m+nest3"));
        out.push(format!("{sh} 10 2 t2m+nest4+fuel"));
    }
    // finite recursions with more nested steps than the limit has units: every step is charged at
    // least one unit, so none of them can complete
    for sh in shapes.iter().filter(|s| !s.contains(',') && s.ends_with("0000")) {
        for limit in [2usize, 10, 100] {
            out.push(format!("{sh} {limit} {} t2m", limit + 1));
            out.push(format!("{sh} {limit} {} t2m", 2 * limit + 3));
        }
    }
    // every root kind for every pure cycle; a macro / block called from Rust after a finished render
    for sh in shapes.iter().filter(|s| !s.contains(',') && s.ends_with("0000")) {
        for rk in ['u', 'x', 'o', 'e', 's'] {
            for limit in [10usize, 100, 500] {
                out.push(format!("{sh} {limit} 0 t2m+r{rk}"));
            }
            out.push(format!("{sh} 500 0 t2m+captured+r{rk}"));
            if sh.starts_with("X:") {
                continue;
            }
            if sh.starts_with("M:") {
                out.push(format!("{sh} 100 0 t2m+capcall+r{rk}"));
                out.push(format!("{sh} 500 0 t2m+capcall+r{rk}"));
            }
            if sh.starts_with("B:") && !sh.starts_with("B:S") && !sh.starts_with("B:M") {
                out.push(format!("{sh} 100 0 t2m+caprb+r{rk}"));
            }
        }
    }
    for k in ['B', 'V', 'R'] {
        for limit in [1usize, 2, 10, 100, 500] {
            for budget in [0usize, 1, 5] {
                out.push(format!("B:{k}0000 {limit} {budget} t2m+state"));
            }
        }
        out.push(format!("B:{k}0000,{k}0000 500 0 main+state"));
    }
    // a completed super() (direct and captured) restores the depth: 1000 times in a loop
    for n in ['i', 'j', '3', '6', '8', '9'] {
        for &limit in &[2usize, 3, 10, 100, 500] {
            out.push(format!("N:s{n} {limit} 0 t2m"));
        }
        out.push(format!("N:s{n} 500 0 main"));
    }
    // drift detection: every noise statement 1000 times in a loop, in every surrounding
    for ctx in ['t', 'i', 'm', 'b', 'x'] {
        for n in NOISE {
            for &limit in &[1usize, 2, 10, 30, 100, 500] {
                out.push(format!("N:{ctx}{n} {limit} 0 t2m"));
            }
            out.push(format!("N:{ctx}{n} 500 0 main"));
        }
    }
    // super chains and recursive loops: below, at and above the limit
    for &limit in &limits {
        if thorough && limit > 10 && limit % 5 != 0 && limit != 500 {
            continue;
        }
        for v in ["0", "1"] {
            let mut ns: Vec<usize> = vec![1, limit.saturating_sub(3).max(1), limit.saturating_sub(2).max(1), limit.saturating_sub(1).max(1), limit, limit + 1, limit + 7];
            ns.sort();
            ns.dedup();
            for n in ns {
                for th in ["main", "t2m"] {
                    out.push(format!("S:{n}:{v} {limit} 0 {th}"));
                    out.push(format!("L:{n}:{v} {limit} 0 {th}"));
                }
            }
        }
    }
    out
}

fn main() {
    quiet_panics();
    let args: Vec<String> = std::env::args().collect();
    let stdout = std::io::stdout();
    match args.get(1).map(|s| s.as_str()) {
        Some("batch") => {
            let stdin = std::io::stdin();
            for line in stdin.lock().lines() {
                let line = line.unwrap();
                let case = line.trim();
                if case.is_empty() {
                    continue;
                }
                let r = run_case(case);
                let mut o = stdout.lock();
                writeln!(o, "{case}\t{r}").unwrap();
                o.flush().unwrap();
            }
        }
        Some("cases") => {
            let tier = args.get(2).map(|s| s.as_str()).unwrap_or("quick");
            let mut o = stdout.lock();
            for c in cases(tier) {
                writeln!(o, "{c}").unwrap();
            }
        }
        Some("gen") => {
            let tier = args.get(2).map(|s| s.as_str()).unwrap_or("quick");
            let cs = cases(tier);
            let rs = run_in_children(&cs);
            let mut o = std::io::BufWriter::new(stdout.lock());
            for r in rs {
                writeln!(o, "{r}").unwrap();
            }
        }
        Some("run") => {
            // cases on stdin, run in children
            let stdin = std::io::stdin();
            let cs: Vec<String> = stdin.lock().lines().map(|l| l.unwrap().trim().to_string()).filter(|l| !l.is_empty()).collect();
            let rs = run_in_children(&cs);
            let mut o = std::io::BufWriter::new(stdout.lock());
            for r in rs {
                writeln!(o, "{r}").unwrap();
            }
        }
        Some("one") => {
            let case = args[2..].join(" ");
            for r in run_in_children(&[case]) {
                println!("{r}");
            }
        }
        Some("leaf") => {
            let stdin = std::io::stdin();
            let items: Vec<(String, String)> = stdin
                .lock()
                .lines()
                .filter_map(|l| {
                    let l = l.ok()?;
                    let (a, b) = l.trim().split_once(' ')?;
                    Some((a.to_string(), b.to_string()))
                })
                .collect();
            for l in leaf_measure(&items) {
                println!("{l}");
            }
        }
        Some("show") => {
            match build(&args[2]) {
                Ok((t, entry)) => {
                    println!("render {entry}");
                    for (k, v) in t {
                        println!("--- {k}\n{v}");
                    }
                }
                Err(e) => println!("error: {e}"),
            }
        }
        _ => {
            eprintln!("usage: c11 gen|cases <quick|thorough> | one <case> | run | batch | show <shape>");
            std::process::exit(2);
        }
    }
}
