//! C04 harness: compile-time evaluation is transparent (literals behave like variables).
//!
//! Generates expressions over the literal syntax, and for every expression and every subset of
//! its literal leaves hoists those leaves into context variables `v0..vn` bound to the SAME
//! values (obtained by evaluating the literal alone, i.e. exactly what the lexer/parser built),
//! renders `{{ E }}` for every variant and reports the distinct outcomes.  It also dumps the real
//! parser's AST (for the Lean model), the real folder's answer (`Expr::as_const`), whether the
//! real code generator emitted a single `LoadConst`, and the values of the all-literal and
//! all-hoisted variants.
//!
//! One line per case, TAB separated:
//!   0 case key   `<mode> <hex(src)> <start-end,start-end,…|-> <t|e> <tag>`   (spans = literal leaves in src)
//!   1 ast        tokens of the real AST of the all-literal source (grammar below)
//!   2 load       `ok` | `err:<Kind>` | `panic`  (worst over all variants: template_from_str)
//!   3 k          number of literal leaves
//!   4 nvar       number of hoisting variants rendered
//!   5 lit        render outcome of the all-literal variant   `ok:<hex text>` | `err:<Kind>` | `panic`
//!   6 hoist      render outcome of the all-hoisted variant
//!   7 diff       `-` or `<mask>=<outcome>;…` for every variant whose outcome differs from `lit`
//!   8 fold       real `Expr::as_const()` of the all-literal AST: `none` | `some <value>`
//!   9 code       real instruction stream of the all-literal source: `const <value>` | `rt`
//!  10 vallit     `compile_expression(all-literal).eval`: `ok <value>` | `err:<Kind>` | `panic`
//!  11 valhoist   `compile_expression(all-hoisted).eval(ctx)`
//!  12 cfg        environment configuration of the case (plain | html | formatter | nodebug | syntax)
//!  13 tag        generator of the case: `-` | `sized:<e|s><form>:<n>:<class>`
//!  14 codes      `-` or `<mask>|<ast tokens of the variant>|<LoadConst values of its instruction stream, comma separated>;…`
//!
//! Spans may nest (a literal container around its literal items); bit i of a mask = span i hoisted, a
//! hoisted outer span hides the spans inside it.
//!
//! AST tokens: `k <value>` const | `v <name>` | `L n E*` | `T n E*` | `M n (E E)*` | `not E` |
//! `neg E` | `b <op> E E` | `c n E (<op> E)*` | `call npos nkw E* (<name> E)*` | `X`.
//! Value tokens: `U` `N` `B0` `B1` `I<dec>` `F<16 hex bits>` `Fnan` `S<hex>` `Y<hex>`
//! `L( … )` `T( … )` `M( k v … )` `O` `X`.  Lazy iterables are dumped as `L( … )`.
//!
//! usage: c04 gen <quick|thorough>
//!        c04 one <mode> <hex(src)> <spans>
use minijinja::machinery::{ast, get_compiled_template, parse_expr, CodeGenerator, Instruction};
use minijinja::value::{Kwargs, Rest, Value, ValueKind};
use minijinja::{Environment, Error, UndefinedBehavior};
use mjh::*;
use std::collections::BTreeMap;
use std::io::Write;

// ------------------------------------------------------------------------------------ value dump
fn dump_value(v: &Value, out: &mut String) {
    if v.is_undefined() {
        out.push('U');
        return;
    }
    if v.is_none() {
        out.push('N');
        return;
    }
    match v.kind() {
        ValueKind::Bool => out.push_str(if v.is_true() { "B1" } else { "B0" }),
        ValueKind::Number => {
            if v.is_integer() {
                out.push('I');
                out.push_str(&v.to_string());
            } else {
                match f64::try_from(v.clone()) {
                    Ok(f) if f.is_nan() => out.push_str("Fnan"),
                    Ok(f) => out.push_str(&format!("F{:016x}", f.to_bits())),
                    Err(_) => out.push('X'),
                }
            }
        }
        ValueKind::String => {
            out.push('S');
            out.push_str(&hex(v.as_str().unwrap().as_bytes()));
        }
        ValueKind::Bytes => {
            out.push('Y');
            out.push_str(&hex(v.as_bytes().unwrap()));
        }
        ValueKind::Seq | ValueKind::Iterable => {
            out.push_str(if v.is_tuple() { "T(" } else { "L(" });
            match v.try_iter() {
                Ok(it) => {
                    for (n, item) in it.enumerate() {
                        if n > 4096 {
                            out.push_str(" X");
                            break;
                        }
                        out.push(' ');
                        dump_value(&item, out);
                    }
                }
                Err(_) => out.push_str(" X"),
            }
            out.push_str(" )");
        }
        ValueKind::Map => {
            out.push_str("M(");
            match v.try_iter() {
                Ok(it) => {
                    for key in it {
                        out.push(' ');
                        dump_value(&key, out);
                        out.push(' ');
                        match v.get_item(&key) {
                            Ok(x) => dump_value(&x, out),
                            Err(_) => out.push('X'),
                        }
                    }
                }
                Err(_) => out.push_str(" X"),
            }
            out.push_str(" )");
        }
        ValueKind::Plain => out.push('O'),
        _ => out.push('X'),
    }
}

fn value_str(v: &Value) -> String {
    let mut s = String::new();
    dump_value(v, &mut s);
    s
}

// ------------------------------------------------------------------------------------ AST dump
fn binop_name(op: &ast::BinOpKind) -> &'static str {
    use ast::BinOpKind::*;
    match op {
        Eq => "eq",
        Ne => "ne",
        Lt => "lt",
        Lte => "le",
        Gt => "gt",
        Gte => "ge",
        ScAnd => "and",
        ScOr => "or",
        Add => "add",
        Sub => "sub",
        Mul => "mul",
        Div => "div",
        FloorDiv => "fdiv",
        Rem => "rem",
        Pow => "pow",
        Concat => "cat",
        In => "in",
    }
}

fn cmpop_name(op: &ast::CompareOpKind) -> &'static str {
    use ast::CompareOpKind::*;
    match op {
        Eq => "eq",
        Ne => "ne",
        Lt => "lt",
        Lte => "le",
        Gt => "gt",
        Gte => "ge",
        In => "in",
        NotIn => "notin",
    }
}

/// the general call form: `callx <kind> <nrecv> <name> <nargs> recv* (p E | ps E | k <name> E | ks E)*`
fn dump_callx(kind: &str, name: &str, recv: Option<&ast::Expr>, args: &[ast::CallArg], out: &mut Vec<String>) {
    out.push("callx".into());
    out.push(kind.into());
    out.push(if recv.is_some() { "1" } else { "0" }.into());
    out.push(if name.is_empty() { "-".into() } else { name.into() });
    out.push(args.len().to_string());
    if let Some(e) = recv {
        dump_expr(e, out);
    }
    for a in args {
        match a {
            ast::CallArg::Pos(e) => {
                out.push("p".into());
                dump_expr(e, out);
            }
            ast::CallArg::PosSplat(e) => {
                out.push("ps".into());
                dump_expr(e, out);
            }
            ast::CallArg::Kwarg(n, e) => {
                out.push("k".into());
                out.push(n.to_string());
                dump_expr(e, out);
            }
            ast::CallArg::KwargSplat(e) => {
                out.push("ks".into());
                dump_expr(e, out);
            }
        }
    }
}

fn dump_args(tag: &str, name: &str, first: Option<&ast::Expr>, args: &[ast::CallArg], out: &mut Vec<String>) -> bool {
    let mut pos: Vec<&ast::Expr> = vec![];
    let mut kws: Vec<(&str, &ast::Expr)> = vec![];
    for a in args {
        match a {
            ast::CallArg::Pos(e) if kws.is_empty() => pos.push(e),
            ast::CallArg::Kwarg(n, e) => kws.push((n, e)),
            _ => {
                // `*args` / `**kwargs` (or a positional argument after a keyword): the general form
                let kind = match tag {
                    "call" => "function",
                    "filt" => "filter",
                    _ => "test",
                };
                dump_callx(kind, name, first, args, out);
                return true;
            }
        }
    }
    out.push(tag.into());
    out.push(name.into());
    out.push(pos.len().to_string());
    out.push(kws.len().to_string());
    if let Some(e) = first {
        dump_expr(e, out);
    }
    for e in pos {
        dump_expr(e, out);
    }
    for (n, e) in kws {
        out.push(n.to_string());
        dump_expr(e, out);
    }
    true
}

fn dump_opt(e: &Option<ast::Expr>, out: &mut Vec<String>) {
    match e {
        Some(e) => dump_expr(e, out),
        None => out.push("_".into()),
    }
}

fn dump_expr(e: &ast::Expr, out: &mut Vec<String>) {
    match e {
        ast::Expr::Const(c) => {
            out.push("k".into());
            out.push(value_str(&c.value));
        }
        ast::Expr::Var(v) => {
            out.push("v".into());
            out.push(v.id.to_string());
        }
        ast::Expr::List(l) => {
            out.push("L".into());
            out.push(l.items.len().to_string());
            for i in &l.items {
                dump_expr(i, out);
            }
        }
        ast::Expr::Tuple(l) => {
            out.push("T".into());
            out.push(l.items.len().to_string());
            for i in &l.items {
                dump_expr(i, out);
            }
        }
        ast::Expr::Map(m) => {
            out.push("M".into());
            out.push(m.keys.len().to_string());
            for (k, v) in m.keys.iter().zip(m.values.iter()) {
                dump_expr(k, out);
                dump_expr(v, out);
            }
        }
        ast::Expr::UnaryOp(u) => {
            out.push(match u.op {
                ast::UnaryOpKind::Not => "not".into(),
                ast::UnaryOpKind::Neg => "neg".into(),
            });
            dump_expr(&u.expr, out);
        }
        ast::Expr::BinOp(b) => {
            out.push("b".into());
            out.push(binop_name(&b.op).into());
            dump_expr(&b.left, out);
            dump_expr(&b.right, out);
        }
        ast::Expr::Compare(c) => {
            out.push("c".into());
            out.push(c.ops.len().to_string());
            dump_expr(&c.expr, out);
            for op in &c.ops {
                out.push(cmpop_name(&op.op).into());
                dump_expr(&op.expr, out);
            }
        }
        ast::Expr::Call(c) => match &c.expr {
            ast::Expr::Var(v) => {
                dump_args("call", v.id, None, &c.args, out);
            }
            // `self.name(..)` is a block call, not a method call
            ast::Expr::GetAttr(g) if matches!(&g.expr, ast::Expr::Var(v) if v.id == "self") => out.push("X".into()),
            ast::Expr::GetAttr(g) => dump_callx("method", g.name, Some(&g.expr), &c.args, out),
            callee => dump_callx("object", "", Some(callee), &c.args, out),
        },
        ast::Expr::Filter(f) => {
            let ok = f.expr.is_some() && dump_args("filt", f.name, f.expr.as_ref(), &f.args, out);
            if !ok {
                out.push("X".into());
            }
        }
        ast::Expr::Test(t) => {
            if !dump_args("test", t.name, Some(&t.expr), &t.args, out) {
                out.push("X".into());
            }
        }
        ast::Expr::GetAttr(g) => {
            out.push("ga".into());
            out.push(g.name.to_string());
            dump_expr(&g.expr, out);
        }
        ast::Expr::GetItem(g) => {
            out.push("gi".into());
            dump_expr(&g.expr, out);
            dump_expr(&g.subscript_expr, out);
        }
        ast::Expr::Slice(sl) => {
            out.push("sl".into());
            dump_expr(&sl.expr, out);
            dump_opt(&sl.start, out);
            dump_opt(&sl.stop, out);
            dump_opt(&sl.step, out);
        }
        ast::Expr::IfExpr(i) => {
            out.push("if".into());
            dump_expr(&i.test_expr, out);
            dump_expr(&i.true_expr, out);
            dump_opt(&i.false_expr, out);
        }
        #[allow(unreachable_patterns)]
        _ => out.push("X".into()),
    }
}

// ------------------------------------------------------------------------------------ statement shape
/// `<Kind> <name|-> <nheads> <nbodies> (<len> stmt*)*`: the Rust variant, the declared name (block,
/// macro), the number of head expressions compiled through `compile_expr` / `compile_call`, and the
/// statement lists in field order
fn dump_stmt(s: &ast::Stmt, out: &mut Vec<String>) {
    fn node(kind: &str, name: &str, heads: usize, bodies: &[&[ast::Stmt]], out: &mut Vec<String>) {
        out.push(kind.into());
        out.push(if name.is_empty() { "-".into() } else { name.into() });
        out.push(heads.to_string());
        out.push(bodies.len().to_string());
        for b in bodies {
            out.push(b.len().to_string());
            for s in b.iter() {
                dump_stmt(s, out);
            }
        }
    }
    match s {
        ast::Stmt::Template(t) => node("Template", "", 0, &[&t.children], out),
        ast::Stmt::EmitExpr(_) => node("EmitExpr", "", 1, &[], out),
        ast::Stmt::EmitRaw(_) => node("EmitRaw", "", 0, &[], out),
        ast::Stmt::ForLoop(f) => node("ForLoop", "", 1 + f.filter_expr.is_some() as usize, &[&f.body, &f.else_body], out),
        ast::Stmt::IfCond(c) => node("IfCond", "", 1, &[&c.true_body, &c.false_body], out),
        ast::Stmt::WithBlock(w) => node("WithBlock", "", w.assignments.len(), &[&w.body], out),
        ast::Stmt::Set(_) => node("Set", "", 1, &[], out),
        ast::Stmt::SetBlock(b) => node("SetBlock", "", b.filter.is_some() as usize, &[&b.body], out),
        ast::Stmt::AutoEscape(a) => node("AutoEscape", "", 1, &[&a.body], out),
        ast::Stmt::FilterBlock(f) => node("FilterBlock", "", 1, &[&f.body], out),
        ast::Stmt::Block(b) => node("Block", b.name, 0, &[&b.body], out),
        ast::Stmt::Import(_) => node("Import", "", 1, &[], out),
        ast::Stmt::FromImport(_) => node("FromImport", "", 1, &[], out),
        ast::Stmt::Extends(_) => node("Extends", "", 1, &[], out),
        ast::Stmt::Include(_) => node("Include", "", 1, &[], out),
        ast::Stmt::Macro(m) => node("Macro", m.name, m.defaults.len(), &[&m.body], out),
        // the call is a head; the generated `caller` macro carries the body
        ast::Stmt::CallBlock(c) => node("CallBlock", "", 1 + c.macro_decl.defaults.len(), &[&c.macro_decl.body], out),
        ast::Stmt::Continue(_) => node("Continue", "", 0, &[], out),
        ast::Stmt::Break(_) => node("Break", "", 0, &[], out),
        ast::Stmt::Do(_) => node("Do", "", 1, &[], out),
        #[allow(unreachable_patterns)]
        _ => node("X", "", 0, &[], out),
    }
}

// ------------------------------------------------------------------------------------ environment
fn kw_impl(args: Rest<Value>, kwargs: Kwargs) -> Value {
    let mut keys: Vec<String> = kwargs.args().map(|s| s.to_string()).collect();
    keys.sort();
    let pairs: Vec<Value> = keys
        .iter()
        .map(|k| Value::from(vec![Value::from(k.clone()), kwargs.get::<Value>(k).unwrap_or(Value::UNDEFINED)]))
        .collect();
    Value::from(vec![Value::from(args.0), Value::from(pairs)])
}

/// `ob.m(..)` (a method), `ob.f(..)` (an item called with method syntax), `ob["f"](..)` (an object call):
/// all answer like `kw`
#[derive(Debug)]
struct Ob;

impl minijinja::value::Object for Ob {
    fn get_value(self: &std::sync::Arc<Self>, key: &Value) -> Option<Value> {
        match key.as_str() {
            Some("f") => Some(Value::from_function(kw_impl)),
            _ => None,
        }
    }

    fn call_method(
        self: &std::sync::Arc<Self>,
        state: &mut minijinja::State<'_, '_>,
        method: &str,
        args: &[Value],
    ) -> Result<Value, Error> {
        if method == "m" {
            let (a, k): (Rest<Value>, Kwargs) = minijinja::value::from_args(args)?;
            let _ = state;
            Ok(kw_impl(a, k))
        } else {
            Err(Error::from(minijinja::ErrorKind::UnknownMethod))
        }
    }
}

/// `x is kwt(args…, name=value…)`: true iff the number of arguments plus the number of keyword names is even
fn kwt_impl(_v: Value, args: Rest<Value>, kwargs: Kwargs) -> bool {
    let n = kwargs.args().count();
    for k in kwargs.args().map(|s| s.to_string()).collect::<Vec<_>>() {
        let _ = kwargs.get::<Value>(&k);
    }
    (args.0.len() + n) % 2 == 0
}

fn mk_env(mode: &str, cfg: usize) -> Environment<'static> {
    let mut env = Environment::new();
    match cfg {
        1 => env.set_auto_escape_callback(|_| minijinja::AutoEscape::Html),
        2 => env.set_formatter(|out, state, value| {
            if value.is_none() {
                out.write_str("NULL").map_err(Error::from)
            } else {
                minijinja::escape_formatter(out, state, value)
            }
        }),
        3 => env.set_debug(false),
        4 => env.set_syntax(
            minijinja::syntax::SyntaxConfig::builder()
                .variable_delimiters("@{", "}@")
                .block_delimiters("<%", "%>")
                .comment_delimiters("<#", "#>")
                .build()
                .unwrap(),
        ),
        _ => {}
    }
    env.set_undefined_behavior(match mode {
        "lenient" => UndefinedBehavior::Lenient,
        "chainable" => UndefinedBehavior::Chainable,
        "semistrict" => UndefinedBehavior::SemiStrict,
        "strict" => UndefinedBehavior::Strict,
        _ => panic!("bad mode"),
    });
    env.add_function("kw", kw_impl);
    env.add_filter("kwf", kw_impl);
    env.add_test("kwt", kwt_impl);
    env.add_global("ob", Value::from_object(Ob));
    env.add_template("inc_a.txt", "[a:{{ v0 is defined }}]").unwrap();
    env.add_template("inc_b.txt", "[b]").unwrap();
    env.add_template("base.txt", "<{% block b %}base{% endblock %}|{% block c %}c{% endblock %}>").unwrap();
    env.add_template("use_child.txt", "{% extends \"t.txt\" %}{% block b %}CHILD-B{% endblock %}{% block c %}CHILD-C({{ super() }}){% endblock %}").unwrap();
    env.add_template("use_grandchild.txt", "{% extends \"use_child.txt\" %}{% block title %}GC-T{% endblock %}{% block b %}GC-B({{ super() }}){% endblock %}").unwrap();
    env.add_template("use_import.txt", "{% import \"t.txt\" as t %}[{{ t.g }}|{{ t.m is defined }}|{% if t.m is defined %}{{ t.m() }}{% endif %}]").unwrap();
    env.add_template("use_from.txt", "{% from \"t.txt\" import g %}<{{ g }}>").unwrap();
    env.add_template("use_include.txt", "({% include \"t.txt\" %})").unwrap();
    env.add_template("mac.txt", "{% macro f(x, y=7) %}f({{ x }},{{ y }}){% endmacro %}{% set g = 3 %}").unwrap();
    env
}

fn outcome<T>(r: Result<Result<T, Error>, String>, f: impl FnOnce(T) -> String) -> String {
    match r {
        Ok(Ok(v)) => f(v),
        Ok(Err(e)) => format!("err:{}", error_kind_name(&e)),
        Err(_) => "panic".into(),
    }
}

// ------------------------------------------------------------------------------------ one case
struct Case {
    mode: String,
    src: String,
    spans: Vec<(usize, usize)>,
    /// `src` is a whole template (statement stream) instead of an expression
    tmpl: bool,
    /// which generator produced the case (`-` | `sized:<form>:<n>:<class>`); not part of the key
    tag: String,
}

fn fnv(s: &str) -> u64 {
    s.bytes().fold(0xcbf29ce484222325u64, |h, b| (h ^ b as u64).wrapping_mul(0x100000001b3))
}

const CFGS: [&str; 5] = ["plain", "html", "formatter", "nodebug", "syntax"];
const ENTRY_POINTS: [&str; 8] = [
    "template_from_str", "render_str", "render_named_str", "add_template_owned", "render_captured_to", "render_captured",
    "template_from_named_str", "expression_api",
];

impl Case {
    /// environment configuration of this case (a function of the source, so replay needs no extra field)
    fn cfg(&self) -> usize {
        // `cfg<n>` in the tag forces the configuration (the emission seeds run under every one)
        if let Some(n) = self.tag.strip_prefix("cfg") {
            return n.parse().unwrap_or(0);
        }
        match fnv(&self.src) % 8 {
            0..=3 => 0,
            4 => 1,
            5 => 2,
            6 => 3,
            _ => if self.tmpl { 0 } else { 4 },
        }
    }

    /// `{{ E }}` in the syntax of the configuration
    fn wrap(&self, e: &str) -> String {
        if self.cfg() == 4 { format!("@{{ {} }}@", e) } else { format!("{{{{ {} }}}}", e) }
    }

    fn key(&self) -> String {
        let spans = if self.spans.is_empty() {
            "-".to_string()
        } else {
            self.spans.iter().map(|(a, b)| format!("{}-{}", a, b)).collect::<Vec<_>>().join(",")
        };
        format!("{} {} {} {} {}", self.mode, hex(self.src.as_bytes()), spans, if self.tmpl { "t" } else { "e" }, self.tag)
    }

    /// Spans may NEST: a container literal whose items are literals is a leaf (the whole container is
    /// hoisted) and so is every item; spans are listed outer first, in source order.  A hoisted outer
    /// span hides the spans inside it.
    fn variant(&self, mask: u128) -> String {
        let mut out = String::new();
        let mut pos = 0;
        for (i, (a, b)) in self.spans.iter().enumerate() {
            if *a < pos {
                continue; // inside a span that was replaced
            }
            if mask >> i & 1 == 1 {
                out.push_str(&self.src[pos..*a]);
                out.push_str(&format!("v{}", i));
                pos = *b;
            }
        }
        out.push_str(&self.src[pos..]);
        out
    }

    /// for every span the innermost span that contains it
    fn parents(&self) -> Vec<Option<usize>> {
        let mut ps = vec![None; self.spans.len()];
        for i in 0..self.spans.len() {
            for j in (0..i).rev() {
                if self.spans[j].0 <= self.spans[i].0 && self.spans[i].1 <= self.spans[j].1 {
                    ps[i] = Some(j);
                    break;
                }
            }
        }
        ps
    }
}

/// the hoisting subsets of a case: bit i = span i is replaced by `v<i>`
struct Masks {
    /// every scalar leaf hoisted, containers built at run time from variables
    all_inner: u128,
    /// everything hoisted as far out as possible (whole literal containers)
    all_outer: u128,
    list: Vec<u128>,
}

/// All subsets up to `full` leaves (modulo "an outer span hides its items"); beyond that `cap` sampled
/// ones: none, all-outer, all-inner, every container alone, every top-level scalar alone, item singletons
/// (first/last/spread when there are many), co-singletons, each container with one more leaf, random.
fn masks(c: &Case, rng: &mut Rng, full: usize, cap: usize) -> Masks {
    let k = c.spans.len().min(127);
    let parents = c.parents();
    let has_child: Vec<bool> = (0..k).map(|i| parents.iter().any(|p| *p == Some(i))).collect();
    let normal = |m: u128| -> u128 {
        let mut r = m;
        for i in 0..k {
            let mut p = parents[i];
            while let Some(j) = p {
                if m >> j & 1 == 1 {
                    r &= !(1u128 << i);
                }
                p = parents[j];
            }
        }
        r
    };
    let all: u128 = if k == 0 { 0 } else { (1u128 << k) - 1 };
    let all_inner: u128 = (0..k).filter(|i| !has_child[*i]).fold(0, |m, i| m | 1 << i);
    let all_outer = normal(all);
    let mut ms: Vec<u128> = vec![];
    let push = |ms: &mut Vec<u128>, m: u128| {
        let m = normal(m & all);
        if !ms.contains(&m) {
            ms.push(m);
        }
    };
    if k <= full {
        for m in 0..1u128 << k {
            push(&mut ms, m);
        }
        return Masks { all_inner, all_outer, list: ms };
    }
    push(&mut ms, 0);
    push(&mut ms, all_outer);
    push(&mut ms, all_inner);
    let top: Vec<usize> = (0..k).filter(|i| has_child[*i] || parents[*i].is_none()).collect();
    let items: Vec<usize> = (0..k).filter(|i| !(has_child[*i] || parents[*i].is_none())).collect();
    for i in &top {
        push(&mut ms, 1 << i);
    }
    // every top-level leaf together with all items hoisted one by one, and all items without it
    for i in &top {
        if !has_child[*i] {
            push(&mut ms, all_inner & !(1 << i));
            push(&mut ms, all_outer & !(1 << i));
        }
    }
    let budget = cap.saturating_sub(ms.len()).max(8);
    if items.len() <= budget / 2 {
        for i in &items {
            push(&mut ms, 1 << i);
        }
    } else {
        let n = items.len();
        let mut chosen: Vec<usize> = vec![0, 1, n / 2, n - 2, n - 1, 7.min(n - 1), 8.min(n - 1)];
        while chosen.len() < budget / 2 {
            chosen.push(rng.below(n as u64) as usize);
        }
        for j in chosen {
            push(&mut ms, 1 << items[j]);
        }
    }
    // a top-level scalar hoisted together with one item
    for i in &top {
        if !has_child[*i] && !items.is_empty() && ms.len() < cap {
            push(&mut ms, 1 << i | 1 << items[rng.below(items.len() as u64) as usize]);
        }
    }
    for i in 0..k {
        if ms.len() >= cap {
            break;
        }
        push(&mut ms, all_inner & !(1 << i));
    }
    let mut tries = 0;
    while ms.len() < cap && tries < 4 * cap {
        let r = (rng.next() as u128) << 64 | rng.next() as u128;
        // random subsets of the scalar leaves; now and then with whole containers
        push(&mut ms, if tries % 3 == 0 { r } else { r & all_inner });
        tries += 1;
    }
    Masks { all_inner, all_outer, list: ms }
}

/// spans of the scalar literals inside a container literal of the generator's zoo
fn scalar_spans(text: &str) -> Vec<(usize, usize)> {
    let b = text.as_bytes();
    let mut out = vec![];
    let mut i = 0;
    while i < b.len() {
        let c = b[i];
        if c == b'"' || c == b'\'' {
            let mut j = i + 1;
            while j < b.len() && b[j] != c {
                j += if b[j] == b'\\' { 2 } else { 1 };
            }
            out.push((i, j + 1));
            i = j + 1;
        } else if c.is_ascii_digit() {
            let mut j = i;
            while j < b.len() && (b[j].is_ascii_alphanumeric() || b[j] == b'.' || ((b[j] == b'+' || b[j] == b'-') && (b[j - 1] == b'e' || b[j - 1] == b'E'))) {
                j += 1;
            }
            out.push((i, j));
            i = j;
        } else if c.is_ascii_alphabetic() {
            let mut j = i;
            while j < b.len() && b[j].is_ascii_alphanumeric() {
                j += 1;
            }
            out.push((i, j));
            i = j;
        } else {
            i += 1;
        }
    }
    out
}

/// The value a literal denotes.  A scalar is evaluated alone (the constant the lexer/parser built).
/// A container literal is *constructed at run time* from its scalars (every scalar replaced by a
/// variable), so that its value does not come out of the constant folder under test.
fn leaf_value(env: &Environment, lit: &str) -> Option<Value> {
    let scalar = |t: &str| guarded(|| env.compile_expression(t).and_then(|e| e.eval(()))).ok().and_then(|r| r.ok());
    if !(lit.starts_with('[') || lit.starts_with('(') || lit.starts_with('{')) {
        return scalar(lit);
    }
    let mut src = String::new();
    let mut ctx = BTreeMap::new();
    let mut pos = 0;
    for (j, (a, b)) in scalar_spans(lit).into_iter().enumerate() {
        src.push_str(&lit[pos..a]);
        src.push_str(&format!("w{}", j));
        ctx.insert(format!("w{}", j), scalar(&lit[a..b])?);
        pos = b;
    }
    src.push_str(&lit[pos..]);
    guarded(|| env.compile_expression(&src).and_then(|e| e.eval(Value::from(ctx)))).ok().and_then(|r| r.ok())
}

const BLOCK_NAMES: [&str; 3] = ["b", "c", "title"];
const CONSUMERS: [&str; 5] = ["use_child.txt", "use_import.txt", "use_from.txt", "use_include.txt", "use_grandchild.txt"];

/// Everything observable about a template variant, registered as `t.txt`: its own rendering, the
/// block table (names the compiled template reports, `render_block` of every candidate name), the
/// exported names, and the renderings of the consumers that extend / import / include it.
fn tmpl_outcome(env: &mut Environment<'static>, src: &str, ctx: &Value) -> (String, String) {
    if let Err(e) = env.add_template_owned("t.txt", src.to_string()) {
        return (format!("err:{}", error_kind_name(&e)), format!("loaderr:{}", error_kind_name(&e)));
    }
    let res = |r: Result<String, Error>| match r {
        Ok(s) => format!("ok:{}", hex(s.as_bytes())),
        Err(e) => format!("err:{}", error_kind_name(&e)),
    };
    let mut parts = vec![];
    {
        let t = env.get_template("t.txt").unwrap();
        parts.push(res(t.render(ctx.clone())));
        let blocks: Vec<&str> = get_compiled_template(&t).blocks.keys().copied().collect();
        parts.push(format!("blocks={}", blocks.join(",")));
        for name in BLOCK_NAMES {
            let r = t.render_captured(ctx.clone()).and_then(|mut cap| cap.with_state_mut(|st| st.render_block(name)));
            parts.push(format!("rb.{}={}", name, res(r)));
        }
        let ex = t.render_captured(ctx.clone()).map(|cap| {
            let mut e: Vec<String> = cap.state().exports().into_iter().filter(|n| !n.starts_with('v')).map(|n| n.to_string()).collect();
            e.sort();
            e.join(",")
        });
        parts.push(format!("exports={}", res(ex)));
    }
    for c in CONSUMERS {
        let r = env.get_template(c).and_then(|t| t.render(ctx.clone()));
        parts.push(format!("{}={}", c, res(r)));
    }
    ("ok".to_string(), parts.join("|"))
}

/// `{{ E }}` rendered through one of the public entry points
fn render_via(env: &mut Environment<'static>, ep: usize, c: &Case, expr: &str, src: &str, ctx: &Value) -> Result<String, Error> {
    match ep {
        0 => env.template_from_str(src)?.render(ctx.clone()),
        1 => env.render_str(src, ctx.clone()),
        2 => env.render_named_str("n.txt", src, ctx.clone()),
        3 => {
            env.add_template_owned("e.txt", src.to_string())?;
            env.get_template("e.txt")?.render(ctx.clone())
        }
        4 => {
            let mut buf = Vec::new();
            env.template_from_str(src)?.render_captured_to(ctx.clone(), &mut buf)?;
            Ok(String::from_utf8(buf).unwrap())
        }
        5 => Ok(env.template_from_str(src)?.render_captured(ctx.clone())?.into_output()),
        6 => env.template_from_named_str("n.txt", src)?.render(ctx.clone()),
        _ => {
            // Expression API: evaluate, then emit the value through a one-variable template
            let v = env.compile_expression(expr)?.eval(ctx.clone())?;
            let mut m = BTreeMap::new();
            m.insert("x".to_string(), v);
            env.render_str(&c.wrap("x"), Value::from(m))
        }
    }
}

/// One instruction of an expression's code the way the Lean driver prints the model's (`showI`): the name,
/// its operand where it has one, jump targets RELATIVE (instructions skipped), constants as `K` (their
/// values are compared separately).  An instruction kind the model does not know prints as `X:<name>`.
fn op_name(ins: &Instruction, index: u32) -> String {
    use serde_json::Value as J;
    let num = |j: &J| j.as_u64().map_or("-".to_string(), |n| n.to_string());
    let text = |j: &J| j.as_str().unwrap_or("?").to_string();
    if let Instruction::LoadConst(_) = ins {
        return "K".to_string(); // (a constant beyond 64 bits has no JSON form)
    }
    match serde_json::to_value(ins).unwrap_or(J::Null) {
        J::String(name) => name,
        J::Object(m) => {
            // `#[serde(tag = "op", content = "arg")]`
            let name = m.get("op").and_then(|n| n.as_str()).unwrap_or("?").to_string();
            let p = m.get("arg").cloned().unwrap_or(J::Null);
            match name.as_str() {
                "LoadConst" => "K".to_string(),
                "Lookup" | "GetAttr" => format!("{}:{}", name, text(&p)),
                "BuildList" | "BuildTuple" | "BuildMap" | "BuildKwargs" | "MergeKwargs" | "UnpackLists" => format!("{}:{}", name, num(&p)),
                "CompareAndPreserve" => format!("CAP:{}", text(&p)),
                "Jump" | "JumpIfFalse" | "JumpIfFalseOrPop" | "JumpIfTrueOrPop" => {
                    let short = match name.as_str() {
                        "Jump" => "J",
                        "JumpIfFalse" => "JF",
                        "JumpIfFalseOrPop" => "JFP",
                        _ => "JTP",
                    };
                    match p.as_u64() {
                        Some(t) if t > index as u64 => format!("{}:{}", short, t - (index as u64 + 1)),
                        _ => format!("X:{}:backward", name),
                    }
                }
                "ApplyFilter" | "PerformTest" | "CallFunction" | "CallMethod" => format!("{}:{}:{}", name, text(&p[0]), num(&p[1])),
                "CallObject" => format!("CallObject:{}", num(&p)),
                _ if p.is_null() => name,
                _ => format!("X:{}", name),
            }
        }
        _ => "X:?".to_string(),
    }
}

fn run_case(c: &Case, _stream: &mut Rng) -> String {
    // the sampled hoisting subsets are a function of the case (and the seed), so that a replay meets the same ones
    let mut case_rng = Rng::new(fnv(&c.src) ^ fnv(&format!("c04-masks-{}", seed_from_env())));
    let rng = &mut case_rng;
    let mut env = mk_env(&c.mode, c.cfg());
    let k = c.spans.len();
    // the values of the literal leaves, as the real front end builds them
    let mut ctx = BTreeMap::new();
    for (i, (a, b)) in c.spans.iter().enumerate() {
        let lit = &c.src[*a..*b];
        match leaf_value(&env, lit) {
            Some(v) => {
                ctx.insert(format!("v{}", i), v);
            }
            None => return format!("{}\tX\tbad-literal:{}", c.key(), lit),
        }
    }
    let ctx = Value::from(ctx);
    // a template variant costs ten renderings (consumers, block table): fewer subsets there
    let sized = c.tag.starts_with("sized");
    let mk = if c.tmpl { masks(c, rng, 4, if sized { 28 } else { 20 }) } else { masks(c, rng, 6, if sized { 80 } else { 64 }) };
    let ms = &mk.list;
    let all = mk.all_inner;
    let mut load = "ok".to_string();
    let mut lit = String::new();
    let mut hoist = String::new();
    let mut diffs = vec![];
    let mut litval = String::new();
    for (mi, m) in ms.iter().enumerate() {
        let expr = c.variant(*m);
        let src = if c.tmpl { expr.clone() } else { c.wrap(&expr) };
        // the all-literal variant goes through `template_from_str`, the others rotate through every entry point
        let ep = if *m == 0 || c.tmpl { 0 } else { ((fnv(&c.src) >> 8) as usize + mi) % ENTRY_POINTS.len() };
        let r = if c.tmpl {
            guarded(|| tmpl_outcome(&mut env, &src, &ctx))
        } else {
            guarded(|| {
                let r = render_via(&mut env, ep, c, &expr, &src, &ctx);
                let o = match r {
                    Ok(s) => format!("ok:{}", hex(s.as_bytes())),
                    Err(e) => format!("err:{}", error_kind_name(&e)),
                };
                (if o == "err:SyntaxError" { o.clone() } else { "ok".to_string() }, o)
            })
        };
        let (l, o) = match r {
            Ok(x) => x,
            Err(_) => ("panic".into(), "panic".into()),
        };
        if l != "ok" && load == "ok" {
            load = l;
        }
        if *m == 0 {
            lit = o.clone();
        }
        if *m == all {
            hoist = o.clone();
        }

        if o != lit {
            diffs.push(format!("{:x}@{}={}", m, ENTRY_POINTS[ep], o));
        } else if !c.tmpl {
            // the VALUE of every variant (not only its text): `1` and `"1"`, a list and its text, `true` and
            // `"True"` render alike but are different results of the expression
            let v = outcome(
                guarded(|| env.compile_expression(&expr).and_then(|e| e.eval(ctx.clone())).map(|v| value_str(&v))),
                |s| format!("ok {}", s),
            );
            if *m == 0 {
                litval = v;
            } else if v != litval {
                diffs.push(format!("{:x}@value={}", m, v));
            }
        }
    }
    if c.tmpl {
        // the real parser's statement tree of the all-literal source and the block table the real code
        // generator registers for it
        let srclit = c.variant(0);
        let shape = guarded(|| {
            let ast = minijinja::machinery::parse(&srclit, "t.txt", Default::default(), Default::default()).ok()?;
            let mut toks = vec![];
            dump_stmt(&ast, &mut toks);
            env.add_template_owned("t.txt", srclit.clone()).ok()?;
            let t = env.get_template("t.txt").ok()?;
            let mut blocks: Vec<String> = get_compiled_template(&t).blocks.keys().map(|k| k.to_string()).collect();
            blocks.sort();
            Some(format!("T|{}|{}", toks.join(" "), blocks.join(",")))
        });
        let shape = match shape {
            Ok(Some(s)) => s,
            _ => "-".to_string(),
        };
        return format!(
            "{}\t-\t{}\t{}\t{}\t{}\t{}\t{}\t-\t-\t-\t-\t{}\t{}\t{}",
            c.key(),
            load,
            k,
            ms.len(),
            lit,
            hoist,
            if diffs.is_empty() { "-".to_string() } else { diffs.join(";") },
            CFGS[c.cfg()],
            c.tag,
            shape
        );
    }
    // the real front end on the all-literal source
    let srclit = c.variant(0);
    let mut asttok = vec![];
    let mut fold = "none".to_string();
    let mut code = "rt".to_string();
    match guarded(|| parse_expr(&srclit)) {
        Ok(Ok(ast)) => {
            dump_expr(&ast, &mut asttok);
            if let Ok(Some(v)) = guarded(|| ast.as_const()) {
                fold = format!("some {}", value_str(&v));
            }
            let r = guarded(|| {
                let mut g = CodeGenerator::new("<expression>", &srclit);
                g.compile_expr(&ast);
                let instrs = g.finish().0;
                match (instrs.get(0), instrs.get(1)) {
                    (Some(Instruction::LoadConst(v)), None) => format!("const {}", value_str(v)),
                    _ => "rt".to_string(),
                }
            });
            code = r.unwrap_or_else(|_| "panic".into());
        }
        _ => asttok.push("X".into()),
    }
    // the constants in the real instruction stream of a few variants (all-literal, every scalar hoisted,
    // whole containers hoisted, the first few of the others), next to the variant's real AST
    let mut picked: Vec<u128> = vec![0, mk.all_inner, mk.all_outer];
    for m in ms.iter() {
        if picked.len() >= 8 {
            break;
        }
        if !picked.contains(m) {
            picked.push(*m);
        }
    }
    picked.dedup();
    let mut codes = vec![];
    for m in picked {
        let vsrc = c.variant(m);
        let r = guarded(|| {
            let ast = parse_expr(&vsrc).ok()?;
            let mut toks = vec![];
            dump_expr(&ast, &mut toks);
            if toks.iter().any(|t| t == "X" || t == "XS") {
                return None;
            }
            let mut g = CodeGenerator::new("<expression>", &vsrc);
            g.compile_expr(&ast);
            let instrs = g.finish().0;
            let mut consts = vec![];
            let mut i = 0;
            while let Some(instr) = instrs.get(i) {
                if let Instruction::LoadConst(v) = instr {
                    consts.push(value_str(v));
                }
                i += 1;
            }
            let ops: Vec<String> = (0..).map_while(|i| instrs.get(i).map(|ins| op_name(ins, i))).collect();
            Some(format!("{:x}|{}|{}|{}", m, toks.join(" "), consts.join(","), ops.join(" ")))
        });
        if let Ok(Some(e)) = r {
            codes.push(e);
        }
    }
    let vallit = outcome(
        guarded(|| env.compile_expression(&srclit).and_then(|e| e.eval(())).map(|v| value_str(&v))),
        |s| format!("ok {}", s),
    );
    let srch = c.variant(all);
    let valhoist = outcome(
        guarded(|| env.compile_expression(&srch).and_then(|e| e.eval(ctx.clone())).map(|v| value_str(&v))),
        |s| format!("ok {}", s),
    );
    format!(
        "{}\t{}\t{}\t{}\t{}\t{}\t{}\t{}\t{}\t{}\t{}\t{}\t{}\t{}\t{}",
        c.key(),
        asttok.join(" "),
        load,
        k,
        ms.len(),
        lit,
        hoist,
        if diffs.is_empty() { "-".to_string() } else { diffs.join(";") },
        fold,
        code,
        vallit,
        valhoist,
        CFGS[c.cfg()],
        c.tag,
        if codes.is_empty() { "-".to_string() } else { codes.join(";") }
    )
}

// ------------------------------------------------------------------------------------ generator
#[derive(Clone)]
enum G {
    Lit(String),
    /// literal text that is not a leaf of its own (only hoisted with the container around it)
    Raw(String),
    Var(&'static str),
    List(Vec<G>),
    Tuple(Vec<G>),
    Map(Vec<(G, G)>),
    Not(Box<G>),
    Neg(Box<G>),
    Bin(&'static str, Box<G>, Box<G>),
    Chain(Box<G>, Vec<(&'static str, G)>),
    Call(Vec<G>, Vec<(&'static str, G)>),
    /// `kw(pos…, *star, name=value…, **dstar)`
    CallSplat(Vec<G>, Box<G>, Vec<(&'static str, G)>, Option<Box<G>>),
    /// the general call form: callee (0 `kw(` function, 1 `ob.m(` method, 2 `ob.f(` item called as a method,
    /// 3 `ob["f"](` object, 4 `[kw][0](` object, 5 `subject|kwf(` filter, 6 `subject is kwt(` test, 7 `{"f": kw}.f(`),
    /// subject of a filter/test, arguments in any mix
    CallX(u8, Option<Box<G>>, Vec<GA>),
    /// `subject|name(args, kwargs)`
    Filt(&'static str, Box<G>, Vec<G>, Vec<(&'static str, G)>),
    /// `subject is [not] name(args)`
    Test(&'static str, bool, Box<G>, Vec<G>),
    GetItem(Box<G>, Box<G>),
    GetAttr(Box<G>, &'static str),
    Slice(Box<G>, Option<Box<G>>, Option<Box<G>>, Option<Box<G>>),
    If(Box<G>, Box<G>, Option<Box<G>>),
}

#[derive(Clone)]
enum GA {
    Pos(G),
    PosSplat(G),
    Kw(&'static str, G),
    KwSplat(G),
}

const INTS: [&str; 27] = [
    "0", "1", "2", "3", "7", "10", "255", "2147483648", "4294967296", "9007199254740992",
    "9007199254740993", "9223372036854775807", "9223372036854775808", "9223372036854775809",
    "18446744073709551615", "18446744073709551616", "18446744073709551617",
    "170141183460469231731687303715884105727", "170141183460469231731687303715884105728",
    "170141183460469231731687303715884105729", "340282366920938463463374607431768211455",
    "0", "1", "2", "1", "0", "5",
];
const FLOATS: [&str; 24] = [
    "0.0", "1.0", "0.5", "1.5", "2.5", "2.0", "1e10", "1e100", "0.1", "3.14", "1e-7",
    "9007199254740993.0", "1.7976931348623157e308", "1e400", "0.3", "123456.789", "1e15", "1e16", "1e21",
    "1e-5", "0.0001", "5e-324", "2.2250738585072014e-308", "7.0",
];
const STRS: [&str; 25] = [
    "\"a\\\"b\"", "\"it's\"", "'it\\'s'", "\"line\\nbreak\"", "\"tab\\t\"", "\"back\\\\slash\"", "\"\\u00e9\\u0001\"",
    "\"\"", "\"a\"", "\"ab\"", "\"abc\"", "\"b\"", "\"A\"", "\"0\"", "\"1\"", "\"10\"", "\" \"",
    "\"a b\"", "\"True\"", "\"none\"", "\"abcdefghijklmnopqrstuvwxyz\"", "'\u{e9}'", "\"1.0\"",
    // markup: under an auto-escaping configuration a constant and a variable must be escaped alike
    "\"<b>&\"", "\"<\"",
];
const CONTAINERS: [&str; 18] = [
    "[]", "[1, 2]", "[1, \"a\", none]", "[\"a\", \"b\"]", "[[1], [2]]", "[0]", "[1.0, 2]", "()",
    "(1,)", "(1, 2)", "(\"a\", 1)", "{}", "{\"a\": 1}", "{1: 2, 1.0: 3}", "{\"b\": 1, \"a\": 2}",
    "{1: \"x\", 2: \"y\"}", "[true, false]", "[none]",
];
const SMALL: [&str; 4] = ["0", "1", "2", "3"];
const ARITH: [&str; 8] = ["+", "-", "*", "/", "//", "%", "**", "~"];
const CMPS: [&str; 8] = ["==", "!=", "<", "<=", ">", ">=", "in", "not in"];
const KWNAMES: [&str; 4] = ["ka", "kb", "kc", "ka"];

fn gen_lit(rng: &mut Rng) -> G {
    let r = rng.below(100);
    G::Lit(
        if r < 34 {
            *rng.pick(&INTS)
        } else if r < 46 {
            *rng.pick(&FLOATS)
        } else if r < 62 {
            *rng.pick(&STRS)
        } else if r < 68 {
            "none"
        } else if r < 76 {
            "true"
        } else if r < 84 {
            "false"
        } else {
            *rng.pick(&CONTAINERS)
        }
        .to_string(),
    )
}

/// definitely neither a string nor a sequence (so `*` cannot blow up the output size)
fn numish(g: &G) -> bool {
    match g {
        G::Lit(s) => !(s.starts_with('"') || s.starts_with('\'') || s.starts_with('[') || s.starts_with('(') || s.starts_with('{')),
        G::Var(_) => true,
        G::Raw(_) => false,
        G::List(_) | G::Tuple(_) | G::Map(_) | G::Call(..) | G::CallSplat(..) | G::GetItem(..) | G::GetAttr(..) | G::Slice(..) => false,
        G::CallX(callee, ..) => *callee == 6,
        G::Filt(name, a, args, _) => match *name {
            "length" | "abs" | "int" | "round" => true,
            "default" => numish(a) && args.iter().all(numish),
            _ => false,
        },
        G::If(t, _, f) => numish(t) && f.as_ref().map_or(true, |f| numish(f)),
        G::Not(_) | G::Neg(_) | G::Chain(..) | G::Test(..) => true,
        G::Bin(op, a, b) => match *op {
            "-" | "/" | "//" | "%" | "**" | "==" | "!=" | "<" | "<=" | ">" | ">=" | "in" | "not in" => true,
            "~" => false,
            _ => numish(a) && numish(b),
        },
    }
}

/// values that are equal or adjacent across kinds (int / float / bool / string forms)
const EQUIV: [&str; 12] = ["1", "1.0", "true", "0", "0.0", "false", "2", "2.0", "\"a\"", "\"1\"", "none", "[1]"];

/// operands of comparisons: often drawn from a small pool so that equal operands, equal-across-kind
/// operands and container membership actually occur
fn gen_cmp_operand(rng: &mut Rng, d: u32) -> G {
    match rng.below(8) {
        0 | 1 => G::Lit(rng.pick(&EQUIV).to_string()),
        2 => G::List((0..1 + rng.below(3)).map(|_| G::Lit(rng.pick(&EQUIV).to_string())).collect()),
        3 => {
            // sequences with equal elements (same spelling or equal across kinds) for `in` / `==`
            let fam = *rng.pick(&KEY_FAMILIES);
            let items: Vec<G> = (0..2 + rng.below(3)).map(|_| G::Lit(rng.pick(fam).to_string())).collect();
            if rng.chance(1, 2) { G::List(items) } else { G::Tuple(items) }
        }
        4 => gen_dup_map(rng, d),
        _ => gen(rng, d),
    }
}

/// spellings of keys that are equal as `Value`s (a family collides in a map)
const KEY_FAMILIES: [&[&str]; 6] = [
    &["1", "1.0", "true", "1"],
    &["0", "0.0", "false", "0"],
    &["\"a\"", "\"a\"", "'a'"],
    &["2", "2.0", "2"],
    &["none", "none"],
    &["\"1\"", "'1'"],
];
/// pairwise different values, so that which pair wins is visible
const DISTINCT: [&str; 8] = ["10", "20", "30", "\"x\"", "\"y\"", "\"z\"", "none", "[1]"];
const OTHER_KEYS: [&str; 5] = ["\"b\"", "5", "\"zz\"", "3.5", "(1, 2)"];

/// A map literal (2-4 pairs) in which a key occurs at least twice - same spelling or equal across
/// kinds, adjacent or separated by other keys - with different values; now and then one value or
/// key is not a plain literal, so that also the all-literal spelling is built at run time.
fn gen_dup_map(rng: &mut Rng, d: u32) -> G {
    let fam = *rng.pick(&KEY_FAMILIES);
    let n = 2 + rng.below(3) as usize;
    let dups = 2 + rng.below((n - 1) as u64) as usize; // 2..=n occurrences of the colliding key
    let mut is_dup = vec![false; n];
    let mut placed = 0;
    while placed < dups.min(n) {
        let i = rng.below(n as u64) as usize;
        if !is_dup[i] {
            is_dup[i] = true;
            placed += 1;
        }
    }
    let mut vals: Vec<&str> = DISTINCT.to_vec();
    let mut pairs = vec![];
    for dup in is_dup {
        let key = if dup { G::Lit(rng.pick(fam).to_string()) } else { G::Lit(rng.pick(&OTHER_KEYS).to_string()) };
        let key = if rng.chance(1, 12) { G::Neg(Box::new(G::Neg(Box::new(key)))) } else { key };
        let vi = rng.below(vals.len() as u64) as usize;
        let v = G::Lit(vals.remove(vi).to_string());
        let v = match rng.below(10) {
            0 => G::List(vec![v]),
            1 if d > 0 => gen(rng, d.min(1)),
            _ => v,
        };
        pairs.push((key, v));
    }
    G::Map(pairs)
}

/// a call of any callee kind with any mix of positional, `*splat`, keyword and `**splat` arguments (the
/// parser wants positional ones before keyword ones; a `*splat` may follow keywords)
fn gen_callx(rng: &mut Rng, d: u32) -> G {
    let callee = *rng.pick(&[0u8, 0, 1, 1, 2, 3, 4, 5, 5, 6, 7]);
    let subject = if callee == 5 || callee == 6 { Some(Box::new(gen(rng, d.min(1)))) } else { None };
    let mut args = vec![];
    for _ in 0..rng.below(3) {
        args.push(GA::Pos(if rng.chance(2, 3) { gen_lit(rng) } else { gen(rng, d.min(1)) }));
    }
    let splat = |rng: &mut Rng| {
        if rng.chance(2, 3) { G::List((0..rng.below(3)).map(|_| gen_lit(rng)).collect()) } else { gen_container(rng, d.min(1)) }
    };
    if rng.chance(1, 2) {
        args.push(GA::PosSplat(splat(rng)));
        if rng.chance(1, 4) {
            args.push(GA::Pos(gen_lit(rng)));
        }
        if rng.chance(1, 5) {
            args.push(GA::PosSplat(splat(rng)));
        }
    }
    for _ in 0..rng.below(3) {
        // mostly literal values (the static path), now and then a computed one
        args.push(GA::Kw(*rng.pick(&KWNAMES), if rng.chance(3, 4) { gen_lit(rng) } else { gen(rng, d.min(1)) }));
    }
    if rng.chance(1, 3) {
        let m = G::Map((0..rng.below(3)).map(|_| (G::Lit(rng.pick(&["\"ka\"", "\"kb\"", "\"kz\""]).to_string()), gen_lit(rng))).collect());
        args.push(GA::KwSplat(if rng.chance(4, 5) { m } else { gen_lit(rng) }));
        if rng.chance(1, 3) {
            args.push(GA::Kw(*rng.pick(&KWNAMES), gen_lit(rng)));
        }
    }
    G::CallX(callee, subject, args)
}

fn gen(rng: &mut Rng, depth: u32) -> G {
    if depth == 0 || rng.chance(1, 5) {
        if rng.chance(1, 40) {
            return G::Var("u");
        }
        return gen_lit(rng);
    }
    let d = depth - 1;
    if rng.chance(1, 5) {
        return gen_unfolded(rng, d);
    }
    match rng.below(100) {
        0..=29 => {
            let op = *rng.pick(&ARITH);
            let a = gen(rng, d);
            let b = gen(rng, d);
            if op == "*" && !(numish(&a) && numish(&b)) {
                // repeat strings/sequences only by a small literal count
                let n = G::Lit(rng.pick(&SMALL).to_string());
                return if rng.chance(1, 2) { G::Bin("*", Box::new(a), Box::new(n)) } else { G::Bin("*", Box::new(n), Box::new(b)) };
            }
            G::Bin(op, Box::new(a), Box::new(b))
        }
        30..=41 => G::Bin(*rng.pick(&CMPS), Box::new(gen_cmp_operand(rng, d)), Box::new(gen_cmp_operand(rng, d))),
        42..=51 => {
            let n = 2 + rng.below(2) as usize;
            let first = gen_cmp_operand(rng, d);
            let ops = (0..n).map(|_| (*rng.pick(&CMPS), gen_cmp_operand(rng, d))).collect();
            G::Chain(Box::new(first), ops)
        }
        52..=66 => G::Bin(if rng.chance(1, 2) { "and" } else { "or" }, Box::new(gen(rng, d)), Box::new(gen(rng, d))),
        67..=72 => G::Not(Box::new(gen(rng, d))),
        73..=81 => G::Neg(Box::new(if rng.chance(2, 3) { G::Lit(rng.pick(&INTS).to_string()) } else { gen(rng, d) })),
        82..=86 => G::List((0..rng.below(4)).map(|_| gen(rng, d.min(2))).collect()),
        87..=89 => G::Tuple((0..rng.below(4)).map(|_| gen(rng, d.min(2))).collect()),
        90..=91 => G::Map(
            (0..rng.below(4))
                .map(|_| {
                    // colliding keys (equal across kinds, repeated) exercise insertion order
                    let k = if rng.chance(1, 2) { G::Lit(rng.pick(&EQUIV).to_string()) } else { gen(rng, d.min(1)) };
                    (k, gen(rng, d.min(2)))
                })
                .collect(),
        ),
        92..=93 => gen_dup_map(rng, d),
        94..=97 => {
            let pos = (0..rng.below(3)).map(|_| gen(rng, d.min(2))).collect();
            let mut kws: Vec<(&'static str, G)> = (0..1 + rng.below(3))
                .map(|_| (*rng.pick(&KWNAMES), if rng.chance(3, 4) { gen_lit(rng) } else { gen(rng, d.min(2)) }))
                .collect();
            if rng.chance(1, 3) {
                // the same keyword twice (the parser accepts it): the later value must win on both paths
                let name = kws[rng.below(kws.len() as u64) as usize].0;
                let at = rng.below(kws.len() as u64 + 1) as usize;
                kws.insert(at, (name, G::Lit(rng.pick(&DISTINCT).to_string())));
            }
            G::Call(pos, kws)
        }
        _ => {
            let kws = (0..1 + rng.below(2)).map(|_| (*rng.pick(&KWNAMES), gen_lit(rng))).collect();
            G::Filt("kwf", Box::new(gen(rng, d.min(2))), vec![], kws)
        }
    }
}

const SMALLIDX: [&str; 8] = ["0", "1", "2", "3", "5", "1", "0", "2"];
const ATTRS: [&str; 4] = ["a", "b", "zz", "a"];

fn gen_container(rng: &mut Rng, d: u32) -> G {
    match rng.below(10) {
        0..=3 => G::Lit(rng.pick(&CONTAINERS).to_string()),
        4 | 5 => G::Lit(rng.pick(&STRS).to_string()),
        6 => G::List((0..1 + rng.below(4)).map(|_| gen_lit(rng)).collect()),
        7 => gen_dup_map(rng, d),
        _ => gen(rng, d),
    }
}

fn gen_index(rng: &mut Rng, d: u32) -> G {
    match rng.below(10) {
        0..=3 => G::Lit(rng.pick(&SMALLIDX).to_string()),
        4 | 5 => G::Neg(Box::new(G::Lit(rng.pick(&SMALLIDX).to_string()))),
        6 => G::Lit(rng.pick(&["\"a\"", "\"b\"", "\"zz\""]).to_string()),
        7 => G::Lit(rng.pick(&EQUIV).to_string()),
        _ => gen(rng, d.min(1)),
    }
}

fn gen_bound(rng: &mut Rng, d: u32) -> Option<Box<G>> {
    match rng.below(10) {
        0..=2 => None,
        3..=5 => Some(Box::new(G::Lit(rng.pick(&SMALLIDX).to_string()))),
        6 | 7 => Some(Box::new(G::Neg(Box::new(G::Lit(rng.pick(&SMALLIDX).to_string()))))),
        8 => Some(Box::new(G::Lit("none".into()))),
        _ => Some(Box::new(gen(rng, d.min(1)))),
    }
}

/// productions that are never folded but sit between constants: item/attribute access, slices,
/// conditional expressions, filters and tests
fn gen_unfolded(rng: &mut Rng, d: u32) -> G {
    if rng.chance(1, 14) {
        return gen_callx(rng, d);
    }
    if rng.chance(1, 70) {
        // splat arguments switch `compile_call_args` to its list/merge paths (and static keyword arguments off)
        let pos = (0..rng.below(2)).map(|_| gen_lit(rng)).collect();
        let star = if rng.chance(2, 3) { G::List((0..rng.below(3)).map(|_| gen_lit(rng)).collect()) } else { gen_container(rng, d) };
        let kws = (0..rng.below(3)).map(|_| (*rng.pick(&KWNAMES), gen_lit(rng))).collect();
        let dstar = if rng.chance(1, 2) {
            Some(Box::new(G::Map((0..rng.below(3)).map(|_| (G::Lit(rng.pick(&["\"ka\"", "\"kb\"", "\"kz\""]).to_string()), gen_lit(rng))).collect())))
        } else {
            None
        };
        return G::CallSplat(pos, Box::new(star), kws, dstar);
    }
    match rng.below(26) {
        0..=3 => G::GetItem(Box::new(gen_container(rng, d)), Box::new(gen_index(rng, d))),
        4 => G::GetAttr(Box::new(if rng.chance(2, 3) { G::Lit(rng.pick(&["{\"a\": 1}", "{\"b\": 1, \"a\": 2}", "{}"]).to_string()) } else { gen_container(rng, d) }), *rng.pick(&ATTRS)),
        5..=7 => {
            let z = if rng.chance(1, 2) { None } else { gen_bound(rng, d) };
            G::Slice(Box::new(gen_container(rng, d)), gen_bound(rng, d), gen_bound(rng, d), z)
        }
        8..=11 => {
            let f = if rng.chance(2, 3) { Some(Box::new(gen(rng, d))) } else { None };
            G::If(Box::new(gen(rng, d)), Box::new(gen(rng, d)), f)
        }
        12..=14 => {
            let mut args = vec![gen(rng, d.min(2))];
            if rng.chance(1, 3) {
                args.push(if rng.chance(2, 3) { G::Lit(rng.pick(&["true", "false", "1", "0"]).to_string()) } else { gen(rng, d.min(1)) });
            }
            if rng.chance(1, 8) {
                args.clear();
            }
            G::Filt("default", Box::new(gen(rng, d)), args, vec![])
        }
        15 | 16 => G::Filt(*rng.pick(&["length", "abs", "first", "length", "abs", "first", "list", "string", "list", "string", "string", "upper", "int", "round"]), Box::new(if rng.chance(1, 2) { gen_container(rng, d) } else { gen(rng, d) }), vec![], vec![]),
        17..=19 => G::Test("divisibleby", rng.chance(1, 5), Box::new(gen(rng, d)), vec![if rng.chance(1, 2) { G::Lit(rng.pick(&["0", "1", "2", "3", "2.0", "0.5", "0.0"]).to_string()) } else { gen(rng, d.min(1)) }]),
        20..=22 => G::Test(*rng.pick(&["defined", "none", "odd", "even", "defined", "none", "odd", "even", "string", "number", "integer", "float", "sequence"]), rng.chance(1, 4), Box::new(gen(rng, d)), vec![]),
        _ => G::Test(*rng.pick(&["eq", "lt", "in"]), rng.chance(1, 4), Box::new(gen_cmp_operand(rng, d)), vec![gen_cmp_operand(rng, d.min(1))]),
    }
}

fn emit_list(items: &[G], out: &mut String, spans: &mut Vec<(usize, usize)>) {
    for (i, g) in items.iter().enumerate() {
        if i > 0 {
            out.push_str(", ");
        }
        emit(g, out, spans);
    }
}

fn emit_kws(first: bool, kws: &[(&'static str, G)], out: &mut String, spans: &mut Vec<(usize, usize)>) {
    let mut first = first;
    for (n, g) in kws {
        if !first {
            out.push_str(", ");
        }
        first = false;
        out.push_str(n);
        out.push('=');
        emit(g, out, spans);
    }
}

/// a literal or a negated number literal whose negation cannot fail: an item of a literal container
fn plain_item(g: &G) -> bool {
    match g {
        G::Lit(_) | G::Raw(_) => true,
        G::Neg(a) => match &**a {
            G::Lit(s) => s.as_bytes()[0].is_ascii_digit() && (s.len() <= 18 || s.contains('.')),
            _ => false,
        },
        _ => false,
    }
}

/// A container literal all of whose items are literals is itself a literal sub-expression: it gets a
/// span of its own around the spans of its items (hoisting the whole container into one variable).
fn open_outer(all_plain: bool, out: &String, spans: &mut Vec<(usize, usize)>) -> Option<usize> {
    if all_plain {
        spans.push((out.len(), 0));
        Some(spans.len() - 1)
    } else {
        None
    }
}

fn close_outer(outer: Option<usize>, out: &String, spans: &mut Vec<(usize, usize)>) {
    if let Some(i) = outer {
        spans[i].1 = out.len();
    }
}

fn emit(g: &G, out: &mut String, spans: &mut Vec<(usize, usize)>) {
    match g {
        G::Lit(s) => {
            let a = out.len();
            out.push_str(s);
            spans.push((a, out.len()));
        }
        G::Var(n) => out.push_str(n),
        G::Raw(t) => out.push_str(t),
        G::List(xs) => {
            let outer = open_outer(xs.iter().all(plain_item), out, spans);
            out.push('[');
            emit_list(xs, out, spans);
            out.push(']');
            close_outer(outer, out, spans);
        }
        G::Tuple(xs) => {
            let outer = open_outer(xs.iter().all(plain_item), out, spans);
            out.push('(');
            emit_list(xs, out, spans);
            if xs.len() == 1 {
                out.push(',');
            }
            out.push(')');
            close_outer(outer, out, spans);
        }
        G::Map(kvs) => {
            let outer = open_outer(kvs.iter().all(|(k, v)| plain_item(k) && plain_item(v)), out, spans);
            out.push('{');
            for (i, (k, v)) in kvs.iter().enumerate() {
                if i > 0 {
                    out.push_str(", ");
                }
                emit(k, out, spans);
                out.push_str(": ");
                emit(v, out, spans);
            }
            out.push('}');
            close_outer(outer, out, spans);
        }
        G::Not(a) => {
            out.push_str("(not ");
            emit(a, out, spans);
            out.push(')');
        }
        G::Neg(a) => {
            // `-kw(..)` parses as `(-kw)(..)`, `-x[0]` as `(-x)[0]`: keep the postfix form an operand of the negation
            let wrap = matches!(**a, G::Call(..) | G::CallSplat(..) | G::GetItem(..) | G::GetAttr(..) | G::Slice(..))
                || matches!(**a, G::CallX(c, ..) if c < 5 || c == 7);
            out.push_str(if wrap { "(-(" } else { "(-" });
            emit(a, out, spans);
            out.push_str(if wrap { "))" } else { ")" });
        }
        G::Bin(op, a, b) => {
            out.push('(');
            emit(a, out, spans);
            out.push(' ');
            out.push_str(op);
            out.push(' ');
            emit(b, out, spans);
            out.push(')');
        }
        G::Chain(a, ops) => {
            out.push('(');
            emit(a, out, spans);
            for (op, b) in ops {
                out.push(' ');
                out.push_str(op);
                out.push(' ');
                emit(b, out, spans);
            }
            out.push(')');
        }
        G::Call(pos, kws) => {
            out.push_str("kw(");
            emit_list(pos, out, spans);
            emit_kws(pos.is_empty(), kws, out, spans);
            out.push(')');
        }
        G::CallSplat(pos, star, kws, dstar) => {
            out.push_str("kw(");
            emit_list(pos, out, spans);
            if !pos.is_empty() {
                out.push_str(", ");
            }
            out.push('*');
            emit(star, out, spans);
            for (n, g) in kws {
                out.push_str(", ");
                out.push_str(n);
                out.push('=');
                emit(g, out, spans);
            }
            if let Some(d) = dstar {
                out.push_str(", **");
                emit(d, out, spans);
            }
            out.push(')');
        }
        G::CallX(callee, subject, args) => {
            let close = match callee {
                0 => { out.push_str("kw("); ")" }
                1 => { out.push_str("ob.m("); ")" }
                2 => { out.push_str("ob.f("); ")" }
                3 => { out.push_str("ob[\"f\"]("); ")" }
                4 => { out.push_str("[kw][0]("); ")" }
                7 => { out.push_str("{\"f\": kw}.f("); ")" }
                5 => {
                    out.push('(');
                    emit(subject.as_ref().unwrap(), out, spans);
                    out.push_str("|kwf(");
                    "))"
                }
                _ => {
                    out.push('(');
                    emit(subject.as_ref().unwrap(), out, spans);
                    out.push_str(" is kwt(");
                    "))"
                }
            };
            for (i, a) in args.iter().enumerate() {
                if i > 0 {
                    out.push_str(", ");
                }
                match a {
                    GA::Pos(g) => emit(g, out, spans),
                    GA::PosSplat(g) => {
                        out.push('*');
                        emit(g, out, spans);
                    }
                    GA::Kw(n, g) => {
                        out.push_str(n);
                        out.push('=');
                        emit(g, out, spans);
                    }
                    GA::KwSplat(g) => {
                        out.push_str("**");
                        emit(g, out, spans);
                    }
                }
            }
            out.push_str(close);
        }
        G::Filt(name, a, args, kws) => {
            out.push('(');
            emit(a, out, spans);
            out.push('|');
            out.push_str(name);
            if !args.is_empty() || !kws.is_empty() {
                out.push('(');
                emit_list(args, out, spans);
                emit_kws(args.is_empty(), kws, out, spans);
                out.push(')');
            }
            out.push(')');
        }
        G::Test(name, negated, a, args) => {
            out.push('(');
            emit(a, out, spans);
            out.push_str(if *negated { " is not " } else { " is " });
            out.push_str(name);
            if !args.is_empty() {
                out.push('(');
                emit_list(args, out, spans);
                out.push(')');
            }
            out.push(')');
        }
        G::GetItem(a, i) => {
            emit_postfix_operand(a, out, spans);
            out.push('[');
            emit(i, out, spans);
            out.push(']');
        }
        G::GetAttr(a, name) => {
            emit_postfix_operand(a, out, spans);
            out.push('.');
            out.push_str(name);
        }
        G::Slice(a, x, y, z) => {
            emit_postfix_operand(a, out, spans);
            out.push('[');
            if let Some(x) = x {
                emit(x, out, spans);
            }
            out.push(':');
            if let Some(y) = y {
                emit(y, out, spans);
            }
            if let Some(z) = z {
                out.push(':');
                emit(z, out, spans);
            }
            out.push(']');
        }
        G::If(t, c, f) => {
            out.push('(');
            emit(t, out, spans);
            out.push_str(" if ");
            emit(c, out, spans);
            if let Some(f) = f {
                out.push_str(" else ");
                emit(f, out, spans);
            }
            out.push(')');
        }
    }
}

/// the operand of `[..]` / `.name`: numbers are parenthesised (`1.a` would lex differently), a call
/// is parenthesised so that the subscript applies to its result in every variant
fn emit_postfix_operand(a: &G, out: &mut String, spans: &mut Vec<(usize, usize)>) {
    let wrap = match a {
        G::Lit(s) => s.as_bytes()[0].is_ascii_digit(),
        G::Var(_) | G::List(_) | G::Tuple(_) | G::Map(_) => false,
        G::GetItem(..) | G::GetAttr(..) | G::Slice(..) => false,
        G::Call(..) => false,
        _ => false, // every other production is parenthesised by `emit`
    };
    if wrap {
        out.push('(');
    }
    emit(a, out, spans);
    if wrap {
        out.push(')');
    }
}

// ------------------------------------------------------------------------------------ statements
const TNAMES: [&str; 6] = ["\"inc_a.txt\"", "\"inc_b.txt\"", "\"missing.txt\"", "[\"missing.txt\", \"inc_b.txt\"]", "[\"inc_a.txt\", \"inc_b.txt\"]", "[]"];
const ESCAPES: [&str; 6] = ["true", "false", "\"html\"", "\"none\"", "\"json\"", "none"];

/// A template whose statement heads, filter arguments, macro defaults, include/extends/import
/// targets … contain literal expressions; returns the source and the spans of the literal leaves.
fn gen_stmt(rng: &mut Rng) -> (String, Vec<(usize, usize)>) {
    let mut o = String::new();
    let mut sp = vec![];
    macro_rules! t {
        ($s:expr) => {
            o.push_str($s)
        };
    }
    macro_rules! e {
        ($g:expr) => {{
            let g = $g;
            emit(&g, &mut o, &mut sp)
        }};
    }
    let d = 1 + rng.below(3) as u32;
    match rng.below(33) {
        0 => { t!("{% if "); e!(gen(rng, d)); t!(" %}yes{% else %}no{% endif %}"); }
        1 => { t!("{% if "); e!(gen(rng, d)); t!(" %}a{% elif "); e!(gen(rng, d)); t!(" %}b{% else %}c{% endif %}"); }
        2 => { t!("{% for x in "); e!(gen_container(rng, d)); t!(" %}[{{ x }}]{% else %}empty{% endfor %}"); }
        3 => { t!("{% for x in "); e!(gen_container(rng, d)); t!(" if "); e!(gen(rng, d)); t!(" %}{{ loop.index }}:{{ x }};{% else %}-{% endfor %}"); }
        4 => { t!("{% set x = "); e!(gen(rng, d)); t!(" %}{{ x }}|{{ x }}"); }
        5 => { t!("{% set a, b = ("); e!(gen(rng, d)); t!(", "); e!(gen(rng, d)); t!(") %}{{ a }}/{{ b }}"); }
        6 => { t!("{% with a = "); e!(gen(rng, d)); t!(", b = "); e!(gen(rng, d)); t!(" %}{{ a }}{{ b }}{% endwith %}"); }
        7 => {
            t!("{% macro m(a="); e!(gen(rng, d)); t!(", b="); e!(gen_lit(rng)); t!(") %}<{{ a }}|{{ b }}>{% endmacro %}{{ m() }}{{ m(");
            e!(gen(rng, d)); t!(") }}{{ m(b="); e!(gen_lit(rng)); t!(") }}");
        }
        8 => { t!("{% include "); e!(G::Lit(rng.pick(&TNAMES).to_string())); t!(if rng.chance(1, 2) { " ignore missing %}" } else { " %}" }); t!("."); }
        9 => { t!("{{ u|default("); e!(gen(rng, d)); t!(") }}{{ "); e!(gen(rng, d)); t!("|default("); e!(gen_lit(rng)); t!(", true) }}"); }
        10 => { t!("{% filter upper %}{{ "); e!(gen(rng, d)); t!(" }}x{% endfilter %}"); }
        11 => { t!("{% autoescape "); e!(G::Lit(rng.pick(&ESCAPES).to_string())); t!(" %}{{ \"<b>\" ~ "); e!(gen(rng, d)); t!(" }}{% endautoescape %}"); }
        12 => { t!("{% set x %}{{ "); e!(gen(rng, d)); t!(" }}{% endset %}{{ x|length }}"); }
        13 => { t!("{% for k, v in "); e!(gen_dup_map(rng, d)); t!("|items %}{{ k }}={{ v }};{% endfor %}"); }
        14 => { t!("{% for x in "); e!(gen_container(rng, d)); t!(" %}{% if x == "); e!(G::Lit(rng.pick(&EQUIV).to_string())); t!(" %}hit{% break %}{% endif %}{{ x }},{% endfor %}"); }
        15 => { t!("{% for x in "); e!(G::Lit(rng.pick(&["[1, 2]", "[0]", "(1, 2)", "[1.0, 2]"]).to_string())); t!(" %}{{ \"d\" if x is divisibleby("); e!(gen(rng, d.min(2))); t!(") else \"n\" }}{% endfor %}"); }
        16 => { t!("{% do kw(ka="); e!(gen(rng, d)); t!(") %}done"); }
        17 => { t!("{% extends "); e!(G::Lit(rng.pick(&["\"base.txt\"", "\"missing.txt\""]).to_string())); t!(" %}{% block b %}{{ "); e!(gen(rng, d)); t!(" }}{% endblock %}"); }
        18 => { t!("{% import "); e!(G::Lit("\"mac.txt\"".to_string())); t!(" as m %}{{ m.f("); e!(gen(rng, d)); t!(") }}{{ m.f(1, y="); e!(gen_lit(rng)); t!(") }}"); }
        19 => { t!("{% from "); e!(G::Lit("\"mac.txt\"".to_string())); t!(" import f, g %}{{ f("); e!(gen(rng, d)); t!(") }}{{ g }}"); }
        20 => { t!("{% set ns = namespace(a="); e!(gen_lit(rng)); t!(") %}{% set ns.a = "); e!(gen(rng, d)); t!(" %}{{ ns.a }}"); }
        21 => { t!("{{ \"%s-%s\"|format("); e!(gen_lit(rng)); t!(", "); e!(gen(rng, d.min(2))); t!(") }}{{ ["); e!(gen_lit(rng)); t!(", "); e!(gen_lit(rng)); t!("]|join("); e!(G::Lit(rng.pick(&STRS).to_string())); t!(") }}"); }
        22 => { t!("{{ range("); e!(G::Lit(rng.pick(&SMALLIDX).to_string())); t!(", "); e!(G::Lit(rng.pick(&SMALLIDX).to_string())); t!(")|list }}{{ dict(ka="); e!(gen_lit(rng)); t!(", kb="); e!(gen(rng, d.min(2))); t!(") }}"); }
        23 => { t!("{% if "); e!(gen(rng, d)); t!(" %}{% set x = "); e!(gen_lit(rng)); t!(" %}{% endif %}{{ x }}"); }
        24 => { t!("{% for x in "); e!(gen_container(rng, d)); t!(" %}{{ loop.cycle("); e!(gen_lit(rng)); t!(", "); e!(gen_lit(rng)); t!(") }}{% endfor %}"); }
        25 => { t!("{{ "); e!(gen_container(rng, d)); t!("|sort|join(\",\") }}{{ "); e!(gen_container(rng, d)); t!("|unique|list }}{{ "); e!(gen_container(rng, d)); t!("|map(\"string\")|list }}"); }
        26 => { t!("{% macro wrap() %}<{{ caller() }}>{% endmacro %}{% call(z="); e!(gen_lit(rng)); t!(") wrap() %}{{ z }}{% endcall %}"); }
        // call blocks whose call carries keyword arguments: the generated `caller` macro has to be added
        // to them at run time, also when every keyword value is a literal
        27 => {
            t!("{% macro dlg(title=\"d\", n=0) %}<{{ title }}|{{ n }}|{{ caller() }}>{% endmacro %}{% call dlg(title=");
            e!(gen_lit(rng));
            if rng.chance(1, 2) { t!(", n="); e!(gen_lit(rng)); }
            t!(") %}body{{ "); e!(gen_lit(rng)); t!(" }}{% endcall %}");
        }
        28 => {
            t!("{% macro dlg(p, title=\"d\") %}<{{ p }}|{{ title }}|{{ caller("); e!(gen_lit(rng)); t!(") }}>{% endmacro %}{% call(x) dlg(");
            e!(gen(rng, d.min(2))); t!(", title="); e!(if rng.chance(2, 3) { gen_lit(rng) } else { gen(rng, d.min(2)) });
            t!(") %}[{{ x }}]{% endcall %}");
        }
        29 => {
            // a macro that does not use `caller` must reject a call block, with literal and with variable keyword values alike
            t!("{% macro plain(a=1) %}({{ a }}){% endmacro %}{% call plain(a="); e!(gen_lit(rng)); t!(") %}body{% endcall %}");
        }
        30 if rng.chance(1, 2) => {
            // a call block on a method / object callee, with splats: the caller joins the keyword arguments at run time
            t!("{% call "); t!(*rng.pick(&["ob.m(", "ob.f(", "ob[\"f\"](", "kw("]));
            if rng.chance(1, 2) { e!(gen_lit(rng)); t!(", "); }
            if rng.chance(1, 3) { t!("*"); e!(G::List(vec![gen_lit(rng)])); t!(", "); }
            t!("ka="); e!(gen_lit(rng));
            if rng.chance(1, 2) { t!(", kb="); e!(gen_lit(rng)); }
            if rng.chance(1, 4) { t!(", **"); e!(G::Map(vec![(G::Lit("\"kz\"".into()), gen_lit(rng))])); }
            t!(") %}body{% endcall %}");
        }
        30 => { t!("{% call kw(ka="); e!(gen_lit(rng)); t!(", kb="); e!(gen_lit(rng)); t!(") %}body{% endcall %}|{% do kw(ka="); e!(gen_lit(rng)); t!(") %}done"); }
        31 => { t!("{% filter kwf(ka="); e!(gen_lit(rng)); t!(") %}body{{ "); e!(gen_lit(rng)); t!(" }}{% endfilter %}"); }
        _ => { t!("{% set x | kwf(ka="); e!(gen_lit(rng)); t!(", kb="); e!(gen(rng, d.min(1))); t!(") %}body{% endset %}{{ x }}|{% set y | default("); e!(gen_lit(rng)); t!(") %}{% endset %}{{ y }}"); }
    }
    (o, sp)
}

/// conditions that fold to a constant, of both truth values
const CONDS: [&str; 16] = [
    "true", "false", "0", "1", "none", "\"\"", "\"x\"", "[]", "[0]", "0.0", "{}", "true", "false", "false", "true", "()",
];
const ITERS: [&str; 8] = ["[]", "[1]", "[1, 2]", "()", "\"\"", "\"ab\"", "{}", "{\"a\": 1}"];

fn gen_cond(rng: &mut Rng) -> G {
    match rng.below(10) {
        0..=4 => G::Lit(rng.pick(&CONDS).to_string()),
        5 => G::Not(Box::new(G::Lit(rng.pick(&CONDS).to_string()))),
        6 => G::Bin(*rng.pick(&["==", "!=", "<", "in", "and", "or"]), Box::new(G::Lit(rng.pick(&EQUIV).to_string())), Box::new(G::Lit(rng.pick(&EQUIV).to_string()))),
        7 => G::Chain(Box::new(G::Lit(rng.pick(&SMALLIDX).to_string())), vec![("<", G::Lit(rng.pick(&SMALLIDX).to_string())), ("<=", G::Lit(rng.pick(&SMALLIDX).to_string()))]),
        8 => G::Test("defined", rng.chance(1, 2), Box::new(G::Var("u")), vec![]),
        _ => gen(rng, 2),
    }
}

/// A statement body with a COMPILE-TIME effect (block table, macro/variable definitions that later
/// statements or other templates consume, extends/import/include); `names` hands out each block name
/// at most once per template.
fn emit_effect(rng: &mut Rng, o: &mut String, sp: &mut Vec<(usize, usize)>, names: &mut Vec<&'static str>, depth: u32) {
    match rng.below(12) {
        0..=4 if !names.is_empty() => {
            let n = names.remove(rng.below(names.len() as u64) as usize);
            o.push_str(&format!("{{% block {} %}}{}[", n, n.to_uppercase()));
            if rng.chance(1, 3) {
                o.push_str("{{ ");
                emit(&gen_lit(rng), o, sp);
                o.push_str(" }}");
            }
            if rng.chance(1, 5) {
                o.push_str("{{ super() }}");
            }
            o.push_str("]{% endblock %}");
        }
        5 | 6 => {
            o.push_str("{% macro m(a=");
            emit(&gen_lit(rng), o, sp);
            o.push_str(") %}M<{{ a }}>{% endmacro %}");
        }
        7 | 8 => {
            o.push_str("{% set g = ");
            emit(&gen(rng, 1), o, sp);
            o.push_str(" %}");
        }
        9 => {
            o.push_str("{% extends ");
            emit(&G::Lit("\"base.txt\"".into()), o, sp);
            o.push_str(" %}");
        }
        10 => {
            o.push_str("{% import ");
            emit(&G::Lit("\"mac.txt\"".into()), o, sp);
            o.push_str(" as q %}");
        }
        _ if depth > 0 => emit_wrapped(rng, o, sp, names, depth - 1),
        _ => o.push_str("txt"),
    }
}

/// an effect inside a branch of if/elif/else, for (also over empty iterables), with, filter, autoescape
fn emit_wrapped(rng: &mut Rng, o: &mut String, sp: &mut Vec<(usize, usize)>, names: &mut Vec<&'static str>, depth: u32) {
    match rng.below(10) {
        0..=3 => {
            o.push_str("{% if ");
            emit(&gen_cond(rng), o, sp);
            o.push_str(" %}");
            emit_effect(rng, o, sp, names, depth);
            if rng.chance(1, 3) {
                o.push_str("{% elif ");
                emit(&gen_cond(rng), o, sp);
                o.push_str(" %}");
                emit_effect(rng, o, sp, names, depth);
            }
            if rng.chance(2, 3) {
                o.push_str("{% else %}");
                emit_effect(rng, o, sp, names, depth);
            }
            o.push_str("{% endif %}");
        }
        4 | 5 => {
            o.push_str("{% for x in ");
            emit(&G::Lit(rng.pick(&ITERS).to_string()), o, sp);
            o.push_str(" %}");
            emit_effect(rng, o, sp, names, depth);
            if rng.chance(1, 2) {
                o.push_str("{% else %}");
                emit_effect(rng, o, sp, names, depth);
            }
            o.push_str("{% endfor %}");
        }
        6 => {
            o.push_str("{% with a = ");
            emit(&gen_lit(rng), o, sp);
            o.push_str(" %}");
            emit_effect(rng, o, sp, names, depth);
            o.push_str("{% endwith %}");
        }
        7 => {
            o.push_str("{% filter upper %}");
            emit_effect(rng, o, sp, names, depth);
            o.push_str("{% endfilter %}");
        }
        8 => {
            o.push_str("{% autoescape ");
            emit(&G::Lit(rng.pick(&ESCAPES).to_string()), o, sp);
            o.push_str(" %}");
            emit_effect(rng, o, sp, names, depth);
            o.push_str("{% endautoescape %}");
        }
        _ => {
            o.push_str("{{ ");
            emit(&G::If(Box::new(gen_lit(rng)), Box::new(gen_cond(rng)), Some(Box::new(gen_lit(rng)))), o, sp);
            o.push_str(" }}");
            emit_effect(rng, o, sp, names, depth);
        }
    }
}

/// a template made of wrapped effects followed by every in-template consumer
fn gen_effect_stmt(rng: &mut Rng) -> (String, Vec<(usize, usize)>) {
    let mut o = String::new();
    let mut sp = vec![];
    let mut names = BLOCK_NAMES.to_vec();
    if rng.chance(1, 3) {
        o.push_str("{% extends ");
        emit(&G::Lit("\"base.txt\"".into()), &mut o, &mut sp);
        o.push_str(" %}");
    }
    for _ in 0..1 + rng.below(3) {
        emit_wrapped(rng, &mut o, &mut sp, &mut names, 2);
    }
    // consumers inside the template itself (mostly of things the template defines somewhere)
    let used: Vec<&str> = BLOCK_NAMES.iter().copied().filter(|n| !names.contains(n)).collect();
    if !used.is_empty() && rng.chance(2, 3) {
        o.push_str(&format!("|{{{{ self.{}() }}}}", rng.pick(&used)));
    } else if rng.chance(1, 8) {
        o.push_str(&format!("|{{{{ self.{}() }}}}", rng.pick(&BLOCK_NAMES)));
    }
    if (o.contains("macro m(") && rng.chance(2, 3)) || rng.chance(1, 10) {
        o.push_str("|{{ m() }}");
    }
    if (o.contains("set g =") && rng.chance(2, 3)) || rng.chance(1, 10) {
        o.push_str("|{{ g }}");
    }
    if (o.contains(" as q ") && rng.chance(2, 3)) || rng.chance(1, 15) {
        o.push_str("|{{ q.f(1) }}");
    }
    (o, sp)
}

// ------------------------------------------------------------------------------------ size classes
/// container sizes: around every power of two up to 64 (thresholds of "optimisations" hide there)
const SIZES: [usize; 12] = [0, 1, 2, 7, 8, 9, 16, 17, 32, 33, 64, 65];

/// Classes of values that are equal under `==` (or adjacent) but differ in kind, width or representation,
/// so that `==`, `Ord`, `Hash` and the rendered text tell the members apart: a change of the comparison
/// relation between the folded and the run-time path shows on them.  `-x` is a negated literal,
/// `(x|safe)` a safe string (no literal denotes one).
const CLASSES: [(&str, &[&str]); 12] = [
    ("one", &["true", "1", "1.0"]),
    ("zero", &["false", "0", "0.0", "-0.0"]),
    ("two", &["2", "2.0", "2"]),
    ("neg1", &["-1", "-1.0", "-1"]),
    ("i64max", &["9223372036854775807", "9223372036854775807.0", "9223372036854775806"]),
    ("2p63", &["9223372036854775808", "9223372036854775808.0", "9223372036854775807"]),
    ("2p64", &["18446744073709551616", "18446744073709551616.0", "18446744073709551615"]),
    ("2p53", &["9007199254740993", "9007199254740992.0", "9007199254740992"]),
    ("str", &["\"a\"", "'a'", "(\"a\"|safe)", "\"A\""]),
    ("digit", &["\"1\"", "1", "'1'", "(\"1\"|safe)"]),
    ("none", &["none", "false", "0", "\"\""]),
    ("seq", &["[1]", "(1,)", "[1.0]", "[true]"]),
];

fn class_item(text: &str) -> G {
    if let Some(rest) = text.strip_prefix('-') {
        G::Neg(Box::new(G::Lit(rest.to_string())))
    } else if let Some(inner) = text.strip_prefix('(').and_then(|t| t.strip_suffix("|safe)")) {
        G::Filt("safe", Box::new(G::Lit(inner.to_string())), vec![], vec![])
    } else {
        G::Lit(text.to_string())
    }
}

/// pairwise different values that belong to no class
fn filler(i: usize, style: u64) -> G {
    G::Lit(match style {
        0 => format!("{}", 10 + i),
        1 => format!("\"s{}\"", i),
        _ => match i % 4 {
            0 => format!("{}", 10 + i),
            1 => format!("\"s{}\"", i),
            2 => format!("{}.5", 10 + i),
            _ => format!("[{}]", 10 + i),
        },
    })
}

struct SizedC {
    n: usize,
    class: usize,
    /// items of the container and of its twin (class members swapped for other members: equal under `==`)
    items: Vec<G>,
    twin: Vec<G>,
    /// list or tuple
    tuple: bool,
    probe: G,
    probe2: G,
}

fn gen_sized(rng: &mut Rng, n: usize) -> SizedC {
    // half of the cases from the two classes in which `==`, `Ord` and `Hash` are known to disagree
    let class = if rng.chance(1, 2) { rng.below(2) as usize } else { rng.below(CLASSES.len() as u64) as usize };
    let members = CLASSES[class].1;
    let style = rng.below(3);
    let mut items: Vec<G> = (0..n).map(|i| filler(i, style)).collect();
    let mut twin = items.clone();
    let mut partner: Option<G> = None;
    if n > 0 {
        // 0..3 class members at the ends, in the middle, around index 8, anywhere
        let cnt = [1, 1, 1, 2, 2, 3, 0][rng.below(7) as usize];
        for _ in 0..cnt {
            let cand = [0, n - 1, n / 2, 7.min(n - 1), 8.min(n - 1), rng.below(n as u64) as usize, rng.below(n as u64) as usize];
            let at = *rng.pick(&cand);
            let a = rng.below(members.len() as u64) as usize;
            let b = (a + 1 + rng.below(members.len() as u64 - 1) as usize) % members.len();
            items[at] = class_item(members[a]);
            twin[at] = class_item(members[b]);
            partner = Some(class_item(members[b]));
        }
    }
    // mostly ANOTHER member of the class than the one in the container (equal, of another kind)
    let probe = match (rng.below(10), partner) {
        (0, _) => G::Lit("5".into()),
        (1, _) if n > 0 => items[rng.below(n as u64) as usize].clone(),
        (2..=6, Some(p)) => p,
        _ => class_item(*rng.pick(members)),
    };
    let probe2 = class_item(*rng.pick(members));
    SizedC { n, class, items, twin, tuple: rng.chance(1, 3), probe, probe2 }
}

/// Operator forms over a sized container.  `$A`/`$P` probes (class members), `$C` the container, `$D` its
/// twin, `$M`/`$N` a map with the items as keys and its twin, `$S` a string of n characters, `$K` a small
/// count, `$I`/`$J` indices around the size, `$Z` a step, `$B` a batch size, `$G` a glue string, `$1`/`$2`
/// the names of a test and a filter as string literals.
const SIZED_EXPR_FORMS: &[&str] = &[
    "$A in $C", "$A not in $C", "$C == $D", "$C != $D", "$C < $D", "$C <= $D", "$C + $D", "$C * $K", "$K * $C",
    "$C[$I]", "$C[$A]", "$C[$I:$J]", "$C[::$Z]", "$C[$I:]", "$C[:$J:$Z]",
    "$C|length", "$C|first", "$C|last", "$C|join($G)", "$C|sort|join($G)", "$C|unique|list", "$C|batch($B)|list", "$C|slice($B)|list",
    "$C|sum", "$C|min", "$C|max", "$C|reverse|list", "$C|list", "$A|default($C)", "$C|map($2)|list", "$C|select($1, $A)|list",
    "$C|reject(\"in\", $D)|list", "$C|tojson", "$C|string", "$C|kwf(ka=$A)",
    "$A is in($C)", "$A is not in($C)", "$C is eq($D)", "$C is sequence",
    "$A in $C in [$D]", "$A in $C == $T", "$A < $K in $C", "$A not in $C not in [$D]", "$A == $P in $C", "$C == $D == $C",
    "kw($C)", "kw(*$C)", "kw(ka=$C)", "kw($A, *$C, ka=$A)", "kw(*$C, **$M)",
    // n-ary syntax: n positional / keyword arguments, chains and operator sequences of n operands
    "kw($*)", "kw($=)", "ob.m($=)", "ob[\"f\"]($*, ka=$A)", "$A|kwf($=)", "kw($*, $=)", "$<", "$&", "$|", "$~", "[$*][$I]", "{$:}",
    "$C in [$D]", "$C not in [$A, $D]", "[$C] == [$D]", "$C is in([$D])", "$S in [$A, $S]",
    "ob.m(*$C, ka=$A)", "ob[\"f\"]($A, **$M)", "$A|kwf(*$C)", "$A is kwt(*$C)", "ob.f(ka=$C, kb=$A)",
    "$A in $C and $A in $D", "($A in $C) if ($A in $D) else $C", "$A in ($C + $D)", "$A in $C * $K", "$A in $C[$I:]", "$A in $C|list",
    "[$C, $D]", "{$A: $C}", "{\"k\": $C}[\"k\"]", "$C ~ $A", "not $C", "$C and $A", "$C or $A", "[$A, $P] == $C[:2]",
    "$A in $M", "$A not in $M", "$M[$A]", "$M == $N", "$M != $N", "$M|length", "$M|items|list", "$M|dictsort", "$M|list", "kw(**$M)",
    "$A is in($M)", "$M|first", "$A in $M|list", "$M|tojson", "$M ~ \"\"", "{$A: $K, $P: $B}",
    "$A in $S", "$A not in $S", "$S[$I]", "$S[$I:$J]", "$S * $K", "$S|length", "$S|list|length", "$S ~ $A", "$S == $S", "$S|upper", "$S|first",
];

const SIZED_STMT_FORMS: &[&str] = &[
    "{% for x in $C %}{{ x }},{% else %}e{% endfor %}",
    "{% for x in $C if x in $D %}{{ loop.index }}{% endfor %}",
    "{% if $A in $C %}y{% else %}n{% endif %}",
    "{% set x = $C %}{{ $A in x }}|{{ x|length }}",
    "{% for x in $C %}{{ x == $A }}{% endfor %}",
    "{% with c = $C %}{{ $A in c }}{% endwith %}",
    "{% macro m(a=$C) %}{{ $A in a }}{% endmacro %}{{ m() }}",
    "{% set a, b = $C %}{{ a }}",
    "{% for k, v in $M|items %}{{ k }}={{ v }};{% endfor %}",
    "{% if $A in $C %}{% block b %}B{% endblock %}{% endif %}",
    "{% for x in $C %}{% if x is in($D) %}{{ x }}{% endif %}{% endfor %}",
    "{% for x in $M %}{{ x }}{% endfor %}|{% if $A in $M %}{% set g = $M[$A] %}{% endif %}{{ g }}",
    // what unrolling a loop over a literal, or propagating a literal `set`, would have to preserve
    "{% for x in $C %}{{ loop.index }}/{{ loop.length }}:{{ loop.first }}{{ loop.last }}{{ loop.revindex0 }}[{{ loop.previtem|default(\"-\") }}|{{ loop.nextitem|default(\"-\") }}]{{ loop.cycle($A, $P) }}{% if loop.changed(x) %}c{% endif %};{% endfor %}",
    "{% set y = $A %}{% for x in $C %}{% set y = x %}{% if x == $A %}{% break %}{% endif %}{% if x == $P %}{% continue %}{% endif %}[{{ x }}]{% endfor %}{{ y }}|{{ x is defined }}",
    "{% for x in $C recursive %}{{ x }}{% if loop.depth < 2 and loop.first %}<{{ loop([$A, $P]) }}>{% endif %}{% endfor %}",
    "{% set x = $A %}{% set x = x ~ $P %}{{ x }}{% if x %}{% set x = $C %}{% endif %}{{ x }}",
    "{% set x = $A %}{% macro m() %}{{ x }}{% endmacro %}{% set x = $P %}{{ m() }}|{{ x }}",
    "{% with x = $A %}{% set x = $P %}{{ x }}{% endwith %}{{ x is defined }}",
    "{% set ns = namespace(v=$A) %}{% for x in $C %}{% set ns.v = x %}{% endfor %}{{ ns.v }}",
    "{% for x in $C %}{% for y in $D %}{{ loop.index }}{% endfor %}{{ loop.index }}{% else %}none{% endfor %}",
    "{% if $A in $C %}{% set g = $A %}{% else %}{% set g = $P %}{% endif %}{{ g }}",
    "{% for a, b in [$C, $D] %}{{ a }}{{ b }}{% endfor %}",
    "{{ $A }}|{{ $C }}|{{ $M }}|{{ \"<&>\" ~ $A }}|{% autoescape true %}{{ $C }}{{ \"<\" }}{% endautoescape %}",
    "{% filter upper %}{{ $A }}{% for x in $C %}{{ x }}{% endfor %}{% endfilter %}",
    "{% for x in $C %}{% if loop.index > $K %}{% break %}{% endif %}{% block b %}B{{ x|default(\"-\") }}{% endblock %}{% endfor %}|{{ self.b() }}",
    "{% for x in $C %}{% macro m(a=x) %}{{ a }}{% endmacro %}{% endfor %}{{ m is defined }}",
];

/// a literal emitted on its own: escaping and the formatter see it like a variable's value (run under every
/// environment configuration)
const EMIT_SEEDS: &[&str] = &[
    "{{ `none` }}", "{{ `\"<b>&\"` }}", "{{ `true` }}|{{ `1.0` }}|{{ `0.1` }}", "{{ `[1, \"<\", none]` }}", "{{ [`none`, `\"<\"`] }}", "{{ `{\"<\": none}` }}",
    "{{ `\"<\"` ~ `\">\"` }}", "{{ `\"a\"` if `true` else `none` }}|{{ `none` if `1` }}", "{{ `\"<i>\"`|safe }}{{ `\"<i>\"`|upper }}", "{{ -`1` }}|{{ `1` + `1` }}|{{ `\"<\"` * `2` }}",
    "{% autoescape `false` %}{{ `\"<\"` }}{% endautoescape %}{% autoescape `\"html\"` %}{{ `\"<\"` }}{{ `none` }}{% endautoescape %}",
    "{% set x = `\"<\"` %}{{ x }}{{ `none` }}{% set y = `none` %}{{ y }}", "{% for x in [`\"<\"`, `none`] %}{{ x }}{% endfor %}", "{{ `\"\"` }}|{{ `()` }}|{{ `1e100` }}",
];


fn emit_form(rng: &mut Rng, form: &str, z: &SizedC, out: &mut String, spans: &mut Vec<(usize, usize)>) {
    let n = z.n;
    let seq = |items: &Vec<G>| if z.tuple { G::Tuple(items.clone()) } else { G::List(items.clone()) };
    // (the values of big maps are no leaves of their own: a case has at most 127 leaves)
    let map = |items: &Vec<G>| {
        G::Map(items.iter().enumerate().map(|(i, k)| (k.clone(), if n > 40 && i % 8 != 0 { G::Raw(format!("{}", 100 + i)) } else { G::Lit(format!("{}", 100 + i)) })).collect())
    };
    let idx = |rng: &mut Rng| {
        let cand = [0, 1, n.saturating_sub(1), n, n / 2, 7, 8, n + 1];
        let v = G::Lit(format!("{}", rng.pick(&cand)));
        if rng.chance(1, 4) { G::Neg(Box::new(v)) } else { v }
    };
    let mut chars = form.chars().peekable();
    while let Some(ch) = chars.next() {
        if ch != '$' {
            out.push(ch);
            continue;
        }
        let g = match chars.next().unwrap() {
            'A' => z.probe.clone(),
            'P' => z.probe2.clone(),
            'C' => seq(&z.items),
            'D' => seq(&z.twin),
            'M' => map(&z.items),
            'N' => map(&z.twin),
            'S' => G::Lit(format!("\"{}\"", (0..n).map(|i| (b'a' + (i % 26) as u8) as char).collect::<String>())),
            'K' => G::Lit(rng.pick(&SMALL).to_string()),
            'I' | 'J' => idx(rng),
            'Z' => {
                let v = G::Lit(rng.pick(&["1", "2", "3", "8"]).to_string());
                if rng.chance(1, 3) { G::Neg(Box::new(v)) } else { v }
            }
            'B' => G::Lit(rng.pick(&["1", "2", "7", "8", "9"]).to_string()),
            'G' => G::Lit(rng.pick(&["\",\"", "\"\"", "\"-\""]).to_string()),
            'T' => G::Lit(rng.pick(&["true", "1", "false"]).to_string()),
            '1' => G::Lit(rng.pick(&["\"eq\"", "\"ne\"", "\"ge\""]).to_string()),
            '2' => G::Lit(rng.pick(&["\"string\"", "\"abs\"", "\"bool\""]).to_string()),
            sep @ ('*' | '=' | '<' | '&' | '|' | '~' | ':') => {
                // the items themselves as an n-ary piece of syntax
                if n == 0 && !matches!(sep, '*' | '=' | ':') {
                    emit(&z.probe, out, spans);
                }
                for (i, item) in z.items.iter().enumerate() {
                    if i > 0 {
                        out.push_str(match sep {
                            '<' => if i % 2 == 0 { " <= " } else { " == " },
                            '&' => " and ",
                            '|' => " or ",
                            '~' => " ~ ",
                            _ => ", ",
                        });
                    }
                    if sep == '=' {
                        out.push_str(&format!("k{}=", i));
                    }
                    emit(item, out, spans);
                    if sep == ':' {
                        out.push_str(": ");
                        emit(&z.twin[i], out, spans);
                    }
                }
                if n == 0 && chars.peek() == Some(&',') {
                    // an empty argument list takes its separator with it
                    chars.next();
                    chars.next();
                }
                continue;
            }
            c => panic!("bad placeholder ${}", c),
        };
        emit(&g, out, spans);
    }
}

/// hand-written statement seeds (backticks delimit the literal leaves)
const STMT_SEEDS: &[&str] = &[
    "{% if `0` and `1` %}yes{% else %}no{% endif %}", "{% if `3` < `2` < `5` %}yes{% else %}no{% endif %}",
    "{% if `1` // `0` %}yes{% endif %}", "{% if `false` %}{{ `1` // `0` }}{% endif %}ok", "{% for x in [`1`, `2`] %}{{ x }}{% endfor %}",
    "{% for x in `[1, 2]` %}{{ x }}{% endfor %}", "{% for x in `\"ab\"` %}{{ x }},{% endfor %}", "{% for x in `{\"a\": 1, \"a\": 2}` %}{{ x }}{% endfor %}",
    "{% for x in `3` %}{{ x }}{% endfor %}", "{% for x in `none` %}{{ x }}{% else %}e{% endfor %}", "{% set x = `0` or `\"\"` %}[{{ x }}]",
    "{% set x = {`\"a\"`: `1`, `\"b\"`: `5`, `\"a\"`: `2`} %}{{ x }}", "{% macro m(a=`1`, b=`\"x\"`) %}{{ a }}{{ b }}{% endmacro %}{{ m() }}{{ m(`2`) }}",
    "{% macro m(a=`0` and `1`) %}{{ a }}{% endmacro %}{{ m() }}", "{% macro m(a=`1` // `0`) %}{{ a }}{% endmacro %}ok", "{% macro m(a=`1` // `0`) %}{{ a }}{% endmacro %}{{ m() }}",
    "{% include `\"inc_a.txt\"` %}", "{% include `\"missing.txt\"` %}", "{% include `\"missing.txt\"` ignore missing %}.", "{% include [`\"missing.txt\"`, `\"inc_b.txt\"`] %}",
    "{% include `[\"missing.txt\", \"inc_b.txt\"]` %}", "{% extends `\"base.txt\"` %}{% block b %}{{ `1` and `0` }}{% endblock %}",
    "{{ u|default(`1`) }}", "{{ u|default(`0` and `1`) }}", "{{ `\"\"`|default(`\"d\"`, `true`) }}", "{{ `0`|default(`5`, `1`) }}",
    "{% autoescape `true` %}{{ `\"<b>\"` }}{% endautoescape %}", "{% autoescape `\"html\"` %}{{ `\"<\"` ~ `1` }}{% endautoescape %}", "{% autoescape `5` %}x{% endautoescape %}",
    "{% with a = `1` + `1`, b = `\"x\"` * `2` %}{{ a }}{{ b }}{% endwith %}", "{% set a, b = (`1`, `2`) %}{{ a }}{{ b }}", "{% set a, b = `(1, 2)` %}{{ a }}{{ b }}",
    "{% set a, b = `[1]` %}{{ a }}", "{{ dict(ka=`1`, kb=`2`, ka=`3`) }}", "{{ range(`3`)|list }}", "{% do kw(ka=`1` // `0`) %}x",
    "{% for x in [`1`, `2`, `3`] if x > `1` %}{{ x }}{% endfor %}", "{% for x in [`1`, `2`] %}{{ loop.cycle(`\"a\"`, `\"b\"`) }}{% endfor %}",
    "{% import `\"mac.txt\"` as m %}{{ m.f(`1`, y=`2`) }}", "{% from `\"mac.txt\"` import f %}{{ f(`0` and `1`) }}", "{{ `\"%s|%s\"`|format(`1`, `1.5`) }}",
    "{{ [`3`, `1`, `2`]|sort }}", "{{ `[3, 1, 2]`|sort|join(`\"-\"`) }}", "{{ [`1`, `1.0`, `true`]|unique|list }}", "{% if u %}a{% else %}b{% endif %}{{ `1` if u }}",
    "{{ `\"a\"` if `0` }}|{{ (`\"a\"` if `0`) is defined }}", "{% set x %}{{ `1.5` }}{% endset %}{{ x }}", "{% filter upper %}{{ `\"abc\"` ~ `1` }}{% endfilter %}",
    "{% macro wrap() %}<{{ caller() }}>{% endmacro %}{% call(z=`5`) wrap() %}{{ z }}{% endcall %}",
    "{% macro dlg(title=\"d\") %}<{{ title }}|{{ caller() }}>{% endmacro %}{% call dlg(title=`\"Hello\"`) %}body{% endcall %}",
    "{% macro dlg(title=\"d\", n=0) %}<{{ title }}{{ n }}|{{ caller() }}>{% endmacro %}{% call dlg(title=`\"Hello\"`, n=`2`) %}body{% endcall %}",
    "{% macro dlg(p, title=\"d\") %}<{{ p }}{{ title }}|{{ caller(`1`) }}>{% endmacro %}{% call(x) dlg(`0`, title=`none`) %}[{{ x }}]{% endcall %}",
    "{% macro plain(a=1) %}({{ a }}){% endmacro %}{% call plain(a=`2`) %}body{% endcall %}", "{% macro plain(a=1) %}({{ a }}){% endmacro %}{% call plain(`2`) %}body{% endcall %}",
    "{% call kw(ka=`1`) %}body{% endcall %}", "{% call kw(ka=`1`, caller=`2`) %}body{% endcall %}", "{% call kw(`1`) %}body{% endcall %}", "{% call kw(ka=-`1`) %}body{% endcall %}",
    "{% do kw(ka=`1`, kb=`\"x\"`) %}done", "{% filter kwf(ka=`1`) %}body{% endfilter %}", "{% set x | kwf(ka=`1`, kb=`2`) %}body{% endset %}{{ x }}",
    "{% call ob.m(ka=`1`) %}body{% endcall %}", "{% call ob.m(`0`, ka=`1`, kb=`\"x\"`) %}body{% endcall %}", "{% call ob[`\"f\"`](ka=`1`) %}body{% endcall %}",
    "{% call ob.f(*[`1`], ka=`2`) %}body{% endcall %}", "{% call kw(**{`\"ka\"`: `1`}) %}body{% endcall %}", "{% call kw(ka=`1`, **{`\"kb\"`: `2`}) %}body{% endcall %}",
    "{% do ob.m(ka=`1`) %}done", "{% do ob[`\"f\"`](*[`1`], ka=`2`) %}done", "{% filter kwf(*[`1`], ka=`2`) %}body{% endfilter %}",
    "{% extends `\"base.txt\"` %}{% if `false` %}{% block b %}child{% endblock %}{% endif %}",
    "{% extends `\"base.txt\"` %}{% if `true` %}{% block b %}child{% endblock %}{% endif %}",
    "{% if `true` %}A{% else %}{% block b %}B{% endblock %}{% endif %}|{{ self.b() }}",
    "{% if `false` %}A{% else %}{% block b %}B{% endblock %}{% endif %}|{{ self.b() }}",
    "{% if `0` %}x{% elif `none` %}{% block c %}C{% endblock %}{% else %}{% block b %}B{% endblock %}{% endif %}|{{ self.c() }}",
    "{% for x in `[]` %}{% block b %}B{{ x }}{% endblock %}{% endfor %}|{{ self.b() }}",
    "{% for x in `[]` %}y{% else %}{% block b %}B{% endblock %}{% endfor %}",
    "{% if `false` %}{% macro m() %}M{% endmacro %}{% endif %}{{ m() }}", "{% if `true` %}{% macro m() %}M{% endmacro %}{% endif %}{{ m() }}",
    "{% if `false` %}{% set g = `1` %}{% endif %}{{ g }}", "{% if `1` == `1` %}{% set g = `1` %}{% endif %}{{ g }}",
    "{% if `false` %}{% extends `\"base.txt\"` %}{% endif %}x{% block b %}B{% endblock %}",
    "{% if `true` %}{% extends `\"base.txt\"` %}{% endif %}x{% block b %}B{% endblock %}",
    "{% if `not true` %}{% import `\"mac.txt\"` as q %}{% endif %}{{ q.f(`1`) }}",
    "{% with a = `1` %}{% if `\"x\" in [\"x\"]` %}{% else %}{% block title %}T{% endblock %}{% endif %}{% endwith %}",
    "{% autoescape `true` %}{% if `false` %}{% block b %}<b>{% endblock %}{% endif %}{% endautoescape %}|{{ self.b() }}",
    "{% filter upper %}{% if `0` %}{% block b %}b{% endblock %}{% endif %}{% endfilter %}",
    "{{ `1` if `false` else `2` }}{% if `false` %}{% if `true` %}{% block b %}B{% endblock %}{% endif %}{% endif %}",
];

/// hand-written seeds; literal leaves are delimited by backticks
const SEEDS: &[&str] = &[
    "`0` and `1`", "`1` and `0`", "`0` or `1`", "`1` or `0`", "`\"\"` and `\"a\"`", "`\"a\"` and `\"\"`",
    "`[]` and `1`", "`1` and `[]`", "`none` and `1`", "`1` and `none`", "`0.0` and `1`", "`{}` or `()`",
    "`false` and `1`", "`true` and `0`", "`false` or `0`", "`0` or `false`", "`0` or `\"\"`",
    "(`0` and `1`) or `2`", "(`1` and `0`) ~ `\"x\"`", "not (`0` and `1`)", "(`0` and `1`) == `0`",
    "[`0` and `1`]", "{`\"k\"`: `1` and `0`}", "`1` and `2` and `0`", "`0` and `1` and `2`",
    "-`9223372036854775808`", "-`9223372036854775807`", "-`9223372036854775809`",
    "-`170141183460469231731687303715884105728`", "-`170141183460469231731687303715884105727`",
    "-`170141183460469231731687303715884105729`", "-`340282366920938463463374607431768211455`",
    "-`18446744073709551615`", "-`18446744073709551616`", "-`0`", "-`0.0`", "-`1.5`", "-`\"a\"`",
    "-`none`", "-`true`", "-`[1, 2]`", "-(-`9223372036854775808`)", "-(-(-`1`))",
    "`1` // `0`", "`1` % `0`", "`1` / `0`", "`1.0` // `0`", "`1.0` % `0.0`", "`0` ** -`1`", "`2` ** `200`",
    "`1` + `1` // `0`", "[`1` // `0`]", "`0` and `1` // `0`", "`1` or `1` // `0`", "`1` and `1` // `0`",
    "`0` or `1` % `0`", "`170141183460469231731687303715884105727` + `1`",
    "(-`170141183460469231731687303715884105727` - `1`) // -`1`",
    "`340282366920938463463374607431768211455` + `340282366920938463463374607431768211455`",
    "`1` in `[1, 2]`", "`3` in `[1, 2]`", "`1` not in `[1, 2]`", "`1.0` in `[1, 2]`", "`true` in `[1, 2]`",
    "`\"a\"` in `\"abc\"`", "`1` in `\"a1\"`", "`1` in `1`", "`1` in `none`", "`\"a\"` in `{\"a\": 1}`",
    "`1` in `(1, 2)`", "`1` in [`1`, `2`]", "`[1]` in `[[1], [2]]`", "`1` not in `1`",
    "`\"a\"` ~ `\"b\"`", "`\"a\"` ~ `1`", "`1` ~ `2`", "`1.0` ~ `none`", "`true` ~ `[1, \"a\"]`",
    "`1e100` ~ `0.1`", "`(1,)` ~ `{\"a\": 1}`",
    "`1` < `2` < `3`", "`3` > `2` > `1`", "`1` < `2` > `3`", "`1` < `3` < `2`", "`2` < `1` < `3`",
    "`1` == `1` == `1`", "`1` == `1` == `true`", "`1` < `2` < `3` < `0`", "`1` < `2` == `2`",
    "`1` < `2` in `[2]`", "`1` in `[1]` in `[[1]]`", "`1` in `[1]` == `[1]`", "`1` not in `[2]` < `[3]`",
    "`3` > `2` in `1`", "`1` > `2` in `1`", "`1` < `2` < `\"a\"`", "`0` < `1` // `0` < `2`",
    "`1` > `2` < `1` // `0`", "`1` < `2` < u", "`2` < `1` < u", "u < `1` < `2`",
    "`1` != `1` != `1`", "`1` <= `1` >= `1`", "(`1` < `2`) < `3`", "`1` < (`2` < `3`)",
    "[`1`, `2`]", "[`1`, [`2`]]", "(`1`,)", "(`1`, `2`)", "()", "[]", "{}", "{`1`: `2`}",
    "{`\"a\"`: `1`, `\"b\"`: `5`, `\"a\"`: `2`}", "{`\"a\"`: `1`, `\"a\"`: `2`, `\"a\"`: `3`}",
    "{`1`: `\"x\"`, `2`: `\"y\"`, `1.0`: `\"z\"`}", "{`true`: `1`, `1`: `2`}", "{`1`: `1`, `true`: `2`, `1.0`: `3`, `2`: `4`}",
    "{`0`: `\"x\"`, `false`: `\"y\"`}", "{`\"a\"`: -`1`, `\"b\"`: `5`, `\"a\"`: `2`}", "{`\"a\"`: `1`, `\"b\"`: `5`, `\"a\"`: [`2`]}",
    "{`\"a\"`: `1`, `\"a\"`: `1`}", "{`\"b\"`: `1`, `\"a\"`: `2`, `\"b\"`: `3`, `\"a\"`: `4`}", "{`none`: `1`, `none`: `2`}",
    "{`{\"a\": 1, \"a\": 2}`: `1`}", "`{\"a\": 1, \"b\": 5, \"a\": 2}`", "`{1: \"x\", 1.0: \"y\", true: \"z\"}`",
    "kw(ka=`1`, kb=`2`, ka=`3`)", "kw(ka=`1`, ka=`2`, ka=`3`)", "kw(ka=`1`, kb=`2`, ka=-`3`)", "`0`|kwf(ka=`1`, ka=`2`)",
    "`1.0` in [`1`, `1`]", "`true` in (`1`, `1`)", "`1` in [`1.0`, `true`]", "`1` in (`true`,)", "`\"a\"` in [`\"a\"`, `'a'`]",
    "`2` not in [`2.0`, `2`]", "[`1`, `1.0`] == [`1.0`, `1`]", "(`1`, `1`) == (`true`, `1.0`)", "`1` in `[1, 1]`", "`1.0` in `(1, 1)`",
    "`0` in [`false`, `0.0`] in [`true`]", "`1` in {`1`: `2`, `1.0`: `3`}", "`true` in {`1.0`: `2`}",
    "`[1, 2]`[`0`]", "[`1`, `2`][`0`]", "[`1`, `2`][-`1`]", "[`1`, `2`][`5`]", "[`1`, `2`][`5`][`0`]", "`\"abc\"`[`1`]", "`\"abc\"`[-`1`]",
    "`{\"a\": 1}`.a", "`{\"a\": 1}`.b", "`{\"a\": 1}`.b.c", "{`\"a\"`: `1`}[`\"a\"`]", "`{1: \"x\"}`[`1.0`]", "`{1: \"x\"}`[`true`]", "`[1, 2]`[`1.0`]",
    "`[1, 2]`[`true`]", "`5`[`0`]", "`none`[`0`]", "u[`0`]", "u.a", "u.a.b", "(`1`, `2`)[`1`]", "`[1, 2, 3, 4]`[`1`:`3`]", "`[1, 2, 3, 4]`[:-`1`]",
    "`[1, 2, 3, 4]`[::-`1`]", "`[1, 2, 3, 4]`[`3`:`0`:-`2`]", "`\"abcdef\"`[`1`::`2`]", "`\"abc\"`[::`0`]", "`(1, 2, 3)`[`1`:]", "`5`[`1`:]", "u[`1`:]",
    "`none`[`1`:]", "`[1, 2]`[`\"a\"`:]", "`{\"a\": 1}`[`0`:]", "`[1, 2, 3]`[`none`:`2`]", "`1` if `0` else `2`", "`1` if `1` else `2`", "`1` if `0`",
    "(`1` if `0`) is defined", "(`1` if `0`) ~ `\"x\"`", "[`1` if `0`]", "(`1` if `0`) == u", "not (`1` if `0`)", "`1` if u else `2`", "`1` // `0` if `0` else `2`",
    "`2` if `1` else `1` // `0`", "(`0` and `1`) if (`1` and `0`) else (`0` or `\"\"`)", "`0`|default(`5`)", "u|default(`5`)", "u|default", "`\"\"`|default(`5`, `true`)",
    "`0`|default(`5`, `1`)", "`0`|default(`5`, u)", "(`1` if `0`)|default(`5`)", "`0`|default(`1`, `2`, `3`)", "`[1, 2]`|length", "`\"abc\"`|length", "`5`|length",
    "`{\"a\": 1}`|length", "-`5`|abs", "(-`5`)|abs", "(-`1.5`)|abs", "`true`|abs", "`\"a\"`|abs", "`[3, 4]`|first", "`\"xy\"`|first", "`[]`|first", "`5`|first",
    "`1.5`|string", "`[1, \"a\"]`|string", "u|string", "`\"ab\"`|list", "`{\"b\": 1, \"a\": 2}`|list", "`5`|list", "u|list", "`none`|list",
    "`6` is divisibleby(`3`)", "`6` is divisibleby(`0`)", "`6` is divisibleby(`4`)", "`6.0` is divisibleby(`3`)", "`6` is divisibleby(`1.5`)", "`\"a\"` is divisibleby(`1`)",
    "`6` is not divisibleby(`4`)", "u is defined", "`1` is defined", "`none` is none", "`3` is odd", "`3.0` is odd", "`2` is even", "`\"a\"` is odd", "`true` is odd",
    "`1` is number", "`1.5` is float", "`1` is integer", "`\"a\"` is string", "`1` is eq(`1.0`)", "`1` is lt(`true`)", "`1` is in(`[1, 2]`)", "`1` is in(u)", "`1` is in(`5`)",
    "`1` is nosuchtest", "`1`|nosuchfilter", "nosuchfn(`1`)", "`\"a\\\"b\"` ~ `1`", "[`\"a\\\"b\"`, `\"it's\"`, `'it\\'s'`] ~ `\"\"`", "[`\"line\\nbreak\"`] ~ `\"\\u00e9\\u0001\"`",
    "{`\"back\\\\slash\"`: `\"tab\\t\"`} ~ `1`", "`1.5` ~ `1e100`", "[`1.5`, `1e100`, `1e-7`, `0.1`] ~ `\"\"`", "`0.1` + `0.2` ~ `\"\"`", "(`0.1` + `0.2`) ~ `\"\"`", "`1e16` ~ [`1e16`, `1e15`]",
    "`5e-324` ~ [`5e-324`]", "`1` / `3` ~ `\"\"`", "(`1` / `3`) ~ `\"\"`", "(`2` ** `0.5`) ~ `\"\"`", "`1.5` ** `2`", "`7.5` // `2`", "-`7.5` // `2`", "`7.5` % `2`", "-`7.5` % `2`",
    "`1.0` // `0.1`", "`1.0` % `0.1`", "`1e308` * `10` - `1e308` * `10`", "`1` in `\"a1.5\"`", "`1.5` in `\"a1.5\"`", "`9007199254740993` + `0.5`",
    "`170141183460469231731687303715884105728` + `1`", "`170141183460469231731687303715884105728` == `170141183460469231731687303715884105728`",
    "`170141183460469231731687303715884105728` < `340282366920938463463374607431768211455`", "`170141183460469231731687303715884105728` + `0.5`",
    "(-`170141183460469231731687303715884105727` - `1`) % -`1`", "(-`170141183460469231731687303715884105727` - `1`)|abs",
    "kw(*[`1`, `2`])", "kw(`0`, *`[1, 2]`, ka=`3`)", "kw(*[`1`], **{`\"ka\"`: `2`})", "kw(ka=`1`, **{`\"ka\"`: `2`, `\"kb\"`: `3`})", "kw(*`5`)", "kw(**`5`)",
    "kw(*[`0` and `1`], ka=`1` // `0`)", "{`1`: `2`, `1`: `3`}", "{`1`: `2`, `1.0`: `3`}", "{`1`: `2`, `true`: `3`}", "{`\"a\"`: `1`, `\"a\"`: `2`}",
    "{`[1]`: `2`}", "{[`1`]: `2`}", "{`{}`: `2`}", "{`none`: `1`}", "{`2`: `1`, `1`: `2`}",
    "{`\"b\"`: `1`, `\"a\"`: `2`}", "{`1.5`: `1`}", "{`(1, 2)`: `3`}", "[`1`, `\"a\"`, `none`, `true`, `1.5`]",
    // an exact tie between two shortest digit strings goes up: 900719925474099.25 -> "900719925474099.3"
    "(`9007199254740993` / `10.0`) ~ `\"\"`", "`900719925474099.25` ~ `\"\"`", "[`0.5`, `2.5`, `1e23`, `9007199254740993.0`, `4.35`, `0.3`] ~ `\"\"`",
    // unit bases take exponents beyond u32 (fix 3a8d5c6); every other base and negative exponents fail
    "`1` ** `4294967296`", "`0` ** `4294967296`", "(-`1`) ** `4294967296`", "(-`1`) ** `4294967297`", "`2` ** `4294967296`", "`1` ** -`1`",
    "`true` ** `18446744073709551616`", "`1` ** `4294967295`",
    "`1.0`", "`1.5`", "`1e100`", "`1e400`", "`0.1` + `0.2`", "`1` / `3`", "`2` ** `0.5`", "`1e308` * `10`",
    "`1` + `1.0`", "`9007199254740993` + `0.0`", "`9007199254740993` == `9007199254740993.0`",
    "`9007199254740992` == `9007199254740992.0`", "`1` == `1.0`", "`1` == `true`", "`1` < `true`",
    "`0.1` * `3`", "`7` // `2`", "-`7` // `2`", "`7.0` // `2`", "-`7.0` // `2`", "-`7.0` % `2`", "-`7` % `2`",
    "`1` + `\"a\"`", "`\"a\"` + `\"b\"`", "`\"ab\"` * `3`", "`3` * `\"ab\"`", "`[1, 2]` * `2`", "`(1, 2)` * `2`",
    "`[1]` + `[2]`", "`(1,)` + `(2,)`", "`[1]` + `(2,)`", "`\"a\"` * -`1`", "`none` + `1`", "`true` + `1`",
    "`true` + `true`", "`\"a\"` < `\"b\"`", "`\"a\"` < `1`", "`[1]` < `[2]`", "`none` == `none`",
    "not `0`", "not `1`", "not `\"\"`", "not `[]`", "not `none`", "not u", "not not `2`",
    "kw(ka=`1`)", "kw(ka=`1`, kb=`\"x\"`)", "kw(`1`, ka=`2`)", "kw(ka=`1`, ka=`2`)", "kw(kb=`1`, ka=`2`)",
    "kw(ka=`[1, 2]`)", "kw(ka=[`1`, `2`])", "kw(ka=`1` + `1`)", "kw(ka=`1`, kb=`1` + `1`)", "kw(ka=-`1`)",
    "kw(ka=`none`)", "kw(ka=`1.5`)", "kw(ka=`0` and `1`)", "kw(`0` and `1`, ka=`1`)", "kw(ka=`1` // `0`)",
    "`1`|kwf(ka=`2`)", "(`1` + `1`)|kwf(ka=`2`, kb=`3`)", "`\"x\"`|kwf(ka=`none`)", "kw(ka=`9223372036854775808`)",
    "kw(ka=`340282366920938463463374607431768211455`)", "kw()", "kw(`1`)",
    "ob.m(`1`, ka=`2`)", "ob.m(ka=`1`, kb=`\"x\"`)", "ob.m(ka=`1`, ka=`2`)", "ob.m(ka=-`1`)", "ob.m(*[`1`, `2`], ka=`3`)", "ob.m(**{`\"ka\"`: `1`})",
    "ob.f(`1`, ka=`2`)", "ob.f(ka=`1`)", "ob[`\"f\"`](`1`, ka=`2`)", "ob[`\"f\"`](ka=`1`, kb=`2`)", "[kw][`0`](ka=`1`)", "[kw][`0`](*`[1, 2]`, **`{\"ka\": 3}`)",
    "{`\"f\"`: kw}.f(ka=`1`)", "ob.nosuch(ka=`1`)", "ob[`\"g\"`](ka=`1`)", "`5`(ka=`1`)", "u.m(ka=`1`)", "u(ka=`1`)",
    "`1`|kwf(*[`2`, `3`])", "`1`|kwf(*`[2]`, ka=`3`)", "`1`|kwf(ka=`2`, **{`\"kb\"`: `3`})", "`1`|kwf(**`{\"ka\": 1}`, ka=`2`)",
    "`1` is kwt", "`1` is kwt(`2`)", "`1` is kwt(ka=`2`)", "`1` is kwt(`2`, ka=`3`)", "`1` is kwt(*[`2`, `3`])", "`1` is kwt(*`[2]`, ka=`3`, **{`\"kb\"`: `4`})", "`1` is not kwt(ka=`1`, ka=`2`)",
    "kw(*`\"ab\"`)", "kw(*`{\"b\": 1, \"a\": 2}`)", "kw(*`none`)", "kw(*u)", "kw(**u)", "kw(**`none`)", "kw(**`[1]`)", "kw(**{`1`: `2`})", "kw(*`5`, **u)",
    "kw(*[`1`], `2`, *[`3`])", "kw(ka=`1`, **{`\"ka\"`: `2`}, ka=`3`)", "kw(**{`\"ka\"`: `1`}, **{`\"ka\"`: `2`, `\"kb\"`: `3`})", "kw(*[`1` // `0`], ka=`1`)", "kw(ka=`1`, **{`\"kb\"`: `1` // `0`})",
    "u", "u and `1`", "`0` and u", "`1` or u", "u or `1`", "`1` and u", "`1` + u", "u == `1`", "`1` in u",
    "u in `[1]`", "`\"a\"` ~ u", "-u", "[u]", "{`1`: u}", "kw(ka=u)", "`1` < `2` < u", "`1` == u",
];

fn seed_case(mode: &str, s: &str) -> Case {
    let mut src = String::new();
    let mut spans = vec![];
    let mut open = None;
    for ch in s.chars() {
        if ch == '`' {
            match open.take() {
                None => open = Some(src.len()),
                Some(a) => spans.push((a, src.len())),
            }
        } else {
            src.push(ch);
        }
    }
    Case { mode: mode.into(), src, spans, tmpl: false, tag: "-".into() }
}

/// With `preserve_order` maps are IndexMaps keyed through `Hash`, and `true == 1` / `false == 0`
/// hash differently (recorded finding of C07, `eq-vs-hash:Bool~Number`): whether such keys merge then
/// depends on the per-map random hash seed, so the very same spelling can render differently from run
/// to run.  Sources that build or index a map AND can produce a boolean are left out of that stream.
fn po_unstable(src: &str, tmpl: bool) -> bool {
    if !cfg!(feature = "preserve_order") {
        return false;
    }
    let stripped = if tmpl { src.replace("{{ ", "").replace("{%", "") } else { src.to_string() };
    let has_map = stripped.contains('{') || src.contains("dict(") || src.contains("**");
    if !has_map {
        return false;
    }
    let words: Vec<&str> = src.split(|c: char| !c.is_alphanumeric() && c != '_').collect();
    words.iter().any(|w| matches!(*w, "true" | "false" | "True" | "False" | "not" | "in" | "is" | "defined" | "bool"))
        || src.contains("==") || src.contains("!=") || src.contains('<') || src.contains('>')
}

// ------------------------------------------------------------------------------------ operator chains
/// Chains of three and four operands under every pair of operators and both associativities, at operand
/// values where re-association, merging of constant operands or reordering is visible: floats at 2^53 and at
/// the overflow threshold, signed zeros, integers at the 64/128 bit limits with neighbours of mixed sign,
/// zero divisors, strings and sequences for `+`, `*`, `~`, equal-across-kinds values for comparisons.
const CH_ADD_W: &[[&str; 3]] = &[
    ["9007199254740992.0", "1", "2"], ["9007199254740992.0", "1.0", "1.0"], ["-9007199254740992.0", "-1", "-2"],
    ["1e308", "1e308", "-1e308"], ["0.1", "0.2", "0.3"], ["-0.0", "0", "0"], ["1e16", "1", "1"], ["9007199254740993", "1.0", "-1.0"],
    ["170141183460469231731687303715884105727", "1", "-1"], ["-170141183460469231731687303715884105727", "-2", "1"],
    ["9223372036854775807", "1", "-1"], ["9223372036854775808", "-1", "1"], ["18446744073709551615", "1", "-1"],
    ["18446744073709551616", "-1", "-1"], ["1", "2", "3"], ["\"a\"", "\"b\"", "\"c\""], ["[1]", "[2]", "[3]"], ["\"a\"", "1", "2"],
    ["1", "2", "\"a\""], ["1", "170141183460469231731687303715884105727", "-1"], ["-1", "1", "170141183460469231731687303715884105727"],
    ["1.5", "9007199254740992", "-9007199254740992"],
];
const CH_MUL_W: &[[&str; 3]] = &[
    ["170141183460469231731687303715884105727", "2", "0"], ["9223372036854775807", "2", "0.5"], ["1e308", "10", "0.1"],
    ["3", "0.1", "10"], ["7", "2", "2"], ["7", "0", "1"], ["2", "3", "2"], ["2", "0.5", "2"], ["-8", "3", "2"], ["\"ab\"", "2", "3"],
    ["[1]", "2", "0"], ["5e-324", "0.5", "2"], ["4611686018427387904", "2", "2"], ["-7", "2", "-2"], ["7.5", "2", "0.0"],
    ["1", "3", "3"], ["100", "7", "7.0"],
];
const CH_CAT_W: &[[&str; 3]] = &[
    ["1", "2", "3"], ["\"a\"", "1", "2.0"], ["1", "\"a\"", "none"], ["true", "\"<\"", "1.5"], ["[1]", "\"a\"", "(1,)"], ["\"\"", "\"\"", "0"],
];
const CH_CMP_W: &[[&str; 3]] = &[
    ["1", "2", "3"], ["3", "2", "1"], ["1", "1", "1"], ["1", "1.0", "true"], ["true", "1", "2"], ["false", "0", "0.0"],
    ["\"a\"", "\"b\"", "\"a\""], ["1", "2", "1"], ["2", "1", "2"], ["none", "none", "1"], ["[1]", "[1]", "[1, 2]"], ["1", "\"a\"", "2"],
    ["0", "false", "true"], ["true", "true", "1"], ["2", "2", "true"], ["9007199254740993", "9007199254740992.0", "9007199254740992"],
];
const CH_BOOL_W: &[[&str; 3]] = &[
    ["0", "1", "2"], ["1", "0", "2"], ["\"\"", "[]", "none"], ["1", "2", "0"], ["none", "0", "\"a\""], ["u", "1", "0"], ["0", "u", "1"],
    ["1", "1", "u"], ["0.0", "\"0\"", "{}"],
];
const CH_GEN_W: &[[&str; 3]] = &[
    ["u", "1", "2"], ["1", "u", "2"], ["none", "1", "2"], ["true", "1", "1.0"], ["1", "2.5", "\"a\""], ["1", "2", "u"], ["2", "2", "2"],
];
const CH_CMPS: [&str; 8] = ["==", "!=", "<", "<=", ">", ">=", "in", "not in"];
/// item, container, container of containers (and strings inside strings)
const CH_IN_W: &[[&str; 3]] = &[
    ["\"a\"", "\"ab\"", "\"abc\""], ["1", "[1]", "[[1]]"], ["\"a\"", "\"a\"", "\"a\""], ["1", "[1, 2]", "[[1, 2], 3]"],
    ["\"b\"", "\"abc\"", "[\"abc\"]"], ["\"a\"", "{\"a\": 1}", "[{\"a\": 1}]"], ["true", "[1]", "[[1]]"], ["2", "[1]", "[[1]]"],
    ["\"\"", "\"\"", "\"x\""], ["[1]", "[[1]]", "true"], ["1", "2", "[true]"], ["\"x\"", "\"abc\"", "[false]"],
];

fn ch_family(op: &str) -> (usize, &'static [[&'static str; 3]]) {
    match op {
        "+" | "-" => (0, CH_ADD_W),
        "*" | "/" | "//" | "%" | "**" => (1, CH_MUL_W),
        "~" => (2, CH_CAT_W),
        "and" | "or" => (4, CH_BOOL_W),
        "in" | "not in" => (5, CH_IN_W),
        _ => (3, CH_CMP_W),
    }
}

/// the chain cases as (backtick source, tag)
fn gen_chains(rng: &mut Rng, thorough: bool) -> Vec<(String, String)> {
    let leaf = |t: &str| if t == "u" { t.to_string() } else if let Some(r) = t.strip_prefix('-') { format!("-`{}`", r) } else { format!("`{}`", t) };
    let mut pairs: Vec<(&'static str, &'static str)> = vec![];
    for a in ARITH {
        for b in ARITH {
            pairs.push((a, b));
        }
    }
    for a in CH_CMPS {
        for b in CH_CMPS {
            pairs.push((a, b));
        }
    }
    for a in ["and", "or"] {
        for b in ["and", "or"] {
            pairs.push((a, b));
        }
    }
    // arithmetic next to a comparison / a boolean operator
    for (a, b) in [("+", "<"), ("+", "=="), ("-", "<="), ("<", "+"), ("==", "+"), (">=", "-"), ("*", "=="), ("==", "*"), ("+", "and"), ("or", "+"), ("<", "and"), ("or", "==")] {
        pairs.push((a, b));
    }
    let mut out = vec![];
    for (o1, o2) in pairs {
        let (f1, w1) = ch_family(o1);
        let (f2, w2) = ch_family(o2);
        let mut triples: Vec<&[&str; 3]> = w1.iter().collect();
        if f1 != f2 {
            triples.extend(w2.iter());
        }
        let all = thorough || f1 == f2;
        for (ai, shape) in ["A o1 B o2 C", "(A o1 B) o2 C", "A o1 (B o2 C)"].iter().enumerate() {
            let mut chosen: Vec<&[&str; 3]> = if all { triples.clone() } else { (0..8).map(|_| *rng.pick(&triples)).collect() };
            for _ in 0..2 {
                chosen.push(rng.pick(CH_GEN_W));
            }
            for t in chosen {
                let s = shape.replace("o1", o1).replace("o2", o2).replace('A', &leaf(t[0])).replace('B', &leaf(t[1])).replace('C', &leaf(t[2]));
                out.push((s, format!("ch:{}_{}:{}:{}", o1.replace(' ', "-"), o2.replace(' ', "-"), ai, f1 * 10 + f2)));
            }
        }
    }
    // four operands under one operator (trailing constants that could be merged, longer comparison chains)
    for op in ARITH.iter().chain(CH_CMPS.iter()).chain(["and", "or"].iter()) {
        let (f, w) = ch_family(op);
        let extra: &[&str] = match f {
            0 => &["2", "-1", "1.0", "-2"],
            1 => &["2", "0", "0.5"],
            2 => &["\"d\"", "4"],
            3 => &["1", "2", "true"],
            5 => &["[[[1]]]", "\"abcd\"", "[true]"],
            _ => &["3", "0"],
        };
        for t in w.iter() {
            let d = *rng.pick(extra);
            let s = format!("{} {} {} {} {} {} {}", leaf(t[0]), op, leaf(t[1]), op, leaf(t[2]), op, leaf(d));
            out.push((s, format!("ch:{}_{}:4:{}", op.replace(' ', "-"), op.replace(' ', "-"), f * 10 + f)));
        }
    }
    out
}

// ------------------------------------------------------------------------------------ operator x context matrix
/// forms over two operand holes `A`, `B` (every one is parenthesised before it goes into a context)
const MX_FORMS: &[&str] = &[
    "A + B", "A - B", "A * B", "A / B", "A // B", "A % B", "A ** B", "A ~ B",
    "A == B", "A != B", "A < B", "A <= B", "A > B", "A >= B", "A in B", "A not in B",
    "A and B", "A or B",
    "A is eq(B)", "A is ne(B)", "A is lt(B)", "A is le(B)", "A is gt(B)", "A is ge(B)", "A is in(B)", "A is divisibleby(B)",
    "A is not eq(B)", "A is not lt(B)", "A is not ge(B)", "A is not in(B)",
    "A < B < A", "A <= B <= A", "A == B == A", "A >= B > A", "A != B != A", "A <= B >= A", "A in B in B",
    "A|default(B)", "A[B]", "A if B", "A if B else B", "(A, B)", "[A, B]", "{A: B}", "kw(A, ka=B)",
    "-A", "not A", "A", "A is defined", "A is none", "A|length", "A|string",
];

/// expression contexts around a form (`#` = the parenthesised form; literals of the context are leaves too)
const MX_CTXS: &[&str] = &[
    "#", "not #", "not not #", "-#", "- -#", "not -#", "not not not #",
    "# is true", "# is false", "# is not none", "# is defined", "# is not eq(`true`)", "# is not true",
    "`\"T\"` if # else `\"F\"`", "`\"T\"` if not # else `\"F\"`", "`\"T\"` if #", "`\"T\"` if not #", "# if `true` else `0`",
    "# and `\"x\"`", "# or `\"y\"`", "`true` and #", "`false` or #", "not # and `true`", "not (# or `false`)", "not # or not #",
    "# and not #", "`true` and not #", "not (not # and not #)",
    "# == `true`", "# != `false`", "`true` == #", "# in [`true`, `1`]", "not # == `false`", "not (# != `true`)", "# == #",
    "#|string", "#|default(`\"d\"`)", "#|default(`\"d\"`, `true`)", "(not #)|string",
    "[#, not #]", "{`\"k\"`: not #}", "kw(#, ka=not #)", "kw(ka=#)", "(not #,)",
    "# ~ `\"\"`", "# + `0`", "# * `1`", "`0` + #", "not # ~ `\"\"`",
    // positions that are never executed: a failing constant there must not be reported
    "`true` or #", "`false` and #", "`\"ok\"` if `true` else #", "# if `false` else `\"ok\"`",
];

/// statement contexts
const MX_STMT_CTXS: &[&str] = &[
    "{% if # %}T{% else %}F{% endif %}",
    "{% if not # %}T{% else %}F{% endif %}",
    "{% if # %}T{% elif not # %}E{% else %}F{% endif %}",
    "{% set x = not # %}[{{ x }}]",
    "{% set x = # %}{{ not x }}|{{ x }}",
    "{% for i in [`1`, `2`] if not # %}{{ i }}{% else %}E{% endfor %}",
    "{% for i in [`1`, `2`] if # %}{{ i }}{% else %}E{% endfor %}",
    "{{ # }}|{{ not # }}",
    "{% with x = not # %}{{ x }}{% endwith %}",
    "{% macro m(a=not #) %}{{ a }}{% endmacro %}{{ m() }}",
    // never executed
    "{% if `false` %}{{ # }}{% endif %}ok",
    "{% if `true` %}ok{% else %}{{ # }}{% endif %}",
    "{% for i in [] %}{{ # }}{% endfor %}ok",
    "{% macro m() %}{{ # }}{% endmacro %}ok",
];

/// (lo, hi) with lo < hi inside one kind family or across number kinds
const MX_ORDERED: &[(&str, &str)] = &[
    ("1", "2"), ("1.5", "2.5"), ("1", "2.5"), ("1.0", "2"), ("0", "1"), ("\"a\"", "\"b\""), ("\"\"", "\"a\""), ("false", "true"),
    ("[1]", "[1, 2]"), ("[]", "[1]"), ("false", "1"), ("0", "true"), ("2", "3"), ("0.0", "0.5"), ("(1,)", "(2,)"), ("\"<\"", "\">\""),
];
/// equal operands: the same spelling, or equal across kinds
const MX_EQUAL: &[(&str, &str)] = &[
    ("1", "1"), ("2", "2"), ("0", "0"), ("2.5", "2.5"), ("\"a\"", "\"a\""), ("\"\"", "\"\""), ("true", "true"), ("false", "false"),
    ("none", "none"), ("[1]", "[1]"), ("[]", "[]"), ("1", "1.0"), ("1.0", "1"), ("true", "1"), ("1", "true"), ("0", "false"),
    ("0.0", "0"), ("3", "3"), ("\"b\"", "'b'"), ("(1,)", "(1,)"), ("{}", "{}"), ("{\"a\": 1}", "{\"a\": 1}"), ("2", "2.0"), ("\"<\"", "\"<\""),
];
/// neither: mixed kinds, containers with members, identities, zero divisors, undefined
const MX_SPECIAL: &[(&str, &str)] = &[
    ("1", "\"a\""), ("\"a\"", "1"), ("none", "1"), ("0", "\"\""), ("\"\"", "0"), ("[]", "false"), ("u", "1"), ("1", "u"), ("u", "u"),
    ("{}", "{\"a\": 1}"), ("\"a\"", "\"abc\""), ("1", "[1, 2]"), ("true", "[1]"), ("[1]", "[[1]]"), ("\"a\"", "{\"a\": 1}"), ("3", "[1, 2]"),
    ("2", "0"), ("0", "0.0"), ("3", "2"), ("\"a\"", "0"), ("1", "none"), ("none", "false"), ("2.5", "0"), ("[1, 2]", "1"),
    ("[1, 2]", "0"), ("{\"a\": 1}", "\"a\""), ("\"abc\"", "1"), ("true", "\"\""), ("\"x\"", "[]"), ("1", "1.5"), ("-1", "1"), ("0", "-0.0"),
    ("\"1\"", "1"), ("\"a\"", "\"A\""), ("[1]", "(1,)"), ("4", "2"), ("7", "2"), ("u", "none"), ("none", "u"), ("\"\"", "u"),
    ("\"<i>\"", "\"&\""), ("\"<i>\"", "1"), ("\"&\"", "\"&amp;\""),
];

/// operands of relation class `rel` (0 equal, 1 less, 2 greater, 3 special)
fn mx_pair(rng: &mut Rng, rel: usize, _form: &str) -> (&'static str, &'static str, &'static str) {
    match rel {
        0 => {
            let p = rng.pick(MX_EQUAL);
            (p.0, p.1, "eq")
        }
        1 => {
            let p = rng.pick(MX_ORDERED);
            (p.0, p.1, "lt")
        }
        2 => {
            let p = rng.pick(MX_ORDERED);
            (p.1, p.0, "gt")
        }
        _ => {
            let p = rng.pick(MX_SPECIAL);
            (p.0, p.1, "special")
        }
    }
}

/// `ctx` with every `#` replaced by `(form[A, B])`; operands that are literals become leaves (backticks)
fn mx_source(ctx: &str, form: &str, a: &str, b: &str) -> String {
    let leaf = |t: &str| if t == "u" { t.to_string() } else if let Some(r) = t.strip_prefix('-') { format!("-`{}`", r) } else { format!("`{}`", t) };
    let mut f = String::from("(");
    for ch in form.chars() {
        match ch {
            'A' => f.push_str(&leaf(a)),
            'B' => f.push_str(&leaf(b)),
            c => f.push(c),
        }
    }
    f.push(')');
    ctx.replace('#', &f)
}

const MODES: [&str; 4] = ["lenient", "strict", "chainable", "semistrict"];

/// Cases are generated sequentially (one generator stream, so the case list is a function of the seed) and
/// RUN in parallel: a case is self-contained (its own environment, its own mask stream derived from its
/// source), so the output - written in generation order - does not depend on the number of threads.
struct Sink {
    batch: Vec<Case>,
    threads: usize,
}

impl Sink {
    fn new() -> Sink {
        let threads = std::env::var("C04_THREADS")
            .ok()
            .and_then(|s| s.parse().ok())
            .unwrap_or_else(|| std::thread::available_parallelism().map(|n| n.get()).unwrap_or(4))
            .clamp(1, 16);
        Sink { batch: vec![], threads }
    }

    fn push(&mut self, c: Case, out: &mut impl Write) {
        self.batch.push(c);
        if self.batch.len() >= 4096 {
            self.flush(out);
        }
    }

    fn flush(&mut self, out: &mut impl Write) {
        let cases = std::mem::take(&mut self.batch);
        let next = std::sync::atomic::AtomicUsize::new(0);
        let mut results: Vec<Option<String>> = (0..cases.len()).map(|_| None).collect();
        let parts: Vec<Vec<(usize, String)>> = std::thread::scope(|s| {
            let handles: Vec<_> = (0..self.threads)
                .map(|_| {
                    std::thread::Builder::new()
                        .stack_size(64 << 20)
                        .spawn_scoped(s, || {
                            let mut mine = vec![];
                            let mut dummy = Rng::new(0);
                            loop {
                                let i = next.fetch_add(1, std::sync::atomic::Ordering::Relaxed);
                                if i >= cases.len() {
                                    break;
                                }
                                mine.push((i, run_case(&cases[i], &mut dummy)));
                            }
                            mine
                        })
                        .unwrap()
                })
                .collect();
            handles.into_iter().map(|h| h.join().unwrap()).collect()
        });
        for part in parts {
            for (i, line) in part {
                results[i] = Some(line);
            }
        }
        for line in results {
            writeln!(out, "{}", line.unwrap()).unwrap();
        }
    }
}

fn main() {
    quiet_panics();
    let args: Vec<String> = std::env::args().collect();
    let out = std::io::stdout();
    let mut out = std::io::BufWriter::new(out.lock());
    // consecutive seeds of `Rng::new` are the same stream shifted by one draw: spread them first
    let mut rng = Rng::new(fnv(&format!("c04-seed-{}", seed_from_env())));
    match args.get(1).map(|s| s.as_str()) {
        Some("gen") => {
            let mut sink = Sink::new();
            let tier = args.get(2).map(|s| s.as_str()).unwrap_or("quick");
            let n = if tier == "thorough" { 300000 } else { 12000 };
            // `gen <tier> small`: a quarter of the cases (used for the `preserve_order` build)
            let n = if args.get(3).map_or(false, |s| s == "small") { n / 4 } else { n };
            for (i, s) in SEEDS.iter().enumerate() {
                if po_unstable(s, false) {
                    continue;
                }
                let uses_u = s.contains('u') && s.split(|c: char| !c.is_alphanumeric()).any(|w| w == "u");
                if uses_u {
                    for m in MODES {
                        sink.push(seed_case(m, s), &mut out);
                    }
                } else {
                    sink.push(seed_case(MODES[i % 4], s), &mut out);
                }
            }
            for i in 0..n {
                // depth 1..5, every 16th case deeper (6..8)
                let depth = if i % 16 == 15 { 6 + (i / 16 % 3) as u32 } else { 1 + (i % 5) as u32 };
                let g = gen(&mut rng, depth);
                let mut src = String::new();
                let mut spans = vec![];
                emit(&g, &mut src, &mut spans);
                if spans.len() > 48 || src.len() > 900 || po_unstable(&src, false) {
                    continue;
                }
                let mode = *rng.pick(&MODES);
                sink.push(Case { mode: mode.into(), src, spans, tmpl: false, tag: "-".into() }, &mut out);
            }
            // the size-class stream: every operator form x every container size, items and probes from the
            // cross-kind equality classes; containers hoisted item by item and as a whole
            let small = args.get(3).map_or(false, |s| s == "small");
            let rounds = if tier == "thorough" { 30 } else { 3 };
            let mut combo = 0usize;
            for round in 0..rounds {
                for (tmpl, forms) in [(false, SIZED_EXPR_FORMS), (true, SIZED_STMT_FORMS)] {
                    for (fi, form) in forms.iter().enumerate() {
                        for n in SIZES {
                            combo += 1;
                            if small && (combo + combo / 12 + round) % 4 != 0 {
                                continue;
                            }
                            let z = gen_sized(&mut rng, n);
                            let mut src = String::new();
                            let mut spans = vec![];
                            emit_form(&mut rng, form, &z, &mut src, &mut spans);
                            if spans.len() > 120 || po_unstable(&src, tmpl) {
                                continue;
                            }
                            let mode = *rng.pick(&MODES);
                            let tag = format!("sized:{}{}:{}:{}", if tmpl { "s" } else { "e" }, fi, n, CLASSES[z.class].0);
                            sink.push(Case { mode: mode.into(), src, spans, tmpl, tag }, &mut out);
                        }
                    }
                }
            }
            // the operator x context matrix: every binary/unary form under every unary, boolean, test, conditional,
            // call and statement context, at operand values that are equal / ordered both ways / special
            let mx_rounds = if tier == "thorough" { 4 } else { 1 };
            let mut mx_combo = 0usize;
            for round in 0..mx_rounds {
                for (tmpl, ctxs) in [(false, MX_CTXS), (true, MX_STMT_CTXS)] {
                    for (ci, ctx) in ctxs.iter().enumerate() {
                        for (fi, form) in MX_FORMS.iter().enumerate() {
                            for rel in 0..4usize {
                                mx_combo += 1;
                                let (a, b, relname) = mx_pair(&mut rng, rel, form);
                                // a quarter of the cases, the operand relation rotating with the (context, form) pair
                                if small && (mx_combo / 4 + rel + round) % 4 != 0 {
                                    continue;
                                }
                                let s = mx_source(ctx, form, a, b);
                                let mut c = seed_case(*rng.pick(&MODES), &s);
                                if po_unstable(&c.src, tmpl) {
                                    continue;
                                }
                                c.tmpl = tmpl;
                                c.tag = format!("mx:{}{}:{}:{}", if tmpl { "s" } else { "e" }, ci, fi, relname);
                                sink.push(c, &mut out);
                            }
                        }
                    }
                }
            }
            // operator chains of three and four operands
            for (ci, (src, tag)) in gen_chains(&mut rng, tier == "thorough").into_iter().enumerate() {
                if small && ci % 4 != 0 {
                    continue;
                }
                let mut c = seed_case(*rng.pick(&MODES), &src);
                if po_unstable(&c.src, false) {
                    continue;
                }
                c.tag = tag;
                sink.push(c, &mut out);
            }
            for (i, s) in EMIT_SEEDS.iter().enumerate() {
                for cfg in 0..4 {
                    let mut c = seed_case(MODES[(i + cfg) % 4], s);
                    c.tmpl = true;
                    c.tag = format!("cfg{}", cfg);
                    sink.push(c, &mut out);
                }
            }
            // the statement stream: literals in statement heads, defaults, include targets, …
            for (i, s) in STMT_SEEDS.iter().enumerate() {
                if po_unstable(s, true) {
                    continue;
                }
                let uses_u = s.contains(" u ") || s.contains("u|") || s.contains("if u");
                for (j, m) in MODES.iter().enumerate() {
                    if uses_u || j == i % 4 {
                        let mut c = seed_case(m, s);
                        c.tmpl = true;
                        sink.push(c, &mut out);
                    }
                }
            }
            for i in 0..n / 2 {
                let (src, spans) = if i % 3 == 0 { gen_stmt(&mut rng) } else { gen_effect_stmt(&mut rng) };
                if spans.len() > 40 || src.len() > 900 || po_unstable(&src, true) {
                    continue;
                }
                let mode = *rng.pick(&MODES);
                sink.push(Case { mode: mode.into(), src, spans, tmpl: true, tag: "-".into() }, &mut out);
            }
            sink.flush(&mut out);
        }
        Some("one") => {
            let mode = args[2].clone();
            let src = String::from_utf8(unhex(&args[3])).unwrap();
            let spans = if args[4] == "-" {
                vec![]
            } else {
                args[4]
                    .split(',')
                    .map(|p| {
                        let (a, b) = p.split_once('-').unwrap();
                        (a.parse().unwrap(), b.parse().unwrap())
                    })
                    .collect()
            };
            let tmpl = args.get(5).map_or(false, |t| t == "t");
            let tag = args.get(6).cloned().unwrap_or_else(|| "-".to_string());
            let c = Case { mode, src, spans, tmpl, tag };
            eprintln!("source: {}", c.src);
            writeln!(out, "{}", run_case(&c, &mut rng)).unwrap();
        }
        _ => {
            eprintln!("usage: c04 gen <quick|thorough> | c04 one <mode> <hexsrc> <spans>");
            std::process::exit(2);
        }
    }
}
