//! Canonical text of a `minijinja::Value`, value descriptions (`VD`) from which values are built,
//! and the JSON image of a description (independent of the engine's serialiser).
use super::shape::Toks;
use minijinja::value::{Enumerator, Object, ObjectRepr, Tuple, Value, ValueKind};
use std::fmt;
use std::sync::Arc;

#[derive(Debug)]
pub struct PlainObj(pub String);
impl Object for PlainObj {
    fn repr(self: &Arc<Self>) -> ObjectRepr {
        ObjectRepr::Plain
    }
    fn render(self: &Arc<Self>, f: &mut fmt::Formatter<'_>) -> fmt::Result {
        f.write_str(&self.0)
    }
}

/// a dynamic map-like object (identity matters)
#[derive(Debug)]
pub struct DynMapObj(pub u32);
impl Object for DynMapObj {
    fn get_value(self: &Arc<Self>, key: &Value) -> Option<Value> {
        (key.as_str() == Some("id")).then(|| Value::from(self.0))
    }
    fn enumerate(self: &Arc<Self>) -> Enumerator {
        Enumerator::Str(&["id"])
    }
}

pub fn canon_value(v: &Value) -> String {
    let mut out = vec![];
    canon_into(v, &mut out);
    out.join(" ")
}

fn canon_into(v: &Value, out: &mut Vec<String>) {
    match v.kind() {
        ValueKind::Undefined => out.push("undef".into()),
        ValueKind::None => out.push("none".into()),
        ValueKind::Bool => out.push(if v.is_true() { "T" } else { "F" }.into()),
        ValueKind::Number => {
            if v.is_integer() {
                if let Ok(i) = i128::try_from(v.clone()) {
                    out.push(format!("i{i}"))
                } else if let Ok(u) = u128::try_from(v.clone()) {
                    out.push(format!("i{u}"))
                } else {
                    out.push("i?".into())
                }
            } else {
                match f64::try_from(v.clone()) {
                    Ok(f) => out.push(format!("d{}", f.to_bits())),
                    Err(_) => out.push("d?".into()),
                }
            }
        }
        ValueKind::String => {
            let s = v.as_str().unwrap_or("");
            out.push(format!("{}{}", if v.is_safe() { "S" } else { "s" }, mjh::hex(s.as_bytes())))
        }
        ValueKind::Bytes => out.push(format!("y{}", mjh::hex(v.as_bytes().unwrap_or(&[])))),
        ValueKind::Seq | ValueKind::Iterable => {
            let items: Vec<Value> = v.try_iter().map(|it| it.collect()).unwrap_or_default();
            out.push(if v.is_tuple() { "P" } else { "L" }.into());
            out.push(items.len().to_string());
            for x in &items {
                canon_into(x, out);
            }
        }
        ValueKind::Map => {
            // the entries as the object enumerates them (a NaN key cannot be looked up again in a hashed map)
            let pairs: Vec<(Value, Value)> = match v.as_object().and_then(|o| o.try_iter_pairs()) {
                Some(it) => it.collect(),
                None => {
                    let keys: Vec<Value> = v.try_iter().map(|it| it.collect()).unwrap_or_default();
                    keys.into_iter().map(|k| { let x = v.get_item(&k).unwrap_or_default(); (k, x) }).collect()
                }
            };
            let mut ents: Vec<(String, String)> = pairs.iter().map(|(k, x)| (canon_value(k), canon_value(x))).collect();
            ents.sort();
            out.push("M".into());
            out.push(ents.len().to_string());
            for (k, x) in ents {
                out.push(k);
                out.push(x);
            }
        }
        ValueKind::Plain => out.push(format!("O{}", mjh::hex(v.to_string().as_bytes()))),
        ValueKind::Invalid => out.push("X".into()),
        _ => out.push("?".into()),
    }
}

/// description of a template value
#[derive(Clone, Debug, PartialEq)]
pub enum VD {
    Undef,
    None,
    /// an invalid value (carries an error)
    Invalid,
    Bool(bool),
    /// integer; `true` = build through the unsigned representation where it fits
    Int(i128, bool),
    BigU(u128),
    F64(u64),
    Str(String, bool),
    Bytes(Vec<u8>),
    Seq(Vec<VD>),
    Tup(Vec<VD>),
    Map(Vec<(VD, VD)>),
    Plain(String),
    /// a lazily produced sequence (`lazy::LAZY_SEQ_KINDS`)
    Lazy(&'static str, Vec<VD>),
    /// a custom map object (`lazy::LAZY_MAP_KINDS`): members in enumeration order
    LazyMap(&'static str, Vec<(VD, VD)>),
}

impl VD {
    pub fn build(&self) -> Value {
        match self {
            VD::Undef => Value::UNDEFINED,
            VD::None => Value::from(()),
            VD::Invalid => Value::from(minijinja::Error::new(minijinja::ErrorKind::InvalidOperation, "boom")),
            VD::Bool(b) => Value::from(*b),
            VD::Int(i, unsigned) => {
                if *unsigned && *i >= 0 && *i <= u64::MAX as i128 {
                    Value::from(*i as u64)
                } else if *i >= i64::MIN as i128 && *i <= i64::MAX as i128 {
                    Value::from(*i as i64)
                } else if *i >= 0 && *i <= u64::MAX as i128 {
                    Value::from(*i as u64)
                } else {
                    Value::from(*i)
                }
            }
            VD::BigU(u) => Value::from(*u),
            VD::F64(b) => Value::from(f64::from_bits(*b)),
            VD::Str(s, true) => Value::from_safe_string(s.clone()),
            VD::Str(s, false) => {
                // alternate between the Arc<str> and the (possibly small-string) constructors
                if s.len() % 2 == 0 {
                    Value::from(s.as_str())
                } else {
                    Value::from(Arc::<str>::from(s.as_str()))
                }
            }
            VD::Bytes(b) => Value::from_bytes(b.clone()),
            VD::Seq(xs) => Value::from(xs.iter().map(|x| x.build()).collect::<Vec<_>>()),
            VD::Tup(xs) => Value::from(Tuple::from(xs.iter().map(|x| x.build()).collect::<Vec<_>>())),
            VD::Map(kvs) => Value::from_pairs(kvs.iter().map(|(k, v)| (k.build(), v.build()))),
            VD::Plain(s) => Value::from_object(PlainObj(s.clone())),
            VD::Lazy(kind, xs) => super::lazy::build_lazy_seq(kind, xs.iter().map(|x| x.build()).collect()),
            VD::LazyMap(kind, kvs) => super::lazy::build_lazy_map(kind, kvs.iter().map(|(k, v)| (k.build(), v.build())).collect()),
        }
    }

    /// the items iteration yields (the `Empty` / `NonEnumerable` answers yield nothing)
    pub fn lazy_items<'a>(kind: &str, xs: &'a [VD]) -> &'a [VD] {
        if kind == "ce" || kind == "cn" {
            &[]
        } else {
            xs
        }
    }

    pub fn text(&self, out: &mut Vec<String>) {
        match self {
            VD::Undef => out.push("undef".into()),
            VD::None => out.push("none".into()),
            VD::Invalid => out.push("X".into()),
            VD::Bool(b) => out.push(if *b { "T" } else { "F" }.into()),
            VD::Int(i, u) => out.push(format!("{}{}", if *u { "u" } else { "i" }, i)),
            VD::BigU(u) => out.push(format!("i{u}")),
            VD::F64(b) => out.push(format!("d{b}")),
            VD::Str(s, safe) => out.push(format!("{}{}", if *safe { "S" } else { "s" }, mjh::hex(s.as_bytes()))),
            VD::Bytes(b) => out.push(format!("y{}", mjh::hex(b))),
            VD::Seq(xs) | VD::Tup(xs) => {
                out.push(if matches!(self, VD::Seq(_)) { "L" } else { "P" }.into());
                out.push(xs.len().to_string());
                xs.iter().for_each(|x| x.text(out));
            }
            VD::Map(kvs) => {
                out.push("M".into());
                out.push(kvs.len().to_string());
                for (k, v) in kvs {
                    k.text(out);
                    v.text(out);
                }
            }
            VD::Plain(s) => out.push(format!("O{}", mjh::hex(s.as_bytes()))),
            VD::Lazy(kind, xs) => {
                out.push(format!("Z{kind}"));
                out.push(xs.len().to_string());
                xs.iter().for_each(|x| x.text(out));
            }
            VD::LazyMap(kind, kvs) => {
                out.push(format!("W{kind}"));
                out.push(kvs.len().to_string());
                for (k, v) in kvs {
                    k.text(out);
                    v.text(out);
                }
            }
        }
    }
    pub fn to_text(&self) -> String {
        let mut v = vec![];
        self.text(&mut v);
        v.join(" ")
    }
}

pub fn parse_vd(t: &mut Toks) -> Result<VD, String> {
    let tok = t.next()?;
    if tok == "undef" {
        return Ok(VD::Undef);
    }
    if tok == "none" {
        return Ok(VD::None);
    }
    if tok == "X" {
        return Ok(VD::Invalid);
    }
    let (h, rest) = tok.split_at(1);
    let utf8 = |r: &str| String::from_utf8(mjh::unhex(r)).map_err(|_| "bad utf8".to_string());
    Ok(match h {
        "T" => VD::Bool(true),
        "F" => VD::Bool(false),
        "i" | "u" => match rest.parse::<i128>() {
            Ok(i) => VD::Int(i, h == "u"),
            Err(_) => VD::BigU(rest.parse().map_err(|_| "bad int")?),
        },
        "d" => VD::F64(rest.parse().map_err(|_| "bad f64")?),
        "s" => VD::Str(utf8(rest)?, false),
        "S" => VD::Str(utf8(rest)?, true),
        "y" => VD::Bytes(mjh::unhex(rest)),
        "O" => VD::Plain(utf8(rest)?),
        "Z" => {
            let kind = *super::lazy::LAZY_SEQ_KINDS.iter().find(|k| **k == rest).ok_or("bad lazy kind")?;
            let n = t.num()?;
            VD::Lazy(kind, (0..n).map(|_| parse_vd(t)).collect::<Result<Vec<_>, _>>()?)
        }
        "W" => {
            let kind = *super::lazy::LAZY_MAP_KINDS.iter().find(|k| **k == rest).ok_or("bad lazy map kind")?;
            let n = t.num()?;
            let mut v = vec![];
            for _ in 0..n {
                let k = parse_vd(t)?;
                let x = parse_vd(t)?;
                v.push((k, x));
            }
            VD::LazyMap(kind, v)
        }
        "L" | "P" => {
            let n = t.num()?;
            let xs = (0..n).map(|_| parse_vd(t)).collect::<Result<Vec<_>, _>>()?;
            if h == "L" {
                VD::Seq(xs)
            } else {
                VD::Tup(xs)
            }
        }
        "M" => {
            let n = t.num()?;
            let mut v = vec![];
            for _ in 0..n {
                let k = parse_vd(t)?;
                let x = parse_vd(t)?;
                v.push((k, x));
            }
            VD::Map(v)
        }
        x => return Err(format!("bad value token {x}")),
    })
}

/// The JSON image of a described value, as `serde_json::Value` built by hand (not through the
/// engine's `Serialize`): keys by string form, non-finite floats null, undefined null, bytes as
/// numbers.  `None` when the image needs something `serde_json::Value` cannot hold exactly
/// (integers beyond 64 bits) or the map key has no JSON string form (then the engine must refuse).
pub fn json_image(v: &VD) -> Result<serde_json::Value, &'static str> {
    use serde_json::Value as J;
    Ok(match v {
        VD::Undef | VD::None | VD::Invalid => J::Null,
        VD::Bool(b) => J::Bool(*b),
        VD::Int(i, _) => {
            if let Ok(x) = i64::try_from(*i) {
                J::from(x)
            } else if let Ok(x) = u64::try_from(*i) {
                J::from(x)
            } else {
                return Err("bigint");
            }
        }
        VD::BigU(_) => return Err("bigint"),
        VD::F64(b) => {
            let f = f64::from_bits(*b);
            if f.is_finite() {
                J::from(f)
            } else {
                J::Null
            }
        }
        VD::Str(s, _) | VD::Plain(s) => J::String(s.clone()),
        VD::Bytes(b) => J::Array(b.iter().map(|x| J::from(*x)).collect()),
        VD::Seq(xs) | VD::Tup(xs) => J::Array(xs.iter().map(json_image).collect::<Result<_, _>>()?),
        VD::Lazy(kind, xs) => J::Array(VD::lazy_items(kind, xs).iter().map(json_image).collect::<Result<_, _>>()?),
        VD::LazyMap(kind, kvs) if *kind == "wn" => {
            let _ = kvs;
            J::Object(serde_json::Map::new())
        }
        VD::Map(kvs) | VD::LazyMap(_, kvs) => {
            let mut m = serde_json::Map::new();
            for (k, x) in kvs {
                let ks = match k {
                    VD::Str(s, _) => s.clone(),
                    VD::Bool(b) => b.to_string(),
                    VD::Int(i, _) => i.to_string(),
                    VD::BigU(u) => u.to_string(),
                    VD::F64(_) => return Err("floatkey"),
                    _ => return Err("badkey"),
                };
                m.insert(ks, json_image(x)?);
            }
            J::Object(m)
        }
    })
}

/// structural equality with floats compared up to one part in 2^50 (serde_json's default number
/// parser is not correctly rounded; exactness is checked by the Python side)
pub fn json_close(a: &serde_json::Value, b: &serde_json::Value) -> bool {
    use serde_json::Value as J;
    match (a, b) {
        (J::Number(x), J::Number(y)) => {
            if x == y {
                return true;
            }
            if x.is_f64() != y.is_f64() {
                return false;
            }
            match (x.as_f64(), y.as_f64()) {
                (Some(p), Some(q)) => p == q || ((p - q).abs() <= p.abs().max(q.abs()) * 1e-15),
                _ => false,
            }
        }
        (J::Array(x), J::Array(y)) => x.len() == y.len() && x.iter().zip(y).all(|(p, q)| json_close(p, q)),
        (J::Object(x), J::Object(y)) => {
            x.len() == y.len() && x.iter().all(|(k, p)| y.get(k).map_or(false, |q| json_close(p, q)))
        }
        _ => a == b,
    }
}
