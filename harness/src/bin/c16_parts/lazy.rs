//! Lazily produced sequences / maps (objects whose length is not known up-front, one-shot
//! iterators, custom `Object`s with every `Enumerator` answer), a strict shape-recording serde
//! `Serializer` that checks the serde length contract, and the *eager image* of a value (what
//! iterating it through the public API yields), independent of `impl Serialize for Value`.
use super::shape::intern_list;
use minijinja::value::{Enumerator, Object, ObjectRepr, Value, ValueKind};
use serde::ser::{self, Serialize, Serializer};
use std::fmt;
use std::sync::Arc;

pub const LAZY_SEQ_KINDS: [&str; 20] = [
    "os", "ie", "if", "ic", "iu", "oi", "cq", "cl", "cv", "ce", "cn", "ci", "cx", "cr", "cs", "ch", "cw", "l0", "l1", "l2",
];

/// an iterator that lies about its length (`size_hint` = `(claim, Some(claim))`)
pub struct Liar {
    inner: std::vec::IntoIter<Value>,
    claim: usize,
}
impl Iterator for Liar {
    type Item = Value;
    fn next(&mut self) -> Option<Value> {
        self.inner.next()
    }
    fn size_hint(&self) -> (usize, Option<usize>) {
        (self.claim, Some(self.claim))
    }
}
pub const LAZY_MAP_KINDS: [&str; 7] = ["wi", "wx", "wk", "wu", "wr", "wv", "wn"];

/// a custom sequence-like object answering `enumerate()` in the way `kind` says
#[derive(Debug)]
pub struct CustomSeq {
    pub kind: &'static str,
    pub items: Vec<Value>,
    pub names: &'static [&'static str],
}

impl Object for CustomSeq {
    fn repr(self: &Arc<Self>) -> ObjectRepr {
        match self.kind {
            "cn" | "cx" | "cl" => ObjectRepr::Iterable,
            _ => ObjectRepr::Seq,
        }
    }
    fn get_value(self: &Arc<Self>, key: &Value) -> Option<Value> {
        self.items.get(key.as_usize()?).cloned()
    }
    fn enumerate(self: &Arc<Self>) -> Enumerator {
        let items = self.items.clone();
        match self.kind {
            "cq" | "cl" => Enumerator::Seq(items.len()),
            "cv" => Enumerator::Values(items),
            "ce" => Enumerator::Empty,
            "cn" => Enumerator::NonEnumerable,
            "ci" => Enumerator::Iter(Box::new(items.into_iter().filter(|_| true))),
            "cx" => Enumerator::Iter(Box::new(items.into_iter())),
            "cr" => Enumerator::RevIter(Box::new(items.into_iter())),
            "cs" => Enumerator::Str(self.names),
            "l0" => Enumerator::Iter(Box::new(Liar { claim: 0, inner: items.into_iter() })),
            "l1" => Enumerator::Iter(Box::new(Liar { claim: items.len() + 1, inner: items.into_iter() })),
            "l2" => Enumerator::Iter(Box::new(Liar { claim: items.len().saturating_sub(1), inner: items.into_iter() })),
            // lower bound = length, no upper bound
            "ch" => Enumerator::Iter(Box::new(items.into_iter().chain(std::iter::from_fn(|| None)))),
            // lower bound 1 (or 0), upper bound = length
            "cw" => {
                let mut it = items.into_iter();
                let first: Vec<Value> = it.by_ref().take(1).collect();
                Enumerator::Iter(Box::new(first.into_iter().chain(it.filter(|_| true))))
            }
            _ => Enumerator::NonEnumerable,
        }
    }
}

#[derive(Debug)]
pub struct CustomMap {
    pub kind: &'static str,
    pub entries: Vec<(Value, Value)>,
}

impl Object for CustomMap {
    fn get_value(self: &Arc<Self>, key: &Value) -> Option<Value> {
        self.entries.iter().find(|(k, _)| k == key).map(|(_, v)| v.clone())
    }
    fn enumerate(self: &Arc<Self>) -> Enumerator {
        let keys: Vec<Value> = self.entries.iter().map(|(k, _)| k.clone()).collect();
        let pairs = self.entries.clone();
        match self.kind {
            "wi" => Enumerator::Iter(Box::new(keys.into_iter().filter(|_| true))),
            "wx" => Enumerator::Iter(Box::new(keys.into_iter())),
            "wk" => Enumerator::KeyValueIter(Box::new(pairs.into_iter())),
            "wu" => Enumerator::KeyValueIter(Box::new(pairs.into_iter().filter(|_| true))),
            "wr" => Enumerator::RevKeyValueIter(Box::new(pairs.into_iter())),
            "wv" => Enumerator::Values(keys),
            _ => Enumerator::NonEnumerable,
        }
    }
}

pub fn build_lazy_seq(kind: &'static str, items: Vec<Value>) -> Value {
    match kind {
        "os" => Value::make_one_shot_iterator(items.into_iter()),
        "ie" => Value::make_iterable(move || items.clone().into_iter()),
        "if" => Value::make_iterable(move || items.clone().into_iter().filter(|_| true)),
        "ic" => Value::make_iterable(move || {
            let mut a = items.clone();
            let b = a.split_off(a.len() / 2);
            a.into_iter().chain(b)
        }),
        "iu" => Value::make_iterable(move || {
            let mut it = items.clone().into_iter();
            std::iter::from_fn(move || it.next())
        }),
        "oi" => Value::make_object_iterable(items, |v| Box::new(v.iter().cloned())),
        "cs" => {
            let names: Vec<&'static str> = items.iter().map(|v| super::shape::intern(v.as_str().unwrap_or("?"))).collect();
            Value::from_object(CustomSeq { kind, items, names: intern_list(&names) })
        }
        _ => Value::from_object(CustomSeq { kind, items, names: &[] }),
    }
}

pub fn build_lazy_map(kind: &'static str, entries: Vec<(Value, Value)>) -> Value {
    Value::from_object(CustomMap { kind, entries })
}

// ------------------------------------------------------------------------------------ recording serializer
/// what a serializer was asked to do
#[derive(Debug, Clone, PartialEq)]
pub enum Rec {
    Unit,
    Bool(bool),
    Int(i128),
    BigU(u128),
    F64(u64),
    Str(String),
    Bytes(Vec<u8>),
    Seq(Option<usize>, Vec<Rec>),
    Map(Option<usize>, Vec<(Rec, Rec)>),
    Other(&'static str),
}

impl Rec {
    pub fn text(&self, out: &mut Vec<String>) {
        let ann = |a: &Option<usize>| a.map(|n| n.to_string()).unwrap_or_else(|| "_".into());
        match self {
            Rec::Unit => out.push("none".into()),
            Rec::Bool(b) => out.push(if *b { "T" } else { "F" }.into()),
            Rec::Int(i) => out.push(format!("i{i}")),
            Rec::BigU(u) => out.push(format!("i{u}")),
            Rec::F64(b) => out.push(format!("d{b}")),
            Rec::Str(s) => out.push(format!("s{}", mjh::hex(s.as_bytes()))),
            Rec::Bytes(b) => out.push(format!("y{}", mjh::hex(b))),
            Rec::Seq(a, xs) => {
                out.push("Q".into());
                out.push(ann(a));
                out.push(xs.len().to_string());
                xs.iter().for_each(|x| x.text(out));
            }
            Rec::Map(a, kvs) => {
                out.push("D".into());
                out.push(ann(a));
                out.push(kvs.len().to_string());
                for (k, v) in kvs {
                    k.text(out);
                    v.text(out);
                }
            }
            Rec::Other(s) => out.push(format!("?{s}")),
        }
    }
    pub fn to_text(&self) -> String {
        let mut v = vec![];
        self.text(&mut v);
        v.join(" ")
    }
    /// the serde contract: an announced length is the number of elements / entries that follow
    pub fn contract(&self) -> Result<(), String> {
        match self {
            Rec::Seq(a, xs) => {
                if let Some(n) = a {
                    if *n != xs.len() {
                        return Err(format!("serialize_seq(Some({n})) followed by {} elements", xs.len()));
                    }
                }
                xs.iter().try_for_each(|x| x.contract())
            }
            Rec::Map(a, kvs) => {
                if let Some(n) = a {
                    if *n != kvs.len() {
                        return Err(format!("serialize_map(Some({n})) followed by {} entries", kvs.len()));
                    }
                }
                kvs.iter().try_for_each(|(k, v)| k.contract().and_then(|_| v.contract()))
            }
            _ => Ok(()),
        }
    }
}

#[derive(Debug)]
pub struct RecError(String);
impl fmt::Display for RecError {
    fn fmt(&self, f: &mut fmt::Formatter<'_>) -> fmt::Result {
        f.write_str(&self.0)
    }
}
impl std::error::Error for RecError {}
impl ser::Error for RecError {
    fn custom<T: fmt::Display>(msg: T) -> Self {
        RecError(msg.to_string())
    }
}

pub struct RecSer;
pub struct RecSeq(Option<usize>, Vec<Rec>);
pub struct RecMap(Option<usize>, Vec<(Rec, Rec)>, Option<Rec>);

pub fn record<T: Serialize + ?Sized>(v: &T) -> Result<Rec, RecError> {
    v.serialize(RecSer)
}

impl Serializer for RecSer {
    type Ok = Rec;
    type Error = RecError;
    type SerializeSeq = RecSeq;
    type SerializeTuple = RecSeq;
    type SerializeTupleStruct = RecSeq;
    type SerializeTupleVariant = ser::Impossible<Rec, RecError>;
    type SerializeMap = RecMap;
    type SerializeStruct = ser::Impossible<Rec, RecError>;
    type SerializeStructVariant = ser::Impossible<Rec, RecError>;

    fn serialize_bool(self, v: bool) -> Result<Rec, RecError> {
        Ok(Rec::Bool(v))
    }
    fn serialize_i8(self, v: i8) -> Result<Rec, RecError> {
        Ok(Rec::Int(v as i128))
    }
    fn serialize_i16(self, v: i16) -> Result<Rec, RecError> {
        Ok(Rec::Int(v as i128))
    }
    fn serialize_i32(self, v: i32) -> Result<Rec, RecError> {
        Ok(Rec::Int(v as i128))
    }
    fn serialize_i64(self, v: i64) -> Result<Rec, RecError> {
        Ok(Rec::Int(v as i128))
    }
    fn serialize_i128(self, v: i128) -> Result<Rec, RecError> {
        Ok(Rec::Int(v))
    }
    fn serialize_u8(self, v: u8) -> Result<Rec, RecError> {
        Ok(Rec::Int(v as i128))
    }
    fn serialize_u16(self, v: u16) -> Result<Rec, RecError> {
        Ok(Rec::Int(v as i128))
    }
    fn serialize_u32(self, v: u32) -> Result<Rec, RecError> {
        Ok(Rec::Int(v as i128))
    }
    fn serialize_u64(self, v: u64) -> Result<Rec, RecError> {
        Ok(Rec::Int(v as i128))
    }
    fn serialize_u128(self, v: u128) -> Result<Rec, RecError> {
        Ok(match i128::try_from(v) {
            Ok(i) => Rec::Int(i),
            Err(_) => Rec::BigU(v),
        })
    }
    fn serialize_f32(self, v: f32) -> Result<Rec, RecError> {
        Ok(Rec::F64((v as f64).to_bits()))
    }
    fn serialize_f64(self, v: f64) -> Result<Rec, RecError> {
        Ok(Rec::F64(v.to_bits()))
    }
    fn serialize_char(self, v: char) -> Result<Rec, RecError> {
        Ok(Rec::Str(v.to_string()))
    }
    fn serialize_str(self, v: &str) -> Result<Rec, RecError> {
        Ok(Rec::Str(v.to_string()))
    }
    fn serialize_bytes(self, v: &[u8]) -> Result<Rec, RecError> {
        Ok(Rec::Bytes(v.to_vec()))
    }
    fn serialize_none(self) -> Result<Rec, RecError> {
        Ok(Rec::Other("none"))
    }
    fn serialize_some<T: Serialize + ?Sized>(self, _v: &T) -> Result<Rec, RecError> {
        Ok(Rec::Other("some"))
    }
    fn serialize_unit(self) -> Result<Rec, RecError> {
        Ok(Rec::Unit)
    }
    fn serialize_unit_struct(self, _n: &'static str) -> Result<Rec, RecError> {
        Ok(Rec::Other("unit_struct"))
    }
    fn serialize_unit_variant(self, _n: &'static str, _i: u32, _v: &'static str) -> Result<Rec, RecError> {
        Ok(Rec::Other("unit_variant"))
    }
    fn serialize_newtype_struct<T: Serialize + ?Sized>(self, _n: &'static str, _v: &T) -> Result<Rec, RecError> {
        Ok(Rec::Other("newtype_struct"))
    }
    fn serialize_newtype_variant<T: Serialize + ?Sized>(self, _n: &'static str, _i: u32, _v: &'static str, _x: &T) -> Result<Rec, RecError> {
        Ok(Rec::Other("newtype_variant"))
    }
    fn serialize_seq(self, len: Option<usize>) -> Result<RecSeq, RecError> {
        Ok(RecSeq(len, vec![]))
    }
    fn serialize_tuple(self, len: usize) -> Result<RecSeq, RecError> {
        Ok(RecSeq(Some(len), vec![]))
    }
    fn serialize_tuple_struct(self, _n: &'static str, len: usize) -> Result<RecSeq, RecError> {
        Ok(RecSeq(Some(len), vec![]))
    }
    fn serialize_tuple_variant(self, _n: &'static str, _i: u32, _v: &'static str, _l: usize) -> Result<Self::SerializeTupleVariant, RecError> {
        Err(RecError("tuple variant".into()))
    }
    fn serialize_map(self, len: Option<usize>) -> Result<RecMap, RecError> {
        Ok(RecMap(len, vec![], None))
    }
    fn serialize_struct(self, _n: &'static str, _l: usize) -> Result<Self::SerializeStruct, RecError> {
        Err(RecError("struct".into()))
    }
    fn serialize_struct_variant(self, _n: &'static str, _i: u32, _v: &'static str, _l: usize) -> Result<Self::SerializeStructVariant, RecError> {
        Err(RecError("struct variant".into()))
    }
}

impl ser::SerializeSeq for RecSeq {
    type Ok = Rec;
    type Error = RecError;
    fn serialize_element<T: Serialize + ?Sized>(&mut self, v: &T) -> Result<(), RecError> {
        self.1.push(v.serialize(RecSer)?);
        Ok(())
    }
    fn end(self) -> Result<Rec, RecError> {
        Ok(Rec::Seq(self.0, self.1))
    }
}
impl ser::SerializeTuple for RecSeq {
    type Ok = Rec;
    type Error = RecError;
    fn serialize_element<T: Serialize + ?Sized>(&mut self, v: &T) -> Result<(), RecError> {
        self.1.push(v.serialize(RecSer)?);
        Ok(())
    }
    fn end(self) -> Result<Rec, RecError> {
        Ok(Rec::Seq(self.0, self.1))
    }
}
impl ser::SerializeTupleStruct for RecSeq {
    type Ok = Rec;
    type Error = RecError;
    fn serialize_field<T: Serialize + ?Sized>(&mut self, v: &T) -> Result<(), RecError> {
        self.1.push(v.serialize(RecSer)?);
        Ok(())
    }
    fn end(self) -> Result<Rec, RecError> {
        Ok(Rec::Seq(self.0, self.1))
    }
}
impl ser::SerializeMap for RecMap {
    type Ok = Rec;
    type Error = RecError;
    fn serialize_key<T: Serialize + ?Sized>(&mut self, k: &T) -> Result<(), RecError> {
        self.2 = Some(k.serialize(RecSer)?);
        Ok(())
    }
    fn serialize_value<T: Serialize + ?Sized>(&mut self, v: &T) -> Result<(), RecError> {
        let k = self.2.take().ok_or_else(|| RecError("value without key".into()))?;
        self.1.push((k, v.serialize(RecSer)?));
        Ok(())
    }
    fn end(self) -> Result<Rec, RecError> {
        Ok(Rec::Map(self.0, self.1))
    }
}

// ------------------------------------------------------------------------------------ eager image
/// The JSON image of a value obtained by walking it through the public API (`kind`, `try_iter`,
/// `get_item`), not through `Serialize`.  One-shot iterators are consumed by this.
pub fn eager_image(v: &Value) -> Result<serde_json::Value, String> {
    use serde_json::Value as J;
    Ok(match v.kind() {
        ValueKind::Undefined | ValueKind::None | ValueKind::Invalid => J::Null,
        ValueKind::Bool => J::Bool(v.is_true()),
        ValueKind::Number => {
            if v.is_integer() {
                if let Ok(i) = i64::try_from(v.clone()) {
                    J::from(i)
                } else if let Ok(u) = u64::try_from(v.clone()) {
                    J::from(u)
                } else {
                    return Err("bigint".into());
                }
            } else {
                match f64::try_from(v.clone()) {
                    Ok(f) if f.is_finite() => J::from(f),
                    Ok(_) => J::Null,
                    Err(_) => return Err("float".into()),
                }
            }
        }
        ValueKind::String => J::String(v.as_str().unwrap_or("").to_string()),
        ValueKind::Bytes => J::Array(v.as_bytes().unwrap_or(&[]).iter().map(|b| J::from(*b)).collect()),
        ValueKind::Seq | ValueKind::Iterable => match v.try_iter() {
            Ok(it) => J::Array(it.map(|x| eager_image(&x)).collect::<Result<_, _>>()?),
            Err(_) => J::Array(vec![]),
        },
        ValueKind::Map => {
            let mut m = serde_json::Map::new();
            if let Ok(keys) = v.try_iter() {
                for k in keys {
                    let name = match k.kind() {
                        ValueKind::String => k.as_str().unwrap_or("").to_string(),
                        ValueKind::Bool | ValueKind::Number if k.is_integer() || k.kind() == ValueKind::Bool => k.to_string(),
                        _ => return Err("key".into()),
                    };
                    m.insert(name, eager_image(&v.get_item(&k).unwrap_or_default())?);
                }
            }
            J::Object(m)
        }
        ValueKind::Plain => J::String(v.to_string()),
        _ => return Err("kind".into()),
    })
}
