//! `DeserializeSeed`/`Visitor` pairs that drive a `Deserializer` exactly like `#[derive(Deserialize)]`
//! (and serde's own impls for primitives, options, sequences, tuples and maps) do for a type of the
//! given shape.
use super::shape::*;
use serde::de::{
    self, Deserialize, DeserializeSeed, Deserializer, EnumAccess, IgnoredAny, MapAccess, SeqAccess, VariantAccess,
    Visitor,
};
use std::fmt;

pub struct Seed<'a>(pub &'a Shape);

impl<'de> DeserializeSeed<'de> for Seed<'_> {
    type Value = Dyn;
    fn deserialize<D: Deserializer<'de>>(self, d: D) -> Result<Dyn, D::Error> {
        match self.0 {
            Shape::Bool => bool::deserialize(d).map(Dyn::Bool),
            Shape::U8 => u8::deserialize(d).map(|x| Dyn::Int(x as i128)),
            Shape::U16 => u16::deserialize(d).map(|x| Dyn::Int(x as i128)),
            Shape::U32 => u32::deserialize(d).map(|x| Dyn::Int(x as i128)),
            Shape::U64 => u64::deserialize(d).map(|x| Dyn::Int(x as i128)),
            Shape::I8 => i8::deserialize(d).map(|x| Dyn::Int(x as i128)),
            Shape::I16 => i16::deserialize(d).map(|x| Dyn::Int(x as i128)),
            Shape::I32 => i32::deserialize(d).map(|x| Dyn::Int(x as i128)),
            Shape::I64 => i64::deserialize(d).map(|x| Dyn::Int(x as i128)),
            Shape::F32 => f32::deserialize(d).map(|x| Dyn::F32(x.to_bits())),
            Shape::F64 => f64::deserialize(d).map(|x| Dyn::F64(x.to_bits())),
            Shape::Char => char::deserialize(d).map(Dyn::Char),
            Shape::Str => String::deserialize(d).map(Dyn::Str),
            Shape::Bytes => d.deserialize_byte_buf(BytesVisitor),
            Shape::Unit => <()>::deserialize(d).map(|_| Dyn::Unit),
            Shape::Opt(s) => d.deserialize_option(OptVisitor(s)),
            Shape::Seq(s) => d.deserialize_seq(SeqVisitor(s)),
            Shape::Map(k, v) => d.deserialize_map(MapVisitor(k, v)),
            Shape::Tup(ss) => d.deserialize_tuple(ss.len(), TupVisitor(ss)),
            Shape::UStruct(n) => d.deserialize_unit_struct(n, UnitVisitor),
            Shape::NStruct(n, s) => d.deserialize_newtype_struct(n, NewtypeVisitor(s)),
            Shape::TStruct(n, ss) => d.deserialize_tuple_struct(n, ss.len(), TupVisitor(ss)),
            Shape::Struct(n, fs) => {
                let names: Vec<&'static str> = fs.iter().map(|x| x.0).collect();
                d.deserialize_struct(n, intern_list(&names), StructVisitor(fs))
            }
            Shape::Enum(n, vs) => {
                let names: Vec<&'static str> = vs.iter().map(|x| x.0).collect();
                d.deserialize_enum(n, intern_list(&names), EnumVisitor(vs))
            }
        }
    }
}

// like serde_bytes::ByteBuf
struct BytesVisitor;
impl<'de> Visitor<'de> for BytesVisitor {
    type Value = Dyn;
    fn expecting(&self, f: &mut fmt::Formatter) -> fmt::Result {
        f.write_str("byte array")
    }
    fn visit_bytes<E: de::Error>(self, v: &[u8]) -> Result<Dyn, E> {
        Ok(Dyn::Bytes(v.to_vec()))
    }
    fn visit_byte_buf<E: de::Error>(self, v: Vec<u8>) -> Result<Dyn, E> {
        Ok(Dyn::Bytes(v))
    }
    fn visit_str<E: de::Error>(self, v: &str) -> Result<Dyn, E> {
        Ok(Dyn::Bytes(v.as_bytes().to_vec()))
    }
    fn visit_seq<A: SeqAccess<'de>>(self, mut a: A) -> Result<Dyn, A::Error> {
        let mut v = vec![];
        while let Some(b) = a.next_element::<u8>()? {
            v.push(b);
        }
        Ok(Dyn::Bytes(v))
    }
}

// serde::de::impls::OptionVisitor
struct OptVisitor<'a>(&'a Shape);
impl<'de> Visitor<'de> for OptVisitor<'_> {
    type Value = Dyn;
    fn expecting(&self, f: &mut fmt::Formatter) -> fmt::Result {
        f.write_str("option")
    }
    fn visit_unit<E: de::Error>(self) -> Result<Dyn, E> {
        Ok(Dyn::None)
    }
    fn visit_none<E: de::Error>(self) -> Result<Dyn, E> {
        Ok(Dyn::None)
    }
    fn visit_some<D: Deserializer<'de>>(self, d: D) -> Result<Dyn, D::Error> {
        Seed(self.0).deserialize(d).map(|x| Dyn::Some(Box::new(x)))
    }
}

struct SeqVisitor<'a>(&'a Shape);
impl<'de> Visitor<'de> for SeqVisitor<'_> {
    type Value = Dyn;
    fn expecting(&self, f: &mut fmt::Formatter) -> fmt::Result {
        f.write_str("a sequence")
    }
    fn visit_seq<A: SeqAccess<'de>>(self, mut a: A) -> Result<Dyn, A::Error> {
        let mut v = vec![];
        while let Some(x) = a.next_element_seed(Seed(self.0))? {
            v.push(x);
        }
        Ok(Dyn::List(v))
    }
}

struct MapVisitor<'a>(&'a Shape, &'a Shape);
impl<'de> Visitor<'de> for MapVisitor<'_> {
    type Value = Dyn;
    fn expecting(&self, f: &mut fmt::Formatter) -> fmt::Result {
        f.write_str("a map")
    }
    fn visit_map<A: MapAccess<'de>>(self, mut a: A) -> Result<Dyn, A::Error> {
        let mut v = vec![];
        let mut flip = false;
        loop {
            // both access styles std impls use
            if flip {
                match a.next_entry_seed(Seed(self.0), Seed(self.1))? {
                    Some(kv) => v.push(kv),
                    None => break,
                }
            } else {
                match a.next_key_seed(Seed(self.0))? {
                    Some(k) => {
                        let x = a.next_value_seed(Seed(self.1))?;
                        v.push((k, x));
                    }
                    None => break,
                }
            }
            flip = !flip;
        }
        Ok(Dyn::Map(v))
    }
}

// tuples, tuple structs, tuple variants: derived `visit_seq` reads exactly n elements
struct TupVisitor<'a>(&'a [Shape]);
impl<'de> Visitor<'de> for TupVisitor<'_> {
    type Value = Dyn;
    fn expecting(&self, f: &mut fmt::Formatter) -> fmt::Result {
        write!(f, "a tuple of size {}", self.0.len())
    }
    fn visit_seq<A: SeqAccess<'de>>(self, mut a: A) -> Result<Dyn, A::Error> {
        let mut v = vec![];
        for (i, s) in self.0.iter().enumerate() {
            match a.next_element_seed(Seed(s))? {
                Some(x) => v.push(x),
                None => return Err(de::Error::invalid_length(i, &self)),
            }
        }
        Ok(Dyn::List(v))
    }
}

struct UnitVisitor;
impl<'de> Visitor<'de> for UnitVisitor {
    type Value = Dyn;
    fn expecting(&self, f: &mut fmt::Formatter) -> fmt::Result {
        f.write_str("unit struct")
    }
    fn visit_unit<E: de::Error>(self) -> Result<Dyn, E> {
        Ok(Dyn::Unit)
    }
}

struct NewtypeVisitor<'a>(&'a Shape);
impl<'de> Visitor<'de> for NewtypeVisitor<'_> {
    type Value = Dyn;
    fn expecting(&self, f: &mut fmt::Formatter) -> fmt::Result {
        f.write_str("newtype struct")
    }
    fn visit_newtype_struct<D: Deserializer<'de>>(self, d: D) -> Result<Dyn, D::Error> {
        Seed(self.0).deserialize(d)
    }
    fn visit_seq<A: SeqAccess<'de>>(self, mut a: A) -> Result<Dyn, A::Error> {
        match a.next_element_seed(Seed(self.0))? {
            Some(x) => Ok(x),
            None => Err(de::Error::invalid_length(0, &self)),
        }
    }
}

/// the derived `__Field` identifier: index of a known name, or ignore
struct FieldSeed<'a>(&'a [(&'static str, Shape)]);
impl<'de> DeserializeSeed<'de> for FieldSeed<'_> {
    type Value = Option<usize>;
    fn deserialize<D: Deserializer<'de>>(self, d: D) -> Result<Option<usize>, D::Error> {
        d.deserialize_identifier(self)
    }
}
impl<'de> Visitor<'de> for FieldSeed<'_> {
    type Value = Option<usize>;
    fn expecting(&self, f: &mut fmt::Formatter) -> fmt::Result {
        f.write_str("field identifier")
    }
    fn visit_u64<E: de::Error>(self, v: u64) -> Result<Option<usize>, E> {
        Ok(if (v as usize) < self.0.len() { Some(v as usize) } else { None })
    }
    fn visit_str<E: de::Error>(self, v: &str) -> Result<Option<usize>, E> {
        Ok(self.0.iter().position(|x| x.0 == v))
    }
    fn visit_bytes<E: de::Error>(self, v: &[u8]) -> Result<Option<usize>, E> {
        Ok(self.0.iter().position(|x| x.0.as_bytes() == v))
    }
}

fn missing_field<E: de::Error>(name: &'static str, shape: &Shape) -> Result<Dyn, E> {
    // serde::__private::de::missing_field: options default to None, everything else is an error
    match shape {
        Shape::Opt(_) => Ok(Dyn::None),
        _ => Err(E::missing_field(name)),
    }
}

struct StructVisitor<'a>(&'a [(&'static str, Shape)]);
impl<'de> Visitor<'de> for StructVisitor<'_> {
    type Value = Dyn;
    fn expecting(&self, f: &mut fmt::Formatter) -> fmt::Result {
        f.write_str("struct")
    }
    fn visit_seq<A: SeqAccess<'de>>(self, mut a: A) -> Result<Dyn, A::Error> {
        let mut v = vec![];
        for (i, (_, s)) in self.0.iter().enumerate() {
            match a.next_element_seed(Seed(s))? {
                Some(x) => v.push(x),
                None => return Err(de::Error::invalid_length(i, &self)),
            }
        }
        Ok(Dyn::List(v))
    }
    fn visit_map<A: MapAccess<'de>>(self, mut a: A) -> Result<Dyn, A::Error> {
        let mut slots: Vec<Option<Dyn>> = vec![None; self.0.len()];
        while let Some(k) = a.next_key_seed(FieldSeed(self.0))? {
            match k {
                Some(i) => {
                    if slots[i].is_some() {
                        return Err(de::Error::duplicate_field(self.0[i].0));
                    }
                    slots[i] = Some(a.next_value_seed(Seed(&self.0[i].1))?);
                }
                None => {
                    a.next_value::<IgnoredAny>()?;
                }
            }
        }
        let mut v = vec![];
        for (i, s) in slots.into_iter().enumerate() {
            v.push(match s {
                Some(x) => x,
                None => missing_field(self.0[i].0, &self.0[i].1)?,
            });
        }
        Ok(Dyn::List(v))
    }
}

/// the derived variant identifier: unknown names are errors
struct VariantSeed<'a>(&'a [(&'static str, VShape)]);
impl<'de> DeserializeSeed<'de> for VariantSeed<'_> {
    type Value = usize;
    fn deserialize<D: Deserializer<'de>>(self, d: D) -> Result<usize, D::Error> {
        d.deserialize_identifier(self)
    }
}
impl<'de> Visitor<'de> for VariantSeed<'_> {
    type Value = usize;
    fn expecting(&self, f: &mut fmt::Formatter) -> fmt::Result {
        f.write_str("variant identifier")
    }
    fn visit_u64<E: de::Error>(self, v: u64) -> Result<usize, E> {
        if (v as usize) < self.0.len() {
            Ok(v as usize)
        } else {
            Err(E::invalid_value(de::Unexpected::Unsigned(v), &"variant index"))
        }
    }
    fn visit_str<E: de::Error>(self, v: &str) -> Result<usize, E> {
        self.0.iter().position(|x| x.0 == v).ok_or_else(|| E::unknown_variant(v, &[]))
    }
    fn visit_bytes<E: de::Error>(self, v: &[u8]) -> Result<usize, E> {
        self.0
            .iter()
            .position(|x| x.0.as_bytes() == v)
            .ok_or_else(|| E::unknown_variant(&String::from_utf8_lossy(v), &[]))
    }
}

struct EnumVisitor<'a>(&'a [(&'static str, VShape)]);
impl<'de> Visitor<'de> for EnumVisitor<'_> {
    type Value = Dyn;
    fn expecting(&self, f: &mut fmt::Formatter) -> fmt::Result {
        f.write_str("enum")
    }
    fn visit_enum<A: EnumAccess<'de>>(self, data: A) -> Result<Dyn, A::Error> {
        let (idx, variant) = data.variant_seed(VariantSeed(self.0))?;
        let payload = match &self.0[idx].1 {
            VShape::Unit => {
                variant.unit_variant()?;
                Dyn::Unit
            }
            VShape::Newtype(s) => variant.newtype_variant_seed(Seed(s))?,
            VShape::Tuple(ss) => variant.tuple_variant(ss.len(), TupVisitor(ss))?,
            VShape::Struct(fs) => {
                let names: Vec<&'static str> = fs.iter().map(|x| x.0).collect();
                variant.struct_variant(intern_list(&names), StructVisitor(fs))?
            }
        };
        Ok(Dyn::Variant(idx, Box::new(payload)))
    }
}
