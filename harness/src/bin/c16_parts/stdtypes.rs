//! serde's own `Serialize` / `Deserialize` impls for std types (and what they rely on: the
//! `is_human_readable` answer of both sides, fixed-size arrays, `deserialize_tuple(0)`, enums with
//! newtype variants holding byte sequences, structs read by `visit_seq` or `visit_map`, …), and the
//! primitive deserializers of `serde::de::value` feeding `Value`'s own visitor.
use minijinja::value::{Serde, Value};
use mjh::Rng;
use serde::de::IntoDeserializer;
use serde::{Deserialize, Serialize};
use std::cell::{Cell, RefCell};
use std::cmp::Reverse;
use std::collections::{BTreeSet, HashSet, LinkedList, VecDeque};
use std::ffi::CString;
use std::marker::PhantomData;
use std::net::{IpAddr, Ipv4Addr, Ipv6Addr, SocketAddr, SocketAddrV4, SocketAddrV6};
use std::num::{NonZeroI64, NonZeroU8, Wrapping};
use std::ops::{Bound, Range, RangeFrom, RangeInclusive, RangeTo};
use std::path::PathBuf;
use std::time::{Duration, SystemTime, UNIX_EPOCH};

#[derive(Serialize, Deserialize, PartialEq, Debug, Clone)]
pub struct Net {
    ip4: IpAddr,
    ip6: IpAddr,
    v4: Ipv4Addr,
    v6: Ipv6Addr,
    sock: SocketAddr,
    s4: SocketAddrV4,
    s6: SocketAddrV6,
    list: Vec<IpAddr>,
}

#[derive(Serialize, Deserialize, PartialEq, Debug, Clone)]
pub struct Times {
    d: Duration,
    t: SystemTime,
    ds: Vec<Duration>,
    o: Option<Duration>,
}

#[derive(Serialize, Deserialize, PartialEq, Debug, Clone)]
pub struct Ops {
    res_ok: Result<u8, String>,
    res_err: Result<u8, String>,
    nested: Result<Option<(i8, char)>, Vec<u8>>,
    b0: Bound<i8>,
    b1: Bound<i8>,
    b2: Bound<String>,
    r: Range<u8>,
    ri: RangeInclusive<i16>,
    rf: RangeFrom<u32>,
    rt: RangeTo<i64>,
    nz: NonZeroU8,
    nzi: NonZeroI64,
    wr: Wrapping<i8>,
    rev: Reverse<u16>,
    ph: PhantomData<u8>,
    cell: Cell<u8>,
    refc: RefCell<String>,
}

#[derive(Serialize, Deserialize, PartialEq, Debug, Clone)]
pub struct Colls {
    set: BTreeSet<u8>,
    hs: HashSet<String>,
    dq: VecDeque<i8>,
    ll: LinkedList<char>,
    arr0: [u8; 0],
    arr1: [String; 1],
    arr32: [u8; 32],
    tup12: (u8, i8, u16, i16, u32, i32, u64, i64, bool, char, String, ()),
    boxed: Box<[u16]>,
    bstr: Box<str>,
    cstr: CString,
    path: PathBuf,
    unit_in_seq: Vec<()>,
    opt_in_tuple: (Option<u8>, Option<String>),
}

fn gs(r: &mut Rng) -> String {
    r.pick(&["", "a", "<&>'\"", "\u{0}\n", "ß€𝄞", "a string that is longer than twenty-two bytes", "none", "0.0.0.0", "::1"]).to_string()
}

pub const TYPES: &[&str] = &["Net", "Times", "Ops", "Colls"];

fn rt<T: Serialize + for<'de> Deserialize<'de> + PartialEq + std::fmt::Debug>(x: &T) -> String {
    let r = mjh::guarded(|| {
        let v = Value::from(Serde(x));
        let owned = T::deserialize(v.clone());
        let borrowed = T::deserialize(&v);
        match (owned, borrowed) {
            (Ok(a), Ok(b)) => {
                if &a != x {
                    format!("ne:owned got {:?} from {:?}", a, x)
                } else if &b != x {
                    format!("ne:borrowed got {:?} from {:?}", b, x)
                } else {
                    "ok".to_string()
                }
            }
            (Err(e), _) | (_, Err(e)) => format!("err:{} for {:?}", e, x),
        }
    });
    match r {
        Ok(s) => s,
        Err(p) => format!("panic:{p}"),
    }
}

pub fn run(ty: &str, seed: u64) -> String {
    let r = &mut Rng::new(seed);
    let ip4 = |r: &mut Rng| Ipv4Addr::from(*r.pick(&[0u32, u32::MAX, 0x7f00_0001, 0xc0a8_0101, 0x0a00_00ff]));
    let ip6 = |r: &mut Rng| Ipv6Addr::from(*r.pick(&[0u128, 1, u128::MAX, 0x2001_0db8_0000_0000_0000_0000_0000_0001, 0xffff_c0a8_0101]));
    let port = |r: &mut Rng| *r.pick(&[0u16, 1, 80, 65535]);
    let dur = |r: &mut Rng| Duration::new(*r.pick(&[0u64, 1, u64::MAX, 1 << 32, 86_400]), *r.pick(&[0u32, 1, 999_999_999, 500_000_000]));
    match ty {
        "Net" => rt(&Net {
            ip4: IpAddr::V4(ip4(r)),
            ip6: IpAddr::V6(ip6(r)),
            v4: ip4(r),
            v6: ip6(r),
            sock: if r.chance(1, 2) { SocketAddr::V4(SocketAddrV4::new(ip4(r), port(r))) } else { SocketAddr::V6(SocketAddrV6::new(ip6(r), port(r), 0, 0)) },
            s4: SocketAddrV4::new(ip4(r), port(r)),
            s6: SocketAddrV6::new(ip6(r), port(r), 0, 0),
            list: (0..r.below(3)).map(|_| if r.chance(1, 2) { IpAddr::V4(ip4(r)) } else { IpAddr::V6(ip6(r)) }).collect(),
        }),
        "Times" => rt(&Times {
            d: dur(r),
            t: UNIX_EPOCH + Duration::new(*r.pick(&[0u64, 1, 1_700_000_000, 1 << 40]), *r.pick(&[0u32, 1, 999_999_999])),
            ds: (0..r.below(3)).map(|_| dur(r)).collect(),
            o: if r.chance(1, 3) { None } else { Some(dur(r)) },
        }),
        "Ops" => rt(&Ops {
            res_ok: Ok(r.next() as u8),
            res_err: Err(gs(r)),
            nested: match r.below(3) {
                0 => Ok(None),
                1 => Ok(Some((r.next() as i8, *r.pick(&['a', '\0', '<', '𝄞'])))),
                _ => Err((0..r.below(3)).map(|_| r.next() as u8).collect()),
            },
            b0: Bound::Unbounded,
            b1: if r.chance(1, 2) { Bound::Included(r.next() as i8) } else { Bound::Excluded(r.next() as i8) },
            b2: Bound::Included(gs(r)),
            r: (r.next() as u8)..(r.next() as u8),
            ri: (r.next() as i16)..=(r.next() as i16),
            rf: (r.next() as u32)..,
            rt: ..(r.next() as i64),
            nz: NonZeroU8::new(*r.pick(&[1u8, 255, 128])).unwrap(),
            nzi: NonZeroI64::new(*r.pick(&[1i64, -1, i64::MIN, i64::MAX])).unwrap(),
            wr: Wrapping(r.next() as i8),
            rev: Reverse(r.next() as u16),
            ph: PhantomData,
            cell: Cell::new(r.next() as u8),
            refc: RefCell::new(gs(r)),
        }),
        "Colls" => rt(&Colls {
            set: (0..r.below(4)).map(|_| r.next() as u8).collect(),
            hs: (0..r.below(4)).map(|_| gs(r)).collect(),
            dq: (0..r.below(4)).map(|_| r.next() as i8).collect(),
            ll: (0..r.below(4)).map(|_| *r.pick(&['a', '\0', '<', '𝄞', '\''])).collect(),
            arr0: [],
            arr1: [gs(r)],
            arr32: std::array::from_fn(|i| if i % 3 == 0 { r.next() as u8 } else { i as u8 }),
            tup12: (r.next() as u8, r.next() as i8, r.next() as u16, r.next() as i16, r.next() as u32, r.next() as i32, r.next(), r.next() as i64, r.chance(1, 2), 'x', gs(r), ()),
            boxed: (0..r.below(4)).map(|_| r.next() as u16).collect(),
            bstr: gs(r).into_boxed_str(),
            cstr: CString::new(gs(r).replace('\0', "")).unwrap(),
            path: PathBuf::from(gs(r).replace('\0', "")),
            unit_in_seq: vec![(); r.below(4) as usize],
            opt_in_tuple: (if r.chance(1, 2) { None } else { Some(r.next() as u8) }, if r.chance(1, 2) { None } else { Some(gs(r)) }),
        }),
        _ => "bad-case".into(),
    }
}

/// `Value::deserialize` fed by the primitive deserializers of `serde::de::value` (each calls one
/// specific `visit_*` method of `ValueVisitor`): index → (what, canon of the result, canon expected)
pub const PRIM_COUNT: usize = 40;

pub fn run_prim(idx: usize) -> String {
    type E = serde::de::value::Error;
    fn go<'de, D: serde::Deserializer<'de>>(d: D, want: Value) -> String
    where
        D::Error: std::fmt::Display,
    {
        let got = match mjh::guarded(|| Value::deserialize(d).map_err(|e| e.to_string())) {
            Ok(Ok(v)) => super::val::canon_value(&v),
            Ok(Err(_)) => "err".to_string(),
            Err(_) => "panic".to_string(),
        };
        format!("{}\t{}", got, super::val::canon_value(&want))
    }
    macro_rules! prim {
        ($v:expr) => {{
            let x = $v;
            go(IntoDeserializer::<E>::into_deserializer(x), Value::from(x))
        }};
    }
    match idx {
        0 => prim!(true),
        1 => prim!(false),
        2 => prim!(0u8),
        3 => prim!(u8::MAX),
        4 => prim!(u16::MAX),
        5 => prim!(u32::MAX),
        6 => prim!(u64::MAX),
        7 => prim!(i64::MAX as u64 + 1),
        8 => prim!(i8::MIN),
        9 => prim!(-1i8),
        10 => prim!(i8::MAX),
        11 => prim!(i16::MIN),
        12 => prim!(-1i16),
        13 => prim!(i32::MIN),
        14 => prim!(-1i32),
        15 => prim!(i64::MIN),
        16 => prim!(-1i64),
        17 => prim!(i64::MAX),
        18 => prim!(u128::MAX),
        19 => prim!(i128::MIN),
        20 => prim!(1u128 << 64),
        21 => prim!(-(1i128 << 63) - 1),
        22 => prim!(0.1f32),
        23 => prim!(f32::MAX),
        24 => prim!(-0.0f32),
        25 => prim!(f32::from_bits(1)),
        26 => prim!(f64::MAX),
        27 => prim!(-0.0f64),
        28 => prim!(5e-324f64),
        29 => prim!('a'),
        30 => prim!('\0'),
        31 => prim!('𝄞'),
        32 => prim!("borrowed <str>"),
        33 => go(IntoDeserializer::<E>::into_deserializer(String::from("an owned string that is longer than twenty-two bytes")), Value::from("an owned string that is longer than twenty-two bytes")),
        34 => go(serde::de::value::BytesDeserializer::<E>::new(&[0, 255, 60]), Value::from_bytes(vec![0, 255, 60])),
        35 => go(IntoDeserializer::<E>::into_deserializer(()), Value::from(())),
        36 => go(IntoDeserializer::<E>::into_deserializer(vec![1u8, 2, 3]), Value::from(vec![1u8, 2, 3])),
        37 => go(
            IntoDeserializer::<E>::into_deserializer(std::collections::BTreeMap::from([("k", -5i8), ("l", 7i8)])),
            Value::from(std::collections::BTreeMap::from([("k", -5i8), ("l", 7i8)])),
        ),
        38 => go(IntoDeserializer::<E>::into_deserializer(f64::NAN), Value::from(f64::NAN)),
        39 => go(IntoDeserializer::<E>::into_deserializer(f32::from_bits(0xffc0_0001)), Value::from(f32::from_bits(0xffc0_0001) as f64)),
        _ => "bad-case\t-".into(),
    }
}
