//! A buffering adapter on the serializer side (what serde's private `ContentSerializer` does for
//! `#[serde(flatten)]` / internally tagged enums): first serialise N embedded `Value`s into a buffer —
//! which, during `Value::from(Serde(..))`, makes each of them register an in-band handle and emit
//! `tuple_struct(MARKER, 1) { u32 }` — and only afterwards replay the buffers, in any order, into the
//! real `ValueSerializer`, which resolves the handles.
use minijinja::value::Value;
use serde::ser::{self, Impossible, Serialize, SerializeSeq, SerializeTupleStruct, Serializer};
use std::fmt;

#[derive(Debug, Clone)]
pub enum Buf {
    U32(u32),
    Handle(&'static str, u32),
}

#[derive(Debug)]
pub struct BufError(String);
impl fmt::Display for BufError {
    fn fmt(&self, f: &mut fmt::Formatter<'_>) -> fmt::Result {
        f.write_str(&self.0)
    }
}
impl std::error::Error for BufError {}
impl ser::Error for BufError {
    fn custom<T: fmt::Display>(msg: T) -> Self {
        BufError(msg.to_string())
    }
}

pub struct BufSer;
pub struct BufTuple(&'static str, Option<u32>);

macro_rules! refuse {
    ($($name:ident($($arg:ident : $ty:ty),*) -> $ret:ty;)*) => {
        $(fn $name(self, $($arg: $ty),*) -> Result<$ret, BufError> {
            $(let _ = $arg;)*
            Err(BufError(concat!("unexpected ", stringify!($name)).into()))
        })*
    };
}

impl Serializer for BufSer {
    type Ok = Buf;
    type Error = BufError;
    type SerializeSeq = Impossible<Buf, BufError>;
    type SerializeTuple = Impossible<Buf, BufError>;
    type SerializeTupleStruct = BufTuple;
    type SerializeTupleVariant = Impossible<Buf, BufError>;
    type SerializeMap = Impossible<Buf, BufError>;
    type SerializeStruct = Impossible<Buf, BufError>;
    type SerializeStructVariant = Impossible<Buf, BufError>;

    fn serialize_u32(self, v: u32) -> Result<Buf, BufError> {
        Ok(Buf::U32(v))
    }
    fn serialize_tuple_struct(self, name: &'static str, _len: usize) -> Result<BufTuple, BufError> {
        Ok(BufTuple(name, None))
    }
    refuse! {
        serialize_bool(v: bool) -> Buf;
        serialize_i8(v: i8) -> Buf;
        serialize_i16(v: i16) -> Buf;
        serialize_i32(v: i32) -> Buf;
        serialize_i64(v: i64) -> Buf;
        serialize_u8(v: u8) -> Buf;
        serialize_u16(v: u16) -> Buf;
        serialize_u64(v: u64) -> Buf;
        serialize_f32(v: f32) -> Buf;
        serialize_f64(v: f64) -> Buf;
        serialize_char(v: char) -> Buf;
        serialize_str(v: &str) -> Buf;
        serialize_bytes(v: &[u8]) -> Buf;
        serialize_none() -> Buf;
        serialize_unit() -> Buf;
        serialize_unit_struct(n: &'static str) -> Buf;
        serialize_unit_variant(n: &'static str, i: u32, v: &'static str) -> Buf;
        serialize_seq(l: Option<usize>) -> Self::SerializeSeq;
        serialize_tuple(l: usize) -> Self::SerializeTuple;
        serialize_tuple_variant(n: &'static str, i: u32, v: &'static str, l: usize) -> Self::SerializeTupleVariant;
        serialize_map(l: Option<usize>) -> Self::SerializeMap;
        serialize_struct(n: &'static str, l: usize) -> Self::SerializeStruct;
        serialize_struct_variant(n: &'static str, i: u32, v: &'static str, l: usize) -> Self::SerializeStructVariant;
    }
    fn serialize_some<T: Serialize + ?Sized>(self, _v: &T) -> Result<Buf, BufError> {
        Err(BufError("unexpected serialize_some".into()))
    }
    fn serialize_newtype_struct<T: Serialize + ?Sized>(self, _n: &'static str, _v: &T) -> Result<Buf, BufError> {
        Err(BufError("unexpected serialize_newtype_struct".into()))
    }
    fn serialize_newtype_variant<T: Serialize + ?Sized>(self, _n: &'static str, _i: u32, _v: &'static str, _x: &T) -> Result<Buf, BufError> {
        Err(BufError("unexpected serialize_newtype_variant".into()))
    }
}

impl SerializeTupleStruct for BufTuple {
    type Ok = Buf;
    type Error = BufError;
    fn serialize_field<T: Serialize + ?Sized>(&mut self, v: &T) -> Result<(), BufError> {
        match v.serialize(BufSer)? {
            Buf::U32(h) => {
                self.1 = Some(h);
                Ok(())
            }
            _ => Err(BufError("handle field is not a u32".into())),
        }
    }
    fn end(self) -> Result<Buf, BufError> {
        match self.1 {
            Some(h) => Ok(Buf::Handle(self.0, h)),
            None => Err(BufError("tuple struct without field".into())),
        }
    }
}

impl Serialize for Buf {
    fn serialize<S: Serializer>(&self, s: S) -> Result<S::Ok, S::Error> {
        match self {
            Buf::U32(v) => s.serialize_u32(*v),
            Buf::Handle(name, h) => {
                let mut t = s.serialize_tuple_struct(name, 1)?;
                t.serialize_field(h)?;
                t.end()
            }
        }
    }
}

/// buffer all values first, then replay them in `order` (indices may repeat or be missing)
pub struct Adapter {
    pub values: Vec<Value>,
    pub order: Vec<usize>,
    pub handles: std::sync::Mutex<Vec<u32>>,
}

impl Serialize for Adapter {
    fn serialize<S: Serializer>(&self, s: S) -> Result<S::Ok, S::Error> {
        let mut bufs = vec![];
        for v in &self.values {
            let b = v.serialize(BufSer).map_err(|e| ser::Error::custom(format!("buffering failed: {e}")))?;
            if let Buf::Handle(_, h) = &b {
                self.handles.lock().unwrap().push(*h);
            }
            bufs.push(b);
        }
        let mut seq = s.serialize_seq(Some(self.order.len()))?;
        for i in &self.order {
            seq.serialize_element(&bufs[*i])?;
        }
        seq.end()
    }
}
