//! Really derived types covering every shape; each test is
//! `T::deserialize(Value::from(Serde(&x))) == x` (owned and borrowed deserializer).
use minijinja::value::{Serde, Value};
use mjh::Rng;
use serde::{Deserialize, Serialize};
use std::collections::{BTreeMap, HashMap};

mod bytes_mod {
    use serde::{Deserializer, Serializer};
    pub fn serialize<S: Serializer>(v: &Vec<u8>, s: S) -> Result<S::Ok, S::Error> {
        s.serialize_bytes(v)
    }
    pub fn deserialize<'de, D: Deserializer<'de>>(d: D) -> Result<Vec<u8>, D::Error> {
        struct V;
        impl<'de> serde::de::Visitor<'de> for V {
            type Value = Vec<u8>;
            fn expecting(&self, f: &mut std::fmt::Formatter) -> std::fmt::Result {
                f.write_str("bytes")
            }
            fn visit_bytes<E>(self, v: &[u8]) -> Result<Vec<u8>, E> {
                Ok(v.to_vec())
            }
            fn visit_byte_buf<E>(self, v: Vec<u8>) -> Result<Vec<u8>, E> {
                Ok(v)
            }
        }
        d.deserialize_byte_buf(V)
    }
}

#[derive(Serialize, Deserialize, PartialEq, Debug, Clone)]
pub struct UnitS;
#[derive(Serialize, Deserialize, PartialEq, Debug, Clone)]
pub struct NewT(i64);
#[derive(Serialize, Deserialize, PartialEq, Debug, Clone)]
pub struct PairS(u8, String);
#[derive(Serialize, Deserialize, PartialEq, Debug, Clone)]
pub struct EmptyS {}
#[derive(Serialize, Deserialize, PartialEq, Debug, Clone)]
pub struct Point {
    x: i32,
    y: i32,
    label: Option<String>,
}
#[derive(Serialize, Deserialize, PartialEq, Eq, PartialOrd, Ord, Hash, Debug, Clone)]
pub enum CLike {
    Red,
    Green,
    Blue,
}
#[derive(Serialize, Deserialize, PartialEq, Debug, Clone)]
pub enum Every {
    Unit,
    New(u32),
    NewStr(String),
    NewMap(BTreeMap<String, i32>),
    NewOpt(Option<u8>),
    NewSeq(Vec<i16>),
    NewStruct(Point),
    NewEnum(CLike),
    Tup(i8, char),
    Tup0(),
    Struct { a: bool, b: Vec<u16> },
    Struct0 {},
    Nested(Box<Every>),
}
#[derive(Serialize, Deserialize, PartialEq, Debug, Clone)]
pub struct Prims {
    b: bool,
    a8: u8,
    a16: u16,
    a32: u32,
    a64: u64,
    s8: i8,
    s16: i16,
    s32: i32,
    s64: i64,
    us: usize,
    is: isize,
    f: f32,
    d: f64,
    c: char,
    s: String,
    u: (),
    #[serde(with = "bytes_mod")]
    y: Vec<u8>,
}
#[derive(Serialize, Deserialize, PartialEq, Debug, Clone)]
pub struct Opts {
    a: Option<u8>,
    b: Option<String>,
    c: Option<Vec<Option<i32>>>,
    d: Option<(u8, u8)>,
    e: Option<Point>,
    f: Option<Every>,
    g: Option<bool>,
    h: Option<char>,
    i: Option<BTreeMap<u8, Option<i64>>>,
    j: Option<NewT>,
    k: Option<f64>,
}
#[derive(Serialize, Deserialize, PartialEq, Debug, Clone)]
pub struct Maps {
    by_u8: BTreeMap<u8, String>,
    by_i64: BTreeMap<i64, bool>,
    by_u64: BTreeMap<u64, u8>,
    by_char: BTreeMap<char, u8>,
    by_string: HashMap<String, Vec<u8>>,
    by_bool: BTreeMap<bool, i8>,
    by_enum: BTreeMap<CLike, u8>,
    by_tuple: BTreeMap<(u8, char), i8>,
    nested: BTreeMap<String, BTreeMap<u64, Option<char>>>,
}
#[derive(Serialize, Deserialize, PartialEq, Debug, Clone)]
pub struct Tuples {
    t1: (u8,),
    t2: (i8, String),
    t3: (bool, char, f64),
    nested: ((u8, u8), (String,)),
    arr: [u16; 3],
    deep: Vec<(u8, Vec<(char, Option<i8>)>)>,
}
#[derive(Serialize, Deserialize, PartialEq, Debug, Clone)]
pub struct Generic<T> {
    inner: T,
    list: Vec<T>,
}
#[derive(Serialize, Deserialize, PartialEq, Debug, Clone)]
pub struct Deep {
    e: Vec<Every>,
    m: BTreeMap<String, Every>,
    o: Option<Box<Deep>>,
    g: Generic<(CLike, NewT)>,
    u: UnitS,
    p: PairS,
    z: EmptyS,
}

// ------------------------------------------------------------------------------------ generators
const STRS: &[&str] = &["", "a", "hello", "<&>'\"", "\u{0}\u{1f}\n", "\u{2028}\u{2029}", "ß€𝄞", "a string that is longer than twenty-two bytes", "type", "A", "none", "\\ud800"];
const CHARS: &[char] = &['a', '\0', '<', '\'', '"', '\\', '\u{7f}', '\u{2028}', 'é', '€', '𝄞', '\u{10ffff}', ' ', '1'];

fn gs(r: &mut Rng) -> String {
    r.pick(STRS).to_string()
}
fn gc(r: &mut Rng) -> char {
    *r.pick(CHARS)
}
macro_rules! gint {
    ($name:ident, $t:ty) => {
        fn $name(r: &mut Rng) -> $t {
            match r.below(6) {
                0 => 0 as $t,
                1 => <$t>::MAX,
                2 => <$t>::MIN,
                3 => <$t>::MAX - 1,
                4 => 1 as $t,
                _ => r.next() as $t,
            }
        }
    };
}
gint!(gu8, u8);
gint!(gu16, u16);
gint!(gu32, u32);
gint!(gu64, u64);
gint!(gi8, i8);
gint!(gi16, i16);
gint!(gi32, i32);
gint!(gi64, i64);
fn gf64(r: &mut Rng) -> f64 {
    *r.pick(&[0.0, -0.0, 1.0, -1.5, 0.1, 1e300, 5e-324, f64::MAX, f64::MIN_POSITIVE, f64::INFINITY, f64::NEG_INFINITY, 9007199254740993.0, 1e16])
}
fn gf32(r: &mut Rng) -> f32 {
    *r.pick(&[0.0f32, -0.0, 1.0, 0.1, 3.4028235e38, 1e-45, f32::MIN_POSITIVE, f32::INFINITY, f32::NEG_INFINITY, 16777217.0])
}
fn gopt<T>(r: &mut Rng, f: impl FnOnce(&mut Rng) -> T) -> Option<T> {
    if r.chance(1, 3) {
        None
    } else {
        Some(f(r))
    }
}
fn gvec<T>(r: &mut Rng, mut f: impl FnMut(&mut Rng) -> T) -> Vec<T> {
    (0..r.below(4)).map(|_| f(r)).collect()
}
fn gmap<K: Ord, V>(r: &mut Rng, mut k: impl FnMut(&mut Rng) -> K, mut v: impl FnMut(&mut Rng) -> V) -> BTreeMap<K, V> {
    (0..r.below(4)).map(|_| (k(r), v(r))).collect()
}
fn gclike(r: &mut Rng) -> CLike {
    r.pick(&[CLike::Red, CLike::Green, CLike::Blue]).clone()
}
fn gpoint(r: &mut Rng) -> Point {
    Point { x: gi32(r), y: gi32(r), label: gopt(r, gs) }
}
fn gevery(r: &mut Rng, depth: u32) -> Every {
    match r.below(if depth == 0 { 12 } else { 13 }) {
        0 => Every::Unit,
        1 => Every::New(gu32(r)),
        2 => Every::NewStr(gs(r)),
        3 => Every::NewMap(gmap(r, gs, gi32)),
        4 => Every::NewOpt(gopt(r, gu8)),
        5 => Every::NewSeq(gvec(r, gi16)),
        6 => Every::NewStruct(gpoint(r)),
        7 => Every::NewEnum(gclike(r)),
        8 => Every::Tup(gi8(r), gc(r)),
        9 => Every::Tup0(),
        10 => Every::Struct { a: r.chance(1, 2), b: gvec(r, gu16) },
        11 => Every::Struct0 {},
        _ => Every::Nested(Box::new(gevery(r, depth - 1))),
    }
}
fn gprims(r: &mut Rng) -> Prims {
    Prims {
        b: r.chance(1, 2),
        a8: gu8(r),
        a16: gu16(r),
        a32: gu32(r),
        a64: gu64(r),
        s8: gi8(r),
        s16: gi16(r),
        s32: gi32(r),
        s64: gi64(r),
        us: gu64(r) as usize,
        is: gi64(r) as isize,
        f: gf32(r),
        d: gf64(r),
        c: gc(r),
        s: gs(r),
        u: (),
        y: gvec(r, gu8),
    }
}
fn gopts(r: &mut Rng) -> Opts {
    Opts {
        a: gopt(r, gu8),
        b: gopt(r, gs),
        c: gopt(r, |r| gvec(r, |r| gopt(r, gi32))),
        d: gopt(r, |r| (gu8(r), gu8(r))),
        e: gopt(r, gpoint),
        f: gopt(r, |r| gevery(r, 2)),
        g: gopt(r, |r| r.chance(1, 2)),
        h: gopt(r, gc),
        i: gopt(r, |r| gmap(r, gu8, |r| gopt(r, gi64))),
        j: gopt(r, |r| NewT(gi64(r))),
        k: gopt(r, gf64),
    }
}
fn gmaps(r: &mut Rng) -> Maps {
    Maps {
        by_u8: gmap(r, gu8, gs),
        by_i64: gmap(r, gi64, |r| r.chance(1, 2)),
        by_u64: gmap(r, gu64, gu8),
        by_char: gmap(r, gc, gu8),
        by_string: gmap(r, gs, |r| gvec(r, gu8)).into_iter().collect(),
        by_bool: gmap(r, |r| r.chance(1, 2), gi8),
        by_enum: gmap(r, gclike, gu8),
        by_tuple: gmap(r, |r| (gu8(r), gc(r)), gi8),
        nested: gmap(r, gs, |r| gmap(r, gu64, |r| gopt(r, gc))),
    }
}
fn gtuples(r: &mut Rng) -> Tuples {
    Tuples {
        t1: (gu8(r),),
        t2: (gi8(r), gs(r)),
        t3: (r.chance(1, 2), gc(r), gf64(r)),
        nested: ((gu8(r), gu8(r)), (gs(r),)),
        arr: [gu16(r), gu16(r), gu16(r)],
        deep: gvec(r, |r| (gu8(r), gvec(r, |r| (gc(r), gopt(r, gi8))))),
    }
}
fn gdeep(r: &mut Rng, depth: u32) -> Deep {
    Deep {
        e: gvec(r, |r| gevery(r, 2)),
        m: gmap(r, gs, |r| gevery(r, 1)),
        o: if depth > 0 && r.chance(1, 2) { Some(Box::new(gdeep(r, depth - 1))) } else { None },
        g: Generic { inner: (gclike(r), NewT(gi64(r))), list: gvec(r, |r| (gclike(r), NewT(gi64(r)))) },
        u: UnitS,
        p: PairS(gu8(r), gs(r)),
        z: EmptyS {},
    }
}

fn rt<T: Serialize + for<'de> Deserialize<'de> + PartialEq + std::fmt::Debug>(x: &T) -> String {
    let r = mjh::guarded(|| {
        let v = Value::from(Serde(x));
        let owned = T::deserialize(v.clone());
        let borrowed = T::deserialize(&v);
        match (owned, borrowed) {
            (Ok(a), Ok(b)) => {
                if &a != x {
                    format!("ne:owned got {:?} from {:?}", a, x)
                } else if &b != x {
                    format!("ne:borrowed got {:?} from {:?}", b, x)
                } else {
                    "ok".to_string()
                }
            }
            (Err(e), _) | (_, Err(e)) => format!("err:{} for {:?}", e, x),
        }
    });
    match r {
        Ok(s) => s,
        Err(p) => format!("panic:{p}"),
    }
}

pub const TYPES: &[&str] = &[
    "UnitS", "NewT", "PairS", "EmptyS", "Point", "CLike", "Every", "Prims", "Opts", "Maps", "Tuples", "Generic", "Deep",
];

/// one derived round trip: type name + per-case seed (the case replays from these two)
pub fn run(ty: &str, seed: u64) -> String {
    let r = &mut Rng::new(seed);
    match ty {
        "UnitS" => rt(&UnitS),
        "NewT" => rt(&NewT(gi64(r))),
        "PairS" => rt(&PairS(gu8(r), gs(r))),
        "EmptyS" => rt(&EmptyS {}),
        "Point" => rt(&gpoint(r)),
        "CLike" => rt(&gclike(r)),
        "Every" => rt(&gevery(r, 3)),
        "Prims" => rt(&gprims(r)),
        "Opts" => rt(&gopts(r)),
        "Maps" => rt(&gmaps(r)),
        "Tuples" => rt(&gtuples(r)),
        "Generic" => rt(&Generic { inner: gopt(r, gs), list: gvec(r, |r| gopt(r, gs)) }),
        "Deep" => rt(&gdeep(r, 2)),
        _ => "bad-case".into(),
    }
}


// ------------------------------------------------------------------------------------ representations / attributes
// (outside the letter of the statement: tagged / untagged enums, flatten, renames, 128-bit integers,
// `Option<Option<T>>`, `serde_json::Value`, `Cow`; run for information and as extra oracle where the
// serde data model can carry the distinction)
use std::borrow::Cow;

#[derive(Serialize, Deserialize, PartialEq, Debug, Clone)]
#[serde(tag = "type")]
pub enum Internal {
    A { x: u8 },
    B { s: String, o: Option<i8> },
    C,
    #[serde(rename = "dee")]
    D(Point),
}
#[derive(Serialize, Deserialize, PartialEq, Debug, Clone)]
#[serde(tag = "t", content = "c")]
pub enum Adjacent {
    A(u8),
    B { x: i16 },
    C,
    D(u8, String),
    E(Vec<Option<char>>),
}
#[derive(Serialize, Deserialize, PartialEq, Debug, Clone)]
#[serde(untagged)]
pub enum Untagged {
    N(i64),
    S(String),
    L(Vec<u8>),
    M { a: bool },
    P(u8, String),
}
#[derive(Serialize, Deserialize, PartialEq, Debug, Clone)]
pub struct Flat {
    id: u8,
    #[serde(flatten)]
    p: Point,
    #[serde(flatten)]
    extra: BTreeMap<String, i32>,
}
#[derive(Serialize, Deserialize, PartialEq, Debug, Clone)]
#[serde(rename_all = "camelCase")]
pub struct Renamed {
    #[serde(rename = "type")]
    ty: String,
    some_field: u16,
    #[serde(default)]
    with_default: Option<u8>,
    #[serde(skip_serializing_if = "Option::is_none")]
    skipped: Option<String>,
}
#[derive(Serialize, Deserialize, PartialEq, Debug, Clone)]
pub struct OptOpt {
    a: Option<Option<u8>>,
    b: Option<()>,
    c: Option<UnitS>,
}
#[derive(Serialize, Deserialize, PartialEq, Debug, Clone)]
pub struct N3(u32);
#[derive(Serialize, Deserialize, PartialEq, Debug, Clone)]
pub struct N2(N3);
#[derive(Serialize, Deserialize, PartialEq, Debug, Clone)]
pub struct N1(N2, UnitS, (), Option<N2>);
#[derive(Serialize, Deserialize, PartialEq, Debug, Clone)]
pub struct Wide {
    a: i128,
    b: u128,
}
#[derive(Serialize, Deserialize, PartialEq, Debug, Clone)]
pub struct Cows<'a> {
    s: Cow<'a, str>,
    c: char,
    t: (u8, (char, Cow<'a, str>)),
    o: Option<Cow<'a, str>>,
}

fn gjson(r: &mut Rng, depth: u32) -> serde_json::Value {
    use serde_json::Value as J;
    match r.below(if depth == 0 { 6 } else { 8 }) {
        0 => J::Null,
        1 => J::Bool(r.chance(1, 2)),
        2 => J::from(gi64(r)),
        3 => J::from(gu64(r)),
        4 => J::from(*r.pick(&[0.5f64, -1.25, 1e300, 3.0, 1e-7])),
        5 => J::String(gs(r)),
        6 => J::Array((0..r.below(3)).map(|_| gjson(r, depth - 1)).collect()),
        _ => J::Object((0..r.below(3)).map(|_| (gs(r), gjson(r, depth - 1))).collect()),
    }
}

pub const TYPES_X: &[&str] = &["Internal", "Adjacent", "Untagged", "Flat", "Renamed", "OptOpt", "Newtypes", "Wide", "Cows", "Json", "SerdeArg", "Borrowed"];

pub fn run_x(ty: &str, seed: u64) -> String {
    let r = &mut Rng::new(seed);
    match ty {
        "Internal" => rt(&match r.below(4) {
            0 => Internal::A { x: gu8(r) },
            1 => Internal::B { s: gs(r), o: gopt(r, gi8) },
            2 => Internal::C,
            _ => Internal::D(gpoint(r)),
        }),
        "Adjacent" => rt(&match r.below(5) {
            0 => Adjacent::A(gu8(r)),
            1 => Adjacent::B { x: gi16(r) },
            2 => Adjacent::C,
            3 => Adjacent::D(gu8(r), gs(r)),
            _ => Adjacent::E(gvec(r, |r| gopt(r, gc))),
        }),
        "Untagged" => rt(&match r.below(5) {
            0 => Untagged::N(gi64(r)),
            1 => Untagged::S(gs(r)),
            2 => Untagged::L(gvec(r, gu8)),
            3 => Untagged::M { a: r.chance(1, 2) },
            _ => Untagged::P(gu8(r), gs(r)),
        }),
        "Flat" => {
            let mut extra = gmap(r, gs, gi32);
            for k in ["id", "x", "y", "label"] {
                extra.remove(k);
            }
            rt(&Flat { id: gu8(r), p: gpoint(r), extra })
        }
        "Renamed" => rt(&Renamed { ty: gs(r), some_field: gu16(r), with_default: gopt(r, gu8), skipped: gopt(r, gs) }),
        "OptOpt" => rt(&OptOpt { a: gopt(r, |r| gopt(r, gu8)), b: gopt(r, |_| ()), c: gopt(r, |_| UnitS) }),
        "Newtypes" => rt(&N1(N2(N3(gu32(r))), UnitS, (), gopt(r, |r| N2(N3(gu32(r)))))),
        "Wide" => rt(&Wide { a: (gi64(r) as i128) << r.below(64), b: (gu64(r) as u128) << r.below(64) }),
        "Cows" => rt(&Cows { s: Cow::Owned(gs(r)), c: gc(r), t: (gu8(r), (gc(r), Cow::Owned(gs(r)))), o: gopt(r, |r| Cow::Owned(gs(r))) }),
        "Json" => rt(&gjson(r, 3)),
        "SerdeArg" => {
            // `Serde<T>` as a function argument (deserialises the template value into T)
            let p = gpoint(r);
            let mut env = minijinja::Environment::new();
            env.add_function("echo", |p: Serde<Point>| Value::from(Serde(p.0)));
            let res = mjh::guarded(|| {
                let v = Value::from(Serde(&p));
                let out = env.compile_expression("echo(p)").and_then(|e| e.eval(minijinja::context! { p => v }))?;
                Point::deserialize(out)
            });
            match res {
                Ok(Ok(q)) if q == p => "ok".into(),
                Ok(Ok(q)) => format!("ne:got {:?} from {:?}", q, p),
                Ok(Err(e)) => format!("err:{e}"),
                Err(m) => format!("panic:{m}"),
            }
        }
        "Borrowed" => {
            // zero-copy targets (`&str`, `&[u8]`): the deserializer hands out `visit_str` / `visit_bytes`, never the
            // borrowed forms, so these targets are refused (recorded; outside the statement)
            let s = gs(r);
            let v = Value::from(s.as_str());
            let b = Value::from_bytes(s.as_bytes().to_vec());
            let res = mjh::guarded(|| (<&str>::deserialize(&v).map(|x| x.to_string()), <&[u8]>::deserialize(&b).map(|x| x.to_vec())));
            match res {
                Ok((Err(_), Err(_))) => "refused".into(),
                Ok((Ok(x), _)) if x != s => format!("ne:borrowed str came back as {x:?}"),
                Ok((_, Ok(x))) if x != s.as_bytes() => format!("ne:borrowed bytes came back as {x:?}"),
                Ok(_) => "ok".into(),
                Err(m) => format!("panic:{m}"),
            }
        }
        _ => "bad-case".into(),
    }
}
