//! C16 second-generation streams:
//!   buf    serde's buffering read path (`Content`): untagged / flatten / internally tagged wrappers around
//!          a type of arbitrary shape
//!   arg    `Serde<T>` as the argument type of functions, filters, tests and object methods, the value
//!          arriving from the context or built by template code
//!   vv     `Value` itself as the target of a deserialisation (from a `Value`, from JSON text, as a field)
//!   pp     the post-processing of `tojson` on an exhaustive family of ASCII strings
//!   warm   embedded values on a thread whose handle counter has advanced
use super::de::Seed;
use super::shape::*;
use super::val::*;
use minijinja::value::{Kwargs, Object, Rest, Serde, Value};
use minijinja::{context, Environment, Error, State};
use serde::de::DeserializeSeed;
use serde::{Deserialize, Deserializer, Serialize};
use std::cell::RefCell;
use std::sync::Arc;

// ------------------------------------------------------------------------------------ a type of any shape
thread_local! {
    static CUR: RefCell<Option<Shape>> = const { RefCell::new(None) };
    static LAST: RefCell<Vec<String>> = const { RefCell::new(Vec::new()) };
}

/// `Deserialize` for "the type whose shape is the thread's current shape": lets code that is generic
/// over `T: Deserialize` (derived wrappers, `Serde<T>` arguments) run on arbitrary shapes
pub struct DynT(pub Dyn);

impl<'de> Deserialize<'de> for DynT {
    fn deserialize<D: Deserializer<'de>>(d: D) -> Result<DynT, D::Error> {
        let shape = CUR.with(|c| c.borrow().clone()).expect("no current shape");
        Seed(&shape).deserialize(d).map(DynT)
    }
}

pub fn with_shape<T>(s: &Shape, f: impl FnOnce() -> T) -> T {
    CUR.with(|c| *c.borrow_mut() = Some(s.clone()));
    let r = f();
    CUR.with(|c| *c.borrow_mut() = None);
    r
}

fn show<E: std::fmt::Display>(x: Result<Result<Dyn, E>, String>) -> String {
    match x {
        Ok(Ok(d)) => format!("ok {}", d.to_text(true)),
        Ok(Err(_)) => "err".to_string(),
        Err(_) => "panic".to_string(),
    }
}

// ------------------------------------------------------------------------------------ buf
#[derive(Deserialize)]
#[serde(untagged)]
enum Untag {
    A(DynT),
}
#[derive(Deserialize)]
#[serde(untagged)]
enum Untag2 {
    // a first alternative that never matches data: the buffered content is replayed for the second one
    #[allow(dead_code)]
    Never(NeverMatches),
    A(DynT),
}
/// walks the whole (buffered) input, then refuses it
struct NeverMatches;
impl<'de> Deserialize<'de> for NeverMatches {
    fn deserialize<D: Deserializer<'de>>(d: D) -> Result<NeverMatches, D::Error> {
        let _ = serde::de::IgnoredAny::deserialize(d)?;
        Err(serde::de::Error::custom("never matches"))
    }
}
#[derive(Serialize)]
struct FlatS<'a> {
    #[serde(rename = "\u{1}tag")]
    tag: u8,
    #[serde(flatten)]
    inner: WithShape<'a>,
}
#[derive(Deserialize)]
struct FlatD {
    #[serde(rename = "\u{1}tag")]
    tag: u8,
    #[serde(flatten)]
    inner: DynT,
}
#[derive(Serialize)]
#[serde(tag = "\u{1}t")]
enum TagS<'a> {
    W(WithShape<'a>),
}
#[derive(Deserialize)]
#[serde(tag = "\u{1}t")]
enum TagD {
    W(DynT),
}
#[derive(Serialize)]
#[serde(tag = "t", content = "c")]
enum AdjS<'a> {
    W(WithShape<'a>),
}
#[derive(Deserialize)]
#[serde(tag = "t", content = "c")]
enum AdjD {
    W(DynT),
}

/// can serde flatten / internally tag a value of this shape at all?  (structs and maps with string-like
/// keys only: a limitation of serde's FlatMapSerializer / TaggedSerializer, not of the engine)
fn flattenable(s: &Shape) -> bool {
    match s {
        Shape::Struct(..) => true,
        Shape::Map(k, _) => matches!(**k, Shape::Str),
        _ => false,
    }
}

/// `buf <shape> ; <data>`: untagged (two flavours), flatten, internally tagged, adjacently tagged
pub fn run_buf(shape: &Shape, data: &Dyn) -> String {
    let want = format!("ok {}", data.to_text(true));
    let v = match mjh::guarded(|| Value::from(Serde(WithShape(shape, data)))) {
        Ok(v) => v,
        Err(_) => return "panic\t-\t-\t-\t-".into(),
    };
    let unt = with_shape(shape, || show(mjh::guarded(|| Untag::deserialize(v.clone()).map(|Untag::A(d)| d.0))));
    let unt_ref = with_shape(shape, || {
        show(mjh::guarded(|| {
            Untag2::deserialize(&v).map(|u| match u {
                Untag2::A(d) => d.0,
                Untag2::Never(_) => Dyn::Unit,
            })
        }))
    });
    let (flat, tag) = if flattenable(shape) {
        let fv = mjh::guarded(|| Value::from(Serde(FlatS { tag: 7, inner: WithShape(shape, data) })));
        let tv = mjh::guarded(|| Value::from(Serde(TagS::W(WithShape(shape, data)))));
        let f = match fv {
            Ok(fv) => with_shape(shape, || {
                show(mjh::guarded(|| FlatD::deserialize(fv).map(|x| if x.tag == 7 { x.inner.0 } else { Dyn::Unit })))
            }),
            Err(_) => "panic".into(),
        };
        let t = match tv {
            Ok(tv) => with_shape(shape, || show(mjh::guarded(|| TagD::deserialize(&tv).map(|TagD::W(d)| d.0)))),
            Err(_) => "panic".into(),
        };
        (f, t)
    } else {
        ("-".to_string(), "-".to_string())
    };
    let adj = match mjh::guarded(|| Value::from(Serde(AdjS::W(WithShape(shape, data))))) {
        Ok(av) => with_shape(shape, || show(mjh::guarded(|| AdjD::deserialize(av).map(|AdjD::W(d)| d.0)))),
        Err(_) => "panic".into(),
    };
    let mark = |s: String| if s == want || s == "-" { s } else { format!("{s} (want {want})") };
    format!("{}\t{}\t{}\t{}\t{}", mark(unt), mark(unt_ref), mark(flat), mark(tag), mark(adj))
}

// ------------------------------------------------------------------------------------ arg
pub const ARG_FORMS: [&str; 12] = ["fn", "filter", "test", "method", "second", "rest", "opt", "macro", "setblock", "literal", "loop", "kwargs"];

fn record(d: Result<DynT, String>) {
    LAST.with(|l| {
        l.borrow_mut().push(match d {
            Ok(d) => format!("ok {}", d.0.to_text(true)),
            Err(e) => e,
        })
    });
}

#[derive(Debug)]
struct Api;
impl Object for Api {
    fn call_method(self: &Arc<Self>, _state: &mut State, method: &str, args: &[Value]) -> Result<Value, Error> {
        if method == "de" {
            let (v,): (Serde<DynT>,) = minijinja::value::from_args(args)?;
            record(Ok(v.0));
            Ok(Value::from(true))
        } else {
            Err(Error::from(minijinja::ErrorKind::UnknownMethod))
        }
    }
}

pub fn arg_env() -> Environment<'static> {
    let mut env = Environment::new();
    env.add_function("de", |v: Serde<DynT>| {
        record(Ok(v.0));
        true
    });
    env.add_filter("de", |v: Serde<DynT>| {
        record(Ok(v.0));
        true
    });
    env.add_test("de", |v: Serde<DynT>| {
        record(Ok(v.0));
        true
    });
    env.add_function("de2", |_a: i64, v: Serde<DynT>, _b: Option<bool>| {
        record(Ok(v.0));
        true
    });
    env.add_function("derest", |vs: Rest<Serde<DynT>>| {
        for v in vs.0 {
            record(Ok(v.0));
        }
        true
    });
    env.add_function("deopt", |v: Option<Serde<DynT>>| {
        match v {
            Some(v) => record(Ok(v.0)),
            None => record(Err("absent".into())),
        }
        true
    });
    env.add_function("dekw", |v: Serde<DynT>, _kw: Kwargs| {
        record(Ok(v.0));
        true
    });
    env.add_global("api", Value::from_object(Api));
    env
}

/// template source of an expression that evaluates to (a value equal to) `v`, where the template
/// language can write it down
pub fn literal(v: &Value) -> Option<String> {
    use minijinja::value::ValueKind as K;
    Some(match v.kind() {
        K::None => "none".into(),
        K::Bool => if v.is_true() { "true" } else { "false" }.into(),
        K::Number => {
            if v.is_integer() {
                let i = i128::try_from(v.clone()).ok()?;
                if i < 0 {
                    if i < -(i64::MAX as i128) {
                        return None;
                    }
                    format!("(-{})", -i)
                } else if i > u64::MAX as i128 {
                    return None;
                } else {
                    i.to_string()
                }
            } else {
                let f = f64::try_from(v.clone()).ok()?;
                if !f.is_finite() || f == 0.0 && f.is_sign_negative() {
                    return None;
                }
                // decimal digits with a dot; the lexer reads them back with Rust's (correctly rounded) parser
                let t = format!("{:?}", f.abs());
                if t.contains('e') || t.contains("inf") {
                    return None;
                }
                if f < 0.0 {
                    format!("(-{t})")
                } else {
                    t
                }
            }
        }
        K::String => {
            let s = v.as_str()?;
            if v.is_safe() || !s.chars().all(|c| (' '..='~').contains(&c) && c != '"' && c != '\\' && c != '\'') {
                return None;
            }
            format!("\"{s}\"")
        }
        K::Seq => {
            let items: Vec<Value> = v.try_iter().ok()?.collect();
            let parts: Option<Vec<String>> = items.iter().map(literal).collect();
            format!("[{}]", parts?.join(", "))
        }
        K::Map => {
            let keys: Vec<Value> = v.try_iter().ok()?.collect();
            let mut parts = vec![];
            for k in keys {
                parts.push(format!("{}: {}", literal(&k)?, literal(&v.get_item(&k).ok()?)?));
            }
            format!("{{{}}}", parts.join(", "))
        }
        _ => return None,
    })
}

/// `arg <form> <shape> ; <data>` → `<canon of the argument value>` TAB `<what each conversion produced> | …` TAB `done|err:<kind>|panic` TAB `eq|ne`
pub fn run_arg(env: &Environment, form: &str, shape: &Shape, data: &Dyn) -> String {
    let v = match mjh::guarded(|| Value::from(Serde(WithShape(shape, data)))) {
        Ok(v) => v,
        Err(_) => return "panic".into(),
    };
    LAST.with(|l| l.borrow_mut().clear());
    let lit;
    let src: String = match form {
        "fn" => "{{ de(v) }}".into(),
        "filter" => "{{ v|de }}".into(),
        "test" => "{{ v is de }}".into(),
        "method" => "{{ api.de(v) }}".into(),
        "second" => "{{ de2(1, v) }}{{ de2(2, v, true) }}".into(),
        "rest" => "{{ derest(v, v) }}".into(),
        "opt" => "{{ deopt(v) }}".into(),
        "macro" => "{% macro m(a, b=none) %}{{ de(a) }}{{ de(b) }}{% endmacro %}{{ m(v, b=v) }}".into(),
        "setblock" => "{% set w = v %}{% set ns = namespace(x=w) %}{{ de(ns.x) }}{{ [w][0]|de }}".into(),
        "loop" => "{% for w in [v, v] %}{{ de(w) }}{% endfor %}".into(),
        "kwargs" => "{{ dekw(v, x=1) }}{{ de(v=v) }}".into(),
        "literal" => match literal(&v) {
            Some(l) => {
                lit = l;
                format!("{{{{ de({lit}) }}}}{{{{ {lit}|de }}}}")
            }
            None => return "skip".into(),
        },
        _ => return "bad-case".into(),
    };
    let res = with_shape(shape, || mjh::guarded(|| env.render_str(&src, context! { v => v.clone() })));
    let seen: Vec<String> = LAST.with(|l| l.borrow().clone());
    let tail = match res {
        Ok(Ok(_)) => "done".to_string(),
        Ok(Err(e)) => format!("err:{}", mjh::error_kind_name(&e)),
        Err(_) => "panic".to_string(),
    };
    // what the form must have produced: every conversion yields the original datum
    let want = format!("ok {}", data.to_text(true));
    let (n, end) = match form {
        "fn" | "filter" | "test" | "method" => (1, "done"),
        "second" | "rest" | "macro" | "setblock" | "loop" | "literal" => (2, "done"),
        // an `Option<T>` parameter takes none as "not given" (documented for every `Option<T>`)
        "opt" => (1, "done"),
        // the first call converts the positional argument; the second passes only keyword arguments
        "kwargs" => (1, "err:InvalidOperation"),
        _ => (0, "?"),
    };
    let expected: Vec<String> = if form == "opt" && v.is_none() { vec!["absent".to_string()] } else { vec![want; n] };
    let verdict = if seen == expected && tail == end { "eq" } else { "ne" };
    format!("{}\t{}\t{}\t{}", canon_value(&v), seen.join(" | "), tail, verdict)
}

// ------------------------------------------------------------------------------------ vv
#[derive(Serialize, Deserialize)]
struct HasValue {
    a: u8,
    v: Value,
    w: Vec<Value>,
    o: Option<Value>,
}

/// what deserialising *into* `Value` must give for the described value: `none` for undefined, strings
/// without the safe flag, lists for tuples and lazily produced sequences, maps for map objects;
/// `Err` where the source cannot be deserialised from (plain objects, invalid values)
pub fn norm_vd(v: &VD) -> Result<VD, &'static str> {
    Ok(match v {
        VD::Undef | VD::None => VD::None,
        VD::Invalid => return Err("invalid"),
        VD::Plain(_) => return Err("plain"),
        VD::Str(s, _) => VD::Str(s.clone(), false),
        VD::Seq(xs) | VD::Tup(xs) => VD::Seq(xs.iter().map(norm_vd).collect::<Result<_, _>>()?),
        VD::Lazy(kind, xs) => VD::Seq(VD::lazy_items(kind, xs).iter().map(norm_vd).collect::<Result<_, _>>()?),
        VD::Map(kvs) => VD::Map(kvs.iter().map(|(k, x)| Ok((norm_vd(k)?, norm_vd(x)?))).collect::<Result<_, &'static str>>()?),
        VD::LazyMap(kind, kvs) => {
            if *kind == "wn" {
                VD::Map(vec![])
            } else {
                VD::Map(kvs.iter().map(|(k, x)| Ok((norm_vd(k)?, norm_vd(x)?))).collect::<Result<_, &'static str>>()?)
            }
        }
        other => other.clone(),
    })
}

/// the JSON image of a described value as a value description (what reading the JSON text into a
/// `Value` must give); `Err` where there is no image or serde_json cannot read it back exactly
pub fn json_vd(v: &VD) -> Result<VD, &'static str> {
    Ok(match v {
        VD::Undef | VD::None | VD::Invalid => VD::None,
        VD::Bool(b) => VD::Bool(*b),
        VD::Int(i, _) => {
            if *i < i64::MIN as i128 || *i > u64::MAX as i128 {
                return Err("bigint");
            }
            VD::Int(*i, false)
        }
        VD::BigU(_) => return Err("bigint"),
        VD::F64(b) => {
            let f = f64::from_bits(*b);
            if !f.is_finite() {
                VD::None
            } else {
                // serde_json's default float reader is not correctly rounded
                return Err("float");
            }
        }
        VD::Str(s, _) | VD::Plain(s) => VD::Str(s.clone(), false),
        VD::Bytes(b) => VD::Seq(b.iter().map(|x| VD::Int(*x as i128, false)).collect()),
        VD::Seq(xs) | VD::Tup(xs) => VD::Seq(xs.iter().map(json_vd).collect::<Result<_, _>>()?),
        VD::Lazy(kind, xs) => VD::Seq(VD::lazy_items(kind, xs).iter().map(json_vd).collect::<Result<_, _>>()?),
        VD::LazyMap(kind, _) if *kind == "wn" => VD::Map(vec![]),
        VD::Map(kvs) | VD::LazyMap(_, kvs) => {
            let mut out: Vec<(VD, VD)> = vec![];
            for (k, x) in kvs {
                let ks = match k {
                    VD::Str(s, _) => s.clone(),
                    VD::Bool(b) => b.to_string(),
                    VD::Int(i, _) => i.to_string(),
                    VD::BigU(u) => u.to_string(),
                    _ => return Err("key"),
                };
                if out.iter().any(|(k2, _)| *k2 == VD::Str(ks.clone(), false)) {
                    return Err("dupkey");
                }
                out.push((VD::Str(ks, false), json_vd(x)?));
            }
            VD::Map(out)
        }
    })
}

pub const VV_MODES: [&str; 5] = ["self", "selfref", "field", "json", "tojson"];

/// `vv <mode> <value desc>` → `<canon of the result>|err|panic|skip:<why>` TAB `<canon expected>|err`
pub fn run_vv(mode: &str, vd: &VD) -> String {
    let canon = |r: Result<Result<Value, String>, String>| match r {
        Ok(Ok(v)) => canon_value(&v),
        Ok(Err(_)) => "err".to_string(),
        Err(_) => "panic".to_string(),
    };
    let es = |e: Error| e.to_string();
    match mode {
        "self" | "selfref" | "field" => {
            let want = match norm_vd(vd) {
                Ok(n) => canon_value(&n.build()),
                Err(_) => "err".into(),
            };
            let got = canon(mjh::guarded(|| {
                let v = vd.build();
                match mode {
                    "self" => Value::deserialize(v).map_err(es),
                    "selfref" => Value::deserialize(&v).map_err(es),
                    _ => {
                        // as a field of a derived type: out through a value handle, back through ValueVisitor
                        let h = HasValue { a: 1, v: v.clone(), w: vec![Value::from(2)], o: Some(v.clone()) };
                        let hv = Value::from(Serde(&h));
                        let back = HasValue::deserialize(hv).map_err(es)?;
                        // (`Some(none)` is `None`; a one-shot iterator shared by `v` and `o` is consumed by `v`)
                        let opt_ok = back.o.is_none() == (v.is_none() || v.is_undefined());
                        if back.a != 1 || back.w != vec![Value::from(2)] || !opt_ok {
                            return Err("neighbouring fields differ".into());
                        }
                        Ok(back.v)
                    }
                }
            }));
            format!("{got}\t{want}")
        }
        "json" | "tojson" => {
            let want = match json_vd(vd) {
                Ok(n) => canon_value(&n.build()),
                Err(why) => return format!("skip:{why}\t-"),
            };
            let got = canon(mjh::guarded(|| {
                let v = vd.build();
                let text = if mode == "json" {
                    serde_json::to_string(&v).map_err(|e| e.to_string())?
                } else {
                    let out = minijinja::filters::tojson(&v, None, Kwargs::from_iter(std::iter::empty::<(&str, Value)>())).map_err(es)?;
                    out.as_str().unwrap_or("").to_string()
                };
                serde_json::from_str::<Value>(&text).map_err(|e| e.to_string())
            }));
            format!("{got}\t{want}")
        }
        _ => "bad-case\t-".into(),
    }
}

// ------------------------------------------------------------------------------------ sjson
fn has_f32(s: &Shape) -> bool {
    match s {
        Shape::F32 => true,
        Shape::Opt(a) | Shape::Seq(a) | Shape::NStruct(_, a) => has_f32(a),
        Shape::Map(a, b) => has_f32(a) || has_f32(b),
        Shape::Tup(ss) | Shape::TStruct(_, ss) => ss.iter().any(has_f32),
        Shape::Struct(_, fs) => fs.iter().any(|f| has_f32(&f.1)),
        Shape::Enum(_, vs) => vs.iter().any(|v| match &v.1 {
            VShape::Unit => false,
            VShape::Newtype(s) => has_f32(s),
            VShape::Tuple(ss) => ss.iter().any(has_f32),
            VShape::Struct(fs) => fs.iter().any(|f| has_f32(&f.1)),
        }),
        _ => false,
    }
}

fn json_same(a: &serde_json::Value, b: &serde_json::Value, f32_ok: bool) -> bool {
    use serde_json::Value as J;
    match (a, b) {
        (J::Number(x), J::Number(y)) => {
            if x == y {
                return true;
            }
            match (x.as_f64(), y.as_f64()) {
                // an f32 is printed by serde_json with f32 digits, by the engine as the f64 it was widened to
                (Some(p), Some(q)) if x.is_f64() && y.is_f64() => p == q || (f32_ok && (p as f32) == (q as f32)) || ((p - q).abs() <= p.abs().max(q.abs()) * 1e-15),
                _ => false,
            }
        }
        (J::Array(x), J::Array(y)) => x.len() == y.len() && x.iter().zip(y).all(|(p, q)| json_same(p, q, f32_ok)),
        (J::Object(x), J::Object(y)) => {
            x.len() == y.len()
                && x.iter().all(|(k, p)| {
                    let q = y.get(k).or_else(|| {
                        // an f32 key is named by its f32 digits by serde_json, by the digits of the widened f64 by the engine
                        let kf = k.parse::<f64>().ok().filter(|_| f32_ok)?;
                        y.iter().find(|(k2, _)| k2.parse::<f64>().map_or(false, |f| f as f32 == kf as f32)).map(|e| e.1)
                    });
                    q.map_or(false, |q| json_same(p, q, f32_ok))
                })
        }
        _ => a == b,
    }
}

/// `sjson <mode> <shape> ; <data>`: the JSON text the engine emits for a serialised datum against the
/// JSON serde_json writes for the datum directly (the usual `{{ user|tojson }}` with `user` a serde type)
pub fn run_sjson(render: &dyn Fn(&Value) -> Result<String, Error>, shape: &Shape, data: &Dyn) -> String {
    let reference = serde_json::to_value(WithShape(shape, data));
    let out = mjh::guarded(|| {
        let v = Value::from(Serde(WithShape(shape, data)));
        render(&v)
    });
    match (out, reference) {
        (Err(_), _) => "panic".into(),
        (Ok(Err(_)), Err(_)) => "both-refuse".into(),
        (Ok(Err(e)), Ok(r)) => format!("only-reference:{}:{}", mjh::error_kind_name(&e), mjh::hex(r.to_string().as_bytes())),
        (Ok(Ok(t)), Err(_)) => match serde_json::from_str::<serde_json::Value>(&t) {
            Ok(_) => "only-engine".into(),
            Err(_) => format!("invalid:{}", mjh::hex(t.as_bytes())),
        },
        (Ok(Ok(t)), Ok(r)) => match serde_json::from_str::<serde_json::Value>(&t) {
            Err(_) => format!("invalid:{}", mjh::hex(t.as_bytes())),
            Ok(got) => {
                if json_same(&got, &r, has_f32(shape)) {
                    "same".into()
                } else {
                    format!("differs:{}:{}", mjh::hex(t.as_bytes()), mjh::hex(r.to_string().as_bytes()))
                }
            }
        },
    }
}

// ------------------------------------------------------------------------------------ pp
fn fnv(h: &mut u64, bytes: &[u8]) {
    for b in bytes {
        *h ^= *b as u64;
        *h = h.wrapping_mul(0x0000_0100_0000_01b3);
    }
    // separator between outputs
    *h ^= 0xff;
    *h = h.wrapping_mul(0x0000_0100_0000_01b3);
}

pub const PP_SPECIALS: [u8; 4] = [b'<', b'>', b'&', b'\''];
pub const PP_TAILS: [&str; 2] = ["", ">'&<"];

/// `pp <b1|e> <pads,…>`: every string `prefix ++ 'x'*pad ++ special ++ tail` with prefix = the byte `b1`
/// followed by nothing or by any ASCII byte (`e`: the empty prefix), through `filters::tojson` directly.
/// Prints the number of strings, a hash of all outputs (compared with the model's) and the first input
/// whose output contains one of `< > & '`, is not what the reference replacement gives, or is not read
/// back as the input by serde_json's reader.
pub fn run_pp(b1: Option<u8>, pads: &[usize]) -> String {
    let prefixes: Vec<Vec<u8>> = match b1 {
        None => vec![vec![]],
        Some(b) => std::iter::once(vec![b]).chain((0u8..128).map(|c| vec![b, c])).collect(),
    };
    pp_family(&prefixes, pads)
}

/// `pp <b1>. <pads,…>`: the same with the single prefix `b1` (long distances)
pub fn run_pp_one(b1: u8, pads: &[usize]) -> String {
    pp_family(&[vec![b1]], pads)
}

fn pp_family(prefixes: &[Vec<u8>], pads: &[usize]) -> String {
    let mut h: u64 = 0xcbf2_9ce4_8422_2325;
    let mut n = 0usize;
    let mut bad: Option<String> = None;
    for p in prefixes {
        for pad in pads {
            for sp in PP_SPECIALS {
                for tail in PP_TAILS {
                    let mut bytes = p.clone();
                    bytes.extend(std::iter::repeat(b'x').take(*pad));
                    bytes.push(sp);
                    bytes.extend(tail.as_bytes());
                    let s = String::from_utf8(bytes).unwrap();
                    n += 1;
                    let out = mjh::guarded(|| minijinja::filters::tojson(&Value::from(s.as_str()), None, Kwargs::from_iter(std::iter::empty::<(&str, Value)>())));
                    let text = match out {
                        Ok(Ok(v)) => v.as_str().unwrap_or("<not a string>").to_string(),
                        Ok(Err(_)) => "<error>".to_string(),
                        Err(_) => "<panic>".to_string(),
                    };
                    fnv(&mut h, text.as_bytes());
                    if bad.is_none() {
                        let reference: String = serde_json::to_string(&s).unwrap().chars().map(|c| match c {
                            '<' => "\\u003c".to_string(),
                            '>' => "\\u003e".to_string(),
                            '&' => "\\u0026".to_string(),
                            '\'' => "\\u0027".to_string(),
                            c => c.to_string(),
                        }).collect();
                        let what = if text.bytes().any(|b| PP_SPECIALS.contains(&b)) {
                            Some("alphabet")
                        } else if serde_json::from_str::<String>(&text).ok().as_deref() != Some(s.as_str()) {
                            Some("readback")
                        } else if text != reference {
                            Some("reference")
                        } else {
                            None
                        };
                        if let Some(w) = what {
                            bad = Some(format!("bad:{w}:{}:{}", mjh::hex(s.as_bytes()), mjh::hex(text.as_bytes())));
                        }
                    }
                }
            }
        }
    }
    format!("{n}\t{h:016x}\t{}", bad.unwrap_or_else(|| "ok".into()))
}

// ------------------------------------------------------------------------------------ warm
#[derive(Serialize)]
struct Five {
    a: Value,
    b: Value,
    c: Value,
}
#[derive(Serialize)]
enum Pay {
    Five { a: Value, b: Value, c: Value },
}
#[derive(Serialize)]
struct Ev {
    id: u32,
    #[serde(flatten)]
    p: Pay,
}

/// `warm <n>`: on a fresh thread, `n` values are embedded first (the thread's handle counter advances
/// to `n`), then embedded values must still come back identical: plain fields, a sequence, and a shape
/// for which serde buffers three handles at once
pub fn run_warm(n: u64) -> String {
    let h = std::thread::spawn(move || {
        mjh::quiet_panics();
        mjh::guarded(|| -> Result<(), String> {
            let filler = Value::from(0);
            let mut left = n;
            // 4 handles per conversion while that fits, then one at a time
            let quad = (filler.clone(), filler.clone(), filler.clone(), filler.clone());
            while left >= 4 {
                let _ = Value::from(Serde(&quad));
                left -= 4;
            }
            while left > 0 {
                let _ = Value::from(Serde(&filler));
                left -= 1;
            }
            let objs: Vec<Value> = (0..6).map(|i| Value::from_object(DynMapObj(100 + i))).collect();
            let same = |a: &Value, b: &Value, what: &str| -> Result<(), String> {
                match (a.downcast_object::<DynMapObj>(), b.downcast_object::<DynMapObj>()) {
                    (Some(x), Some(y)) if Arc::ptr_eq(&x, &y) => Ok(()),
                    _ => Err(format!("{what}: embedded object came back as {}", canon_value(b))),
                }
            };
            let get = |o: &Value, k: &str| o.get_attr(k).map_err(|e| e.to_string());
            let f = Value::from(Serde(Five { a: objs[0].clone(), b: Value::UNDEFINED, c: objs[1].clone() }));
            same(&objs[0], &get(&f, "a")?, "field a")?;
            same(&objs[1], &get(&f, "c")?, "field c")?;
            if !get(&f, "b")?.is_undefined() {
                return Err("field b: undefined lost".into());
            }
            let s = Value::from(Serde(vec![objs[2].clone(), objs[3].clone(), objs[2].clone()]));
            for (i, j) in [(0usize, 2usize), (1, 3), (2, 2)] {
                same(&objs[j], &s.get_item_by_index(i).map_err(|e| e.to_string())?, "seq")?;
            }
            let e = Value::from(Serde(Ev { id: 1, p: Pay::Five { a: objs[4].clone(), b: objs[5].clone(), c: objs[0].clone() } }));
            let m = get(&e, "Five")?;
            same(&objs[4], &get(&m, "a")?, "buffered a")?;
            same(&objs[5], &get(&m, "b")?, "buffered b")?;
            same(&objs[0], &get(&m, "c")?, "buffered c")?;
            Ok(())
        })
    });
    match h.join() {
        Ok(Ok(Ok(()))) => "same".into(),
        Ok(Ok(Err(e))) => format!("diff:{e}"),
        _ => "diff:panic".into(),
    }
}

// ------------------------------------------------------------------------------------ floats
/// a double exactly half-way between two `j`-digit decimals (`x·10^j = k + ½`): where the shortest
/// digit string is not unique the printer has to break a tie
pub fn tie_f64(r: &mut mjh::Rng) -> u64 {
    let j = 1 + r.below(23) as i32;
    let lo = (54.0 - 2.3219 * j as f64).ceil().max(1.0) as u32;
    let hi = (57.3 - 2.3219 * j as f64).floor().min(53.0) as u32;
    let bl = if hi <= lo { lo } else { lo + r.below((hi - lo + 1) as u64) as u32 };
    let top = 1u64 << (bl - 1);
    let q = if bl == 1 { 1 } else { (top | (r.next() & (top - 1))) | 1 };
    let x = (q as f64) * (2f64).powi(-(j + 1));
    let x = if r.chance(1, 4) { -x } else { x };
    x.to_bits()
}
