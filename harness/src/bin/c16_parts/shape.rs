//! Shapes of the serde data model, dynamic values of a shape, their token text, and a
//! `Serialize` implementation that calls exactly the `Serializer` method of the shape.
use serde::ser::{
    Error as SerError, Serialize, SerializeMap, SerializeSeq, SerializeStruct, SerializeStructVariant,
    SerializeTuple, SerializeTupleStruct, SerializeTupleVariant, Serializer,
};
use std::collections::HashMap;
use std::sync::Mutex;

pub fn intern(s: &str) -> &'static str {
    static POOL: Mutex<Option<HashMap<String, &'static str>>> = Mutex::new(None);
    let mut g = POOL.lock().unwrap();
    let m = g.get_or_insert_with(HashMap::new);
    if let Some(x) = m.get(s) {
        return x;
    }
    let l: &'static str = Box::leak(s.to_string().into_boxed_str());
    m.insert(s.to_string(), l);
    l
}

pub fn intern_list(v: &[&'static str]) -> &'static [&'static str] {
    static POOL: Mutex<Option<HashMap<Vec<&'static str>, &'static [&'static str]>>> = Mutex::new(None);
    let mut g = POOL.lock().unwrap();
    let m = g.get_or_insert_with(HashMap::new);
    if let Some(x) = m.get(v) {
        return x;
    }
    let l: &'static [&'static str] = Box::leak(v.to_vec().into_boxed_slice());
    m.insert(v.to_vec(), l);
    l
}

#[derive(Clone, Debug, PartialEq)]
pub enum VShape {
    Unit,
    Newtype(Shape),
    Tuple(Vec<Shape>),
    Struct(Vec<(&'static str, Shape)>),
}

#[derive(Clone, Debug, PartialEq)]
pub enum Shape {
    Bool,
    U8,
    U16,
    U32,
    U64,
    I8,
    I16,
    I32,
    I64,
    F32,
    F64,
    Char,
    Str,
    Bytes,
    Unit,
    Opt(Box<Shape>),
    Seq(Box<Shape>),
    Map(Box<Shape>, Box<Shape>),
    Tup(Vec<Shape>),
    UStruct(&'static str),
    NStruct(&'static str, Box<Shape>),
    TStruct(&'static str, Vec<Shape>),
    Struct(&'static str, Vec<(&'static str, Shape)>),
    Enum(&'static str, Vec<(&'static str, VShape)>),
}

/// A value of the serde data model (untyped; meaningful together with a `Shape`).
#[derive(Clone, Debug, PartialEq)]
pub enum Dyn {
    Bool(bool),
    Int(i128),
    F32(u32),
    F64(u64),
    Char(char),
    Str(String),
    Bytes(Vec<u8>),
    None,
    Some(Box<Dyn>),
    Unit,
    /// seq, tuple, tuple struct, struct (fields in declaration order), tuple/struct variant payload
    List(Vec<Dyn>),
    Map(Vec<(Dyn, Dyn)>),
    Variant(usize, Box<Dyn>),
}

// ------------------------------------------------------------------------------------ text
pub fn hex_str(s: &str) -> String {
    mjh::hex(s.as_bytes())
}

impl Shape {
    pub fn text(&self, out: &mut Vec<String>) {
        let p = |out: &mut Vec<String>, s: &str| out.push(s.to_string());
        match self {
            Shape::Bool => p(out, "bool"),
            Shape::U8 => p(out, "u8"),
            Shape::U16 => p(out, "u16"),
            Shape::U32 => p(out, "u32"),
            Shape::U64 => p(out, "u64"),
            Shape::I8 => p(out, "i8"),
            Shape::I16 => p(out, "i16"),
            Shape::I32 => p(out, "i32"),
            Shape::I64 => p(out, "i64"),
            Shape::F32 => p(out, "f32"),
            Shape::F64 => p(out, "f64"),
            Shape::Char => p(out, "char"),
            Shape::Str => p(out, "str"),
            Shape::Bytes => p(out, "bytes"),
            Shape::Unit => p(out, "unit"),
            Shape::Opt(s) => {
                p(out, "opt");
                s.text(out)
            }
            Shape::Seq(s) => {
                p(out, "seq");
                s.text(out)
            }
            Shape::Map(k, v) => {
                p(out, "map");
                k.text(out);
                v.text(out)
            }
            Shape::Tup(ss) => {
                p(out, "tup");
                out.push(ss.len().to_string());
                ss.iter().for_each(|s| s.text(out))
            }
            Shape::UStruct(n) => {
                p(out, "ustruct");
                p(out, n)
            }
            Shape::NStruct(n, s) => {
                p(out, "nstruct");
                p(out, n);
                s.text(out)
            }
            Shape::TStruct(n, ss) => {
                p(out, "tstruct");
                p(out, n);
                out.push(ss.len().to_string());
                ss.iter().for_each(|s| s.text(out))
            }
            Shape::Struct(n, fs) => {
                p(out, "struct");
                p(out, n);
                fields_text(fs, out)
            }
            Shape::Enum(n, vs) => {
                p(out, "enum");
                p(out, n);
                out.push(vs.len().to_string());
                for (vn, v) in vs {
                    p(out, vn);
                    match v {
                        VShape::Unit => p(out, "vu"),
                        VShape::Newtype(s) => {
                            p(out, "vn");
                            s.text(out)
                        }
                        VShape::Tuple(ss) => {
                            p(out, "vt");
                            out.push(ss.len().to_string());
                            ss.iter().for_each(|s| s.text(out))
                        }
                        VShape::Struct(fs) => {
                            p(out, "vs");
                            fields_text(fs, out)
                        }
                    }
                }
            }
        }
    }
    pub fn to_text(&self) -> String {
        let mut v = vec![];
        self.text(&mut v);
        v.join(" ")
    }
}

fn fields_text(fs: &[(&'static str, Shape)], out: &mut Vec<String>) {
    out.push(fs.len().to_string());
    for (n, s) in fs {
        out.push(n.to_string());
        s.text(out);
    }
}

pub struct Toks<'a> {
    pub t: Vec<&'a str>,
    pub i: usize,
}
impl<'a> Toks<'a> {
    pub fn new(s: &'a str) -> Self {
        Toks { t: s.split_whitespace().collect(), i: 0 }
    }
    pub fn next(&mut self) -> Result<&'a str, String> {
        let r = self.t.get(self.i).copied().ok_or_else(|| "unexpected end".to_string())?;
        self.i += 1;
        Ok(r)
    }
    pub fn num(&mut self) -> Result<usize, String> {
        self.next()?.parse().map_err(|_| "bad count".to_string())
    }
}

fn parse_fields(t: &mut Toks) -> Result<Vec<(&'static str, Shape)>, String> {
    let n = t.num()?;
    let mut v = vec![];
    for _ in 0..n {
        let name = intern(t.next()?);
        v.push((name, parse_shape(t)?));
    }
    Ok(v)
}

fn parse_shapes(t: &mut Toks) -> Result<Vec<Shape>, String> {
    let n = t.num()?;
    (0..n).map(|_| parse_shape(t)).collect()
}

pub fn parse_shape(t: &mut Toks) -> Result<Shape, String> {
    Ok(match t.next()? {
        "bool" => Shape::Bool,
        "u8" => Shape::U8,
        "u16" => Shape::U16,
        "u32" => Shape::U32,
        "u64" => Shape::U64,
        "i8" => Shape::I8,
        "i16" => Shape::I16,
        "i32" => Shape::I32,
        "i64" => Shape::I64,
        "f32" => Shape::F32,
        "f64" => Shape::F64,
        "char" => Shape::Char,
        "str" => Shape::Str,
        "bytes" => Shape::Bytes,
        "unit" => Shape::Unit,
        "opt" => Shape::Opt(Box::new(parse_shape(t)?)),
        "seq" => Shape::Seq(Box::new(parse_shape(t)?)),
        "map" => {
            let k = parse_shape(t)?;
            let v = parse_shape(t)?;
            Shape::Map(Box::new(k), Box::new(v))
        }
        "tup" => Shape::Tup(parse_shapes(t)?),
        "ustruct" => Shape::UStruct(intern(t.next()?)),
        "nstruct" => {
            let n = intern(t.next()?);
            Shape::NStruct(n, Box::new(parse_shape(t)?))
        }
        "tstruct" => {
            let n = intern(t.next()?);
            Shape::TStruct(n, parse_shapes(t)?)
        }
        "struct" => {
            let n = intern(t.next()?);
            Shape::Struct(n, parse_fields(t)?)
        }
        "enum" => {
            let n = intern(t.next()?);
            let k = t.num()?;
            let mut vs = vec![];
            for _ in 0..k {
                let vn = intern(t.next()?);
                let v = match t.next()? {
                    "vu" => VShape::Unit,
                    "vn" => VShape::Newtype(parse_shape(t)?),
                    "vt" => VShape::Tuple(parse_shapes(t)?),
                    "vs" => VShape::Struct(parse_fields(t)?),
                    x => return Err(format!("bad variant shape {x}")),
                };
                vs.push((vn, v));
            }
            Shape::Enum(n, vs)
        }
        x => return Err(format!("bad shape token {x}")),
    })
}

impl Dyn {
    /// token text; `canon` sorts map entries by key text and normalises *signalling* f32 NaNs (the
    /// conversion to f64 quiets them); quiet NaNs keep sign and payload and are compared exactly
    pub fn text(&self, canon: bool, out: &mut Vec<String>) {
        match self {
            Dyn::Bool(true) => out.push("T".into()),
            Dyn::Bool(false) => out.push("F".into()),
            Dyn::Int(i) => out.push(format!("i{i}")),
            Dyn::F32(b) => {
                if canon && f32::from_bits(*b).is_nan() && *b & 0x0040_0000 == 0 {
                    out.push("fNaN".into())
                } else {
                    out.push(format!("f{b}"))
                }
            }
            Dyn::F64(b) => out.push(format!("d{b}")),
            Dyn::Char(c) => out.push(format!("c{}", *c as u32)),
            Dyn::Str(s) => out.push(format!("s{}", hex_str(s))),
            Dyn::Bytes(b) => out.push(format!("y{}", mjh::hex(b))),
            Dyn::None => out.push("N".into()),
            Dyn::Some(d) => {
                out.push("S".into());
                d.text(canon, out)
            }
            Dyn::Unit => out.push("U".into()),
            Dyn::List(ds) => {
                out.push("L".into());
                out.push(ds.len().to_string());
                ds.iter().for_each(|d| d.text(canon, out))
            }
            Dyn::Map(kvs) => {
                out.push("M".into());
                out.push(kvs.len().to_string());
                let mut ents: Vec<(String, String)> = kvs
                    .iter()
                    .map(|(k, v)| (k.to_text(canon), v.to_text(canon)))
                    .collect();
                if canon {
                    ents.sort();
                }
                for (k, v) in ents {
                    out.push(k);
                    out.push(v);
                }
            }
            Dyn::Variant(i, p) => {
                out.push("V".into());
                out.push(i.to_string());
                p.text(canon, out)
            }
        }
    }
    pub fn to_text(&self, canon: bool) -> String {
        let mut v = vec![];
        self.text(canon, &mut v);
        v.join(" ")
    }
}

pub fn parse_dyn(t: &mut Toks) -> Result<Dyn, String> {
    let tok = t.next()?;
    let (h, rest) = tok.split_at(1);
    Ok(match h {
        "T" => Dyn::Bool(true),
        "F" => Dyn::Bool(false),
        "i" => Dyn::Int(rest.parse().map_err(|_| "bad int")?),
        "f" => Dyn::F32(rest.parse().map_err(|_| "bad f32")?),
        "d" => Dyn::F64(rest.parse().map_err(|_| "bad f64")?),
        "c" => Dyn::Char(char::from_u32(rest.parse().map_err(|_| "bad char")?).ok_or("bad char")?),
        "s" => Dyn::Str(String::from_utf8(mjh::unhex(rest)).map_err(|_| "bad utf8")?),
        "y" => Dyn::Bytes(mjh::unhex(rest)),
        "N" => Dyn::None,
        "S" => Dyn::Some(Box::new(parse_dyn(t)?)),
        "U" => Dyn::Unit,
        "L" => {
            let n = t.num()?;
            Dyn::List((0..n).map(|_| parse_dyn(t)).collect::<Result<_, _>>()?)
        }
        "M" => {
            let n = t.num()?;
            let mut v = vec![];
            for _ in 0..n {
                let k = parse_dyn(t)?;
                let x = parse_dyn(t)?;
                v.push((k, x));
            }
            Dyn::Map(v)
        }
        "V" => {
            let i = t.num()?;
            Dyn::Variant(i, Box::new(parse_dyn(t)?))
        }
        x => return Err(format!("bad data token {x}")),
    })
}

// ------------------------------------------------------------------------------------ Serialize
pub struct WithShape<'a>(pub &'a Shape, pub &'a Dyn);

fn mismatch<E: SerError>(s: &Shape, d: &Dyn) -> E {
    E::custom(format!("shape mismatch {:?} / {:?}", s, d))
}

impl Serialize for WithShape<'_> {
    fn serialize<S: Serializer>(&self, ser: S) -> Result<S::Ok, S::Error> {
        let (s, d) = (self.0, self.1);
        match (s, d) {
            (Shape::Bool, Dyn::Bool(b)) => ser.serialize_bool(*b),
            (Shape::U8, Dyn::Int(i)) => ser.serialize_u8(*i as u8),
            (Shape::U16, Dyn::Int(i)) => ser.serialize_u16(*i as u16),
            (Shape::U32, Dyn::Int(i)) => ser.serialize_u32(*i as u32),
            (Shape::U64, Dyn::Int(i)) => ser.serialize_u64(*i as u64),
            (Shape::I8, Dyn::Int(i)) => ser.serialize_i8(*i as i8),
            (Shape::I16, Dyn::Int(i)) => ser.serialize_i16(*i as i16),
            (Shape::I32, Dyn::Int(i)) => ser.serialize_i32(*i as i32),
            (Shape::I64, Dyn::Int(i)) => ser.serialize_i64(*i as i64),
            (Shape::F32, Dyn::F32(b)) => ser.serialize_f32(f32::from_bits(*b)),
            (Shape::F64, Dyn::F64(b)) => ser.serialize_f64(f64::from_bits(*b)),
            (Shape::Char, Dyn::Char(c)) => ser.serialize_char(*c),
            (Shape::Str, Dyn::Str(x)) => ser.serialize_str(x),
            (Shape::Bytes, Dyn::Bytes(x)) => ser.serialize_bytes(x),
            (Shape::Unit, Dyn::Unit) => ser.serialize_unit(),
            (Shape::Opt(_), Dyn::None) => ser.serialize_none(),
            (Shape::Opt(inner), Dyn::Some(x)) => ser.serialize_some(&WithShape(inner, x)),
            (Shape::Seq(inner), Dyn::List(xs)) => {
                let mut q = ser.serialize_seq(Some(xs.len()))?;
                for x in xs {
                    q.serialize_element(&WithShape(inner, x))?;
                }
                q.end()
            }
            (Shape::Map(ks, vs), Dyn::Map(kvs)) => {
                let mut m = ser.serialize_map(Some(kvs.len()))?;
                for (i, (k, v)) in kvs.iter().enumerate() {
                    // both entry points derived/std code uses
                    if i % 2 == 0 {
                        m.serialize_entry(&WithShape(ks, k), &WithShape(vs, v))?;
                    } else {
                        m.serialize_key(&WithShape(ks, k))?;
                        m.serialize_value(&WithShape(vs, v))?;
                    }
                }
                m.end()
            }
            (Shape::Tup(ss), Dyn::List(xs)) if ss.len() == xs.len() => {
                let mut q = ser.serialize_tuple(xs.len())?;
                for (s1, x) in ss.iter().zip(xs) {
                    q.serialize_element(&WithShape(s1, x))?;
                }
                q.end()
            }
            (Shape::UStruct(n), Dyn::Unit) => ser.serialize_unit_struct(n),
            (Shape::NStruct(n, inner), x) => ser.serialize_newtype_struct(n, &WithShape(inner, x)),
            (Shape::TStruct(n, ss), Dyn::List(xs)) if ss.len() == xs.len() => {
                let mut q = ser.serialize_tuple_struct(n, xs.len())?;
                for (s1, x) in ss.iter().zip(xs) {
                    q.serialize_field(&WithShape(s1, x))?;
                }
                q.end()
            }
            (Shape::Struct(n, fs), Dyn::List(xs)) if fs.len() == xs.len() => {
                let mut q = ser.serialize_struct(n, xs.len())?;
                for ((fname, s1), x) in fs.iter().zip(xs) {
                    q.serialize_field(fname, &WithShape(s1, x))?;
                }
                q.end()
            }
            (Shape::Enum(n, vs), Dyn::Variant(i, p)) if *i < vs.len() => {
                let (vname, vshape) = &vs[*i];
                match (vshape, &**p) {
                    (VShape::Unit, Dyn::Unit) => ser.serialize_unit_variant(n, *i as u32, vname),
                    (VShape::Newtype(s1), x) => ser.serialize_newtype_variant(n, *i as u32, vname, &WithShape(s1, x)),
                    (VShape::Tuple(ss), Dyn::List(xs)) if ss.len() == xs.len() => {
                        let mut q = ser.serialize_tuple_variant(n, *i as u32, vname, xs.len())?;
                        for (s1, x) in ss.iter().zip(xs) {
                            q.serialize_field(&WithShape(s1, x))?;
                        }
                        q.end()
                    }
                    (VShape::Struct(fs), Dyn::List(xs)) if fs.len() == xs.len() => {
                        let mut q = ser.serialize_struct_variant(n, *i as u32, vname, xs.len())?;
                        for ((fname, s1), x) in fs.iter().zip(xs) {
                            q.serialize_field(fname, &WithShape(s1, x))?;
                        }
                        q.end()
                    }
                    _ => Err(mismatch(s, d)),
                }
            }
            _ => Err(mismatch(s, d)),
        }
    }
}
