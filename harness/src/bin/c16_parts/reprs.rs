//! Stream `rk`: every method of serde's `Deserializer` trait (plus the four variant accesses behind
//! `deserialize_enum`) on every representation a template value can have — `SmallStr` / `Arc<str>` / safe
//! strings, `U64` / `I64` / `U128` / `I128` at every width, floats, bytes, none / undefined, invalid values,
//! plain / sequence / iterable / map objects of several implementations — through the owned and the borrowed
//! deserializer, with a visitor that records which `visit_*` call arrives with which payload.
//!
//!   rk <method> <repr>/<how> <value desc>  \t  <probe text>|err|panic|owned/borrowed-differ [..] [..]
use super::shape::Toks;
use super::val::{parse_vd, VD};
use minijinja::value::{Value, ValueKind};
use mjh::{guarded, Rng};
use serde::de::{self, DeserializeSeed, Deserializer, EnumAccess, MapAccess, SeqAccess, VariantAccess, Visitor};
use std::fmt;
use std::sync::Arc;

pub const METHODS: [&str; 34] = [
    "any", "bool", "i8", "i16", "i32", "i64", "i128", "u8", "u16", "u32", "u64", "u128", "f32", "f64", "char", "str", "string", "bytes",
    "byte_buf", "option", "unit", "unit_struct", "newtype_struct", "seq", "tuple", "tuple_struct", "map", "struct", "identifier",
    "ignored_any", "enum:unit", "enum:newtype", "enum:tuple", "enum:struct",
];

#[derive(Clone, Copy)]
struct Probe(Option<&'static str>);

struct ProbeSeed;
impl<'de> DeserializeSeed<'de> for ProbeSeed {
    type Value = String;
    fn deserialize<D: Deserializer<'de>>(self, d: D) -> Result<String, D::Error> {
        d.deserialize_any(Probe(None))
    }
}

impl<'de> Visitor<'de> for Probe {
    type Value = String;
    fn expecting(&self, f: &mut fmt::Formatter) -> fmt::Result {
        f.write_str("anything")
    }
    fn visit_bool<E: de::Error>(self, v: bool) -> Result<String, E> {
        Ok(format!("bool:{}", if v { "T" } else { "F" }))
    }
    fn visit_i64<E: de::Error>(self, v: i64) -> Result<String, E> {
        Ok(format!("i64:{v}"))
    }
    fn visit_u64<E: de::Error>(self, v: u64) -> Result<String, E> {
        Ok(format!("u64:{v}"))
    }
    fn visit_i128<E: de::Error>(self, v: i128) -> Result<String, E> {
        Ok(format!("i128:{v}"))
    }
    fn visit_u128<E: de::Error>(self, v: u128) -> Result<String, E> {
        Ok(format!("u128:{v}"))
    }
    fn visit_f64<E: de::Error>(self, v: f64) -> Result<String, E> {
        Ok(format!("f64:{}", v.to_bits()))
    }
    fn visit_str<E: de::Error>(self, v: &str) -> Result<String, E> {
        Ok(format!("str:{}", mjh::hex(v.as_bytes())))
    }
    fn visit_bytes<E: de::Error>(self, v: &[u8]) -> Result<String, E> {
        Ok(format!("bytes:{}", mjh::hex(v)))
    }
    fn visit_none<E: de::Error>(self) -> Result<String, E> {
        Ok("none".into())
    }
    fn visit_unit<E: de::Error>(self) -> Result<String, E> {
        Ok("unit".into())
    }
    fn visit_some<D: Deserializer<'de>>(self, d: D) -> Result<String, D::Error> {
        Ok(format!("some({})", d.deserialize_any(Probe(None))?))
    }
    fn visit_newtype_struct<D: Deserializer<'de>>(self, d: D) -> Result<String, D::Error> {
        Ok(format!("newtype({})", d.deserialize_any(Probe(None))?))
    }
    fn visit_seq<A: SeqAccess<'de>>(self, mut a: A) -> Result<String, A::Error> {
        let mut items = vec![];
        while let Some(x) = a.next_element_seed(ProbeSeed)? {
            items.push(x);
        }
        Ok(format!("seq[{}]", items.join(",")))
    }
    fn visit_map<A: MapAccess<'de>>(self, mut a: A) -> Result<String, A::Error> {
        let mut items = vec![];
        while let Some(k) = a.next_key_seed(ProbeSeed)? {
            let v = a.next_value_seed(ProbeSeed)?;
            items.push(format!("{k}={v}"));
        }
        Ok(format!("map{{{}}}", items.join(",")))
    }
    fn visit_enum<A: EnumAccess<'de>>(self, a: A) -> Result<String, A::Error> {
        let (variant, acc) = a.variant_seed(ProbeSeed)?;
        let t = match self.0 {
            Some("newtype") => format!("newtype({})", acc.newtype_variant_seed(ProbeSeed)?),
            Some("tuple") => acc.tuple_variant(2, Probe(None))?,
            Some("struct") => acc.struct_variant(&["a", "b"], Probe(None))?,
            _ => {
                acc.unit_variant()?;
                "unit:ok".to_string()
            }
        };
        Ok(format!("enum({variant};{t})"))
    }
}

fn call<'de, D: Deserializer<'de>>(d: D, m: &str) -> Result<String, D::Error> {
    let p = Probe(None);
    match m {
        "any" => d.deserialize_any(p),
        "bool" => d.deserialize_bool(p),
        "i8" => d.deserialize_i8(p),
        "i16" => d.deserialize_i16(p),
        "i32" => d.deserialize_i32(p),
        "i64" => d.deserialize_i64(p),
        "i128" => d.deserialize_i128(p),
        "u8" => d.deserialize_u8(p),
        "u16" => d.deserialize_u16(p),
        "u32" => d.deserialize_u32(p),
        "u64" => d.deserialize_u64(p),
        "u128" => d.deserialize_u128(p),
        "f32" => d.deserialize_f32(p),
        "f64" => d.deserialize_f64(p),
        "char" => d.deserialize_char(p),
        "str" => d.deserialize_str(p),
        "string" => d.deserialize_string(p),
        "bytes" => d.deserialize_bytes(p),
        "byte_buf" => d.deserialize_byte_buf(p),
        "option" => d.deserialize_option(p),
        "unit" => d.deserialize_unit(p),
        "unit_struct" => d.deserialize_unit_struct("U", p),
        "newtype_struct" => d.deserialize_newtype_struct("N", p),
        "seq" => d.deserialize_seq(p),
        "tuple" => d.deserialize_tuple(2, p),
        "tuple_struct" => d.deserialize_tuple_struct("T", 2, p),
        "map" => d.deserialize_map(p),
        "struct" => d.deserialize_struct("S", &["a", "b"], p),
        "identifier" => d.deserialize_identifier(p),
        "ignored_any" => d.deserialize_ignored_any(p),
        "enum:unit" => d.deserialize_enum("E", &["A", "B"], Probe(Some("unit"))),
        "enum:newtype" => d.deserialize_enum("E", &["A", "B"], Probe(Some("newtype"))),
        "enum:tuple" => d.deserialize_enum("E", &["A", "B"], Probe(Some("tuple"))),
        "enum:struct" => d.deserialize_enum("E", &["A", "B"], Probe(Some("struct"))),
        _ => panic!("unknown method {m}"),
    }
}

/// a value description together with the way its top-level representation is chosen
#[derive(Clone)]
pub struct Src {
    pub how: &'static str,
    pub vd: VD,
}

pub const STR_HOWS: [&str; 4] = ["ref", "owned", "arc", "safe"];
pub const INT_HOWS: [&str; 4] = ["i64", "u64", "i128", "u128"];

fn intern_how(h: &str) -> &'static str {
    for x in STR_HOWS.iter().chain(INT_HOWS.iter()) {
        if *x == h {
            return x;
        }
    }
    "vd"
}

impl Src {
    pub fn build(&self) -> Value {
        match (&self.vd, self.how) {
            (VD::Str(s, _), "ref") => Value::from(s.as_str()),
            (VD::Str(s, _), "owned") => Value::from(s.clone()),
            (VD::Str(s, _), "arc") => Value::from(Arc::<str>::from(s.as_str())),
            (VD::Str(s, _), "safe") => Value::from_safe_string(s.clone()),
            (VD::Int(i, _), "i64") => Value::from(*i as i64),
            (VD::Int(i, _), "u64") => Value::from(*i as u64),
            (VD::Int(i, _), "i128") => Value::from(*i),
            (VD::Int(i, _), "u128") => Value::from(*i as u128),
            (VD::BigU(u), _) => Value::from(*u),
            (vd, _) => vd.build(),
        }
    }

    /// the representation, as far as it can be known from outside (`SmallStr` holds up to 22 bytes)
    pub fn repr(&self, v: &Value) -> &'static str {
        match (&self.vd, self.how) {
            (VD::Str(s, _), "ref") | (VD::Str(s, _), "owned") => if s.len() <= 22 { "smallStr" } else { "string" },
            (VD::Str(..), _) => "string",
            (VD::Int(..), "i64") => "i64",
            (VD::Int(..), "u64") => "u64",
            (VD::Int(..), "i128") => "i128",
            (VD::Int(..), "u128") | (VD::BigU(_), _) => "u128",
            (VD::Undef, _) => "undefined",
            (VD::None, _) => "none",
            (VD::Invalid, _) => "invalid",
            (VD::Bool(_), _) => "bool",
            (VD::F64(_), _) => "f64",
            (VD::Bytes(_), _) => "bytes",
            _ => match v.kind() {
                ValueKind::Seq => "objSeq",
                ValueKind::Iterable => "objIterable",
                ValueKind::Map => "objMap",
                ValueKind::Plain => "objPlain",
                _ => "?",
            },
        }
    }

    pub fn case(&self, m: &str) -> String {
        let v = self.build();
        format!("rk {} {}/{} {}", m, self.repr(&v), self.how, self.vd.to_text())
    }

    pub fn run(&self, m: &str) -> String {
        let show = |x: Result<Result<String, minijinja::Error>, String>| match x {
            Ok(Ok(t)) => t,
            Ok(Err(_)) => "err".to_string(),
            Err(_) => "panic".to_string(),
        };
        // (a one-shot iterator can be read once: a fresh value for each deserializer)
        let a = show(guarded(|| call(self.build(), m)));
        let b = show(guarded(|| {
            let v = self.build();
            call(&v, m)
        }));
        if a == b {
            a
        } else {
            format!("owned/borrowed-differ [{a}] [{b}]")
        }
    }
}

pub fn parse_case(rest: &str) -> Result<(String, Src), String> {
    let (m, rest) = rest.trim().split_once(' ').ok_or("rk <method> <repr>/<how> <value>")?;
    let (rh, desc) = rest.split_once(' ').ok_or("rk <method> <repr>/<how> <value>")?;
    let how = rh.split_once('/').map(|x| x.1).unwrap_or("vd");
    let vd = parse_vd(&mut Toks::new(desc))?;
    Ok((m.to_string(), Src { how: intern_how(how), vd }))
}

fn s(x: &str) -> VD {
    VD::Str(x.to_string(), false)
}
fn u(x: i128) -> VD {
    VD::Int(x, true)
}

/// the value universe: every content in every representation that can hold it
pub fn universe(r: &mut Rng, n_random: usize) -> Vec<Src> {
    let mut out = vec![];
    let vd = |vd: VD| Src { how: "vd", vd };
    out.push(vd(VD::None));
    out.push(vd(VD::Undef));
    out.push(vd(VD::Invalid));
    out.push(vd(VD::Bool(true)));
    out.push(vd(VD::Bool(false)));
    out.push(vd(VD::Plain("plain".into())));
    // integers at every width boundary, in each representation that holds them
    let mut ints: Vec<i128> = vec![0, 1, 2, 127, 128, 255, 256, 32767, 32768, 65535, 65536, (1 << 31) - 1, 1 << 31, (1 << 32) - 1, 1 << 32, 1 << 53, (1 << 53) + 1,
        i64::MAX as i128, i64::MAX as i128 + 1, u64::MAX as i128, u64::MAX as i128 + 1, 1 << 100, i128::MAX, -1, -2, -128, -129, -32768, -32769, -(1 << 31), -(1 << 31) - 1,
        i64::MIN as i128, i64::MIN as i128 - 1, -(1 << 100), i128::MIN];
    for _ in 0..n_random {
        let width = 1 + r.below(126) as u32; // (1 << 127) - 1 would overflow
        let mag = (r.next() as i128) << 64 | r.next() as i128;
        let x = mag & ((1i128 << width) - 1);
        ints.push(if r.chance(1, 2) { x } else { -x });
    }
    for i in ints {
        if i >= i64::MIN as i128 && i <= i64::MAX as i128 {
            out.push(Src { how: "i64", vd: VD::Int(i, false) });
        }
        if i >= 0 && i <= u64::MAX as i128 {
            out.push(Src { how: "u64", vd: VD::Int(i, true) });
        }
        out.push(Src { how: "i128", vd: VD::Int(i, false) });
        if i >= 0 {
            out.push(Src { how: "u128", vd: VD::Int(i, true) });
        }
    }
    out.push(vd(VD::BigU(u128::MAX)));
    out.push(vd(VD::BigU(i128::MAX as u128 + 1)));
    // floats
    let mut floats: Vec<u64> = [0.0f64, -0.0, 1.0, -1.0, 1.5, 255.0, 256.0, 4294967296.0, 9007199254740993.0, 1e300, f64::MIN_POSITIVE, 5e-324, f64::INFINITY, f64::NEG_INFINITY, f64::NAN]
        .iter().map(|x| x.to_bits()).collect();
    floats.push(0xfff8_0000_0000_0001);
    for _ in 0..n_random {
        floats.push(r.next());
    }
    for b in floats {
        out.push(vd(VD::F64(b)));
    }
    // strings around the small-string capacity, in every storage
    let mut strs: Vec<String> = ["", "a", "A", "Ab", "unit", "é", "0", "true", "a variant name beyond the small string cap", "日本語のテキストは二十二バイトを超える"]
        .iter().map(|x| x.to_string()).collect();
    for n in [21usize, 22, 23, 24, 64] {
        strs.push("x".repeat(n));
    }
    strs.push(format!("{}é", "y".repeat(20)));
    strs.push(format!("{}é", "y".repeat(21)));
    for _ in 0..n_random {
        let n = r.below(40) as usize;
        strs.push((0..n).map(|_| char::from_u32(0x20 + r.below(0x250) as u32).unwrap_or('?')).collect());
    }
    for st in strs {
        for how in STR_HOWS {
            out.push(Src { how, vd: VD::Str(st.clone(), how == "safe") });
        }
    }
    // bytes
    for b in [vec![], vec![0x61], vec![0xff, 0x00], b"hello".to_vec()] {
        out.push(vd(VD::Bytes(b)));
    }
    // sequences: the value vector, tuples, custom objects with every enumerator answer, iterables
    let long = "a variant name beyond the small string cap";
    let seqs: Vec<Vec<VD>> = vec![vec![], vec![u(1)], vec![u(1), s("a")], vec![VD::None, VD::Bool(true), VD::Int(-3, false)], vec![u(1), VD::Invalid], vec![s(long), VD::Seq(vec![u(2)])]];
    for xs in &seqs {
        out.push(vd(VD::Seq(xs.clone())));
        out.push(vd(VD::Tup(xs.clone())));
        for kind in ["cq", "cv", "ci", "cr", "cx", "cl", "os", "ie", "oi", "ce", "cn"] {
            // (`cr` enumerates in reverse: same items, other order - the json stream covers it; `ce` / `cn` hold
            // items they never enumerate)
            if (kind == "cr" && xs.len() > 1) || ((kind == "ce" || kind == "cn") && !xs.is_empty()) {
                continue;
            }
            out.push(vd(VD::Lazy(kind, xs.clone())));
        }
    }
    // maps: the value map and custom map objects
    let maps: Vec<Vec<(VD, VD)>> = vec![
        vec![],
        vec![(s("A"), u(1))],
        vec![(s("A"), VD::None)],
        vec![(s("A"), VD::Seq(vec![u(1), u(2)]))],
        vec![(s("A"), VD::Tup(vec![u(1), u(2)]))],
        vec![(s("A"), VD::Lazy("ie", vec![u(1), u(2)]))],
        vec![(s("A"), VD::Lazy("cq", vec![u(1), u(2)]))],
        vec![(s("A"), VD::Map(vec![(s("a"), u(1)), (s("b"), s("x"))]))],
        vec![(s("A"), VD::LazyMap("wk", vec![(s("a"), u(1))]))],
        vec![(s(long), VD::Seq(vec![u(1)]))],
        vec![(VD::Str("A".into(), true), u(1))],
        vec![(s("A"), u(1)), (s("B"), u(2))],
        vec![(u(1), u(2))],
        vec![(s("A"), VD::Invalid)],
    ];
    for kvs in &maps {
        out.push(vd(VD::Map(kvs.clone())));
        for kind in ["wi", "wx", "wk", "wu", "wv", "wn"] {
            out.push(vd(VD::LazyMap(kind, kvs.clone())));
        }
    }
    out
}

// ------------------------------------------------------------------------------------ stream `ff`
/// the finite doubles whose printed token is checked: every power of two with its two neighbours (the lower gap
/// is half the upper one there), the subnormal range, the largest doubles, decimal powers and their neighbours,
/// integers around 2^53, and random bit patterns
pub fn ff_universe(r: &mut Rng, n_random: usize) -> Vec<u64> {
    let mut out: Vec<u64> = vec![];
    for e in 0u64..2047 {
        let b = e << 52;
        for x in [b.wrapping_sub(1), b, b + 1] {
            out.push(x);
        }
    }
    out.extend([1, 2, 3, (1u64 << 52) - 1, 0x7fef_ffff_ffff_ffff, 0x7fef_ffff_ffff_fffe]);
    let mut p = 1e-323f64;
    while p < 1e308 {
        let b = p.to_bits();
        out.extend([b - 1, b, b + 1]);
        p *= 10.0;
    }
    for i in 0..64u64 {
        out.push((((1u64 << 53) - 32 + i) as f64).to_bits());
        out.push(((i as f64) / 10.0).to_bits());
        out.push(((i as f64) * 1e21).to_bits());
    }
    for _ in 0..n_random {
        out.push(r.next() & 0x7fff_ffff_ffff_ffff);
        // few significant bits / few significant digits
        let m = r.below(1 << 20);
        out.push(((m as f64) * 10f64.powi(r.below(600) as i32 - 300)).to_bits());
    }
    out.retain(|b| (b >> 52) & 0x7ff != 0x7ff && *b != 0 && *b < (1u64 << 63));
    out.sort();
    out.dedup();
    out
}

pub fn run_ff(bits: u64, neg: bool) -> String {
    let x = f64::from_bits(bits | if neg { 1u64 << 63 } else { 0 });
    match serde_json::to_string(&x) {
        Ok(t) => {
            // Rust's own reader is correctly rounded and independent of the printer
            let back = t.parse::<f64>().map(|y| y.to_bits() == x.to_bits()).unwrap_or(false);
            format!("{}\t{}", mjh::hex(t.as_bytes()), if back { "rt:ok" } else { "rt:bad" })
        }
        Err(_) => "err\trt:bad".into(),
    }
}
